"""C04 — fixed-precision results are on the grid, valid, near exact, and never fail.

proof:  coq/theories/C04/*.v, Properties_C04.v: PrecisionModel::makePrecise at binary64 (generated unit = hand model on
        SpecFloat; util::round = floor(v + 1/2) exactly) and its rule over the integers (nearest multiple, ties up, fixed
        points); HotPixel::intersectsScaled (generated unit = hand model; decides "segment meets the half-open pixel" on all
        19^4 configurations of a window, with universal soundness / completeness lemmas for the exact class); the pointwise
        reducer (structure theorem); PrecSpecW with a certified checker (witness family and distance tests of C03, tol = 2g).
tie:    G = Gen/PM_makePrecise, Gen/HP_intersectsScaled (executed through the extraction beside the real classes, bit for
        bit / on every integer configuration of a 9x9 window); R = the checker decides every result of GEOS*Prec_r,
        GEOSUnaryUnionPrec_r, GEOSGeom_setPrecision_r (all flags) on generated valid inputs and grid sizes; the grid clause is
        evaluated with the binary64 model; the pointwise mode is compared with the model vertex by vertex.
"""
import json, math, os, random, struct, time
from concurrent.futures import ThreadPoolExecutor
from fractions import Fraction
from vlib.core import ROOT, BUILD, NPROC
from props import C03_lib as L

UNITS = ['HP_intersectsScaled', 'HP_intersectsPt', 'PM_makePrecise']
OPS = {'INT': (1, 'GEOSIntersectionPrec_r'), 'UNI': (2, 'GEOSUnionPrec_r'), 'DIF': (3, 'GEOSDifferencePrec_r'), 'SYM': (4, 'GEOSSymDifferencePrec_r')}
GC_EMPTY = ('GC', [])


def bits(v):
    return struct.unpack('<Q', struct.pack('<d', float(v)))[0]


def hexd(v):
    return 'x%016x' % bits(v)


def unhex(s):
    return struct.unpack('<d', struct.pack('<Q', int(s[1:17], 16)))[0]


class Runner:
    def __init__(self, ctx, hexe, drv):
        self.ctx, self.hexe, self.drv = ctx, hexe, drv
        self.valid_cache = {}

    def par(self, argv, lines, timeout=600, chunk=None):
        if not lines: return []
        n = len(lines)
        k = chunk or max(1, min(200, (n + NPROC - 1) // NPROC))
        chunks = [lines[i:i + k] for i in range(0, n, k)]
        with ThreadPoolExecutor(max_workers=NPROC) as ex:
            res = list(ex.map(lambda c: self.ctx.run_lines(argv, c, timeout=timeout), chunks))
        return [o for r in res for o in r]

    def model_valid(self, geoms_int):
        todo = []
        for g in geoms_int:
            t = L.text_int(g)
            if t not in self.valid_cache and t not in todo: todo.append(t)
        for t, o in zip(todo, self.par([self.drv], ['VAL ' + t for t in todo], chunk=8)):
            self.valid_cache[t] = o.strip()
        return [self.valid_cache[L.text_int(g)] for g in geoms_int]


# ------------------------------------------------------------------ 1. makePrecise, bit for bit
def grid_sizes(rng, extent=1.0):
    base = [1e-6, 1e-5, 1e-4, 1e-3, 0.01, 0.1, 1.0, 10.0, 100.0, 1e3, 0.5, 0.25, 2.0, 8.0, 1024.0, 2.0 ** -10, 0.3, 7.3, 1 / 3.0, 123.456, 0.05, 5.0, 2.5]
    return [b * extent for b in base] + [rng.choice(base) * (1 + rng.random()) for _ in range(4)]


def mp_values(rng, g, n):
    """values around k*g +- g/2 +- a few ulps, both signs, and a few others"""
    out = [0.0, -0.0, g, -g, g / 2, -g / 2, g / 4, -g / 4, 1e-300, -1e-300, 4503599627370496.5, 1e15 + 0.5, -1e15 - 0.5, 1e300]
    for _ in range(n):
        k = rng.choice([0, 1, 2, 3, 7, 10, 11, 99, 1000, 12345, 10 ** 6 + 1, rng.randint(0, 10 ** 9)])
        v = (k + 0.5) * g if rng.random() < 0.7 else (k + rng.random()) * g
        for _ in range(rng.choice([0, 0, 1, 2, 3])):
            v = math.nextafter(v, rng.choice([-math.inf, math.inf]))
        out.append(v if rng.random() < 0.5 else -v)
    return out


def check_make_precise(ctx, r, rng, n_per):
    lines, meta = [], []
    for ext in (1.0, 1000.0, 1e-3):
        for g in grid_sizes(rng, ext):
            scale = 1.0 / abs(g)
            vs = mp_values(rng, g, n_per)
            lines.append('MP %s %s' % (hexd(scale), ' '.join(hexd(v) for v in vs))); meta.append((g, scale, vs))
            if rng.random() < 0.3:       # a negative "scale" means a grid size (PrecisionModel::setScale)
                lines.append('MP %s %s' % (hexd(-g), ' '.join(hexd(v) for v in vs))); meta.append((g, -g, vs))
    pml = ['PM ' + l.split()[1] for l in lines]
    grl = ['GRID ' + hexd(m[0]) for m in meta]
    mo = r.par([r.drv], lines + pml + grl, chunk=8); io = r.par([r.hexe], lines + pml, chunk=8)
    nbad = n = 0
    for i, (ln, (g, scale, vs)) in enumerate(zip(lines, meta)):
        mt, it = mo[i].split(), io[i].split()
        for v, a, b in zip(vs, mt, it):
            n += 1
            ctx.count(('mp', scale, bits(v)), True)
            if a != b:
                nbad += 1
                if nbad <= 1:
                    ctx.broken.append(dict(kind='correspondence', name='makePrecise scale=%r v=%r' % (scale, v),
                                           detail='PrecisionModel(%r).makePrecise(%r): model %s, implementation %s (%r); replay: echo "MP %s %s" | %s'
                                                  % (scale, v, a, b, unhex(b) if b.startswith('x') else b, hexd(scale), hexd(v), r.hexe)))
        if mo[len(lines) + i] != io[len(lines) + i]:
            nbad += 1
            if not any(b['name'].startswith('PrecisionModel(') for b in ctx.broken): ctx.broken.append(dict(kind='correspondence', name='PrecisionModel(%r) members' % scale, detail='model %s implementation %s' % (mo[len(lines) + i], io[len(lines) + i])))
        # the scale the C API derives from the grid size is the correctly rounded 1/|g| (Python's / is the same IEEE division)
        gs = mo[2 * len(lines) + i].split()
        if gs and gs[0] != hexd(1.0 / abs(g)) and not any(b['name'] == '1/|g|' for b in ctx.broken):
            ctx.broken.append(dict(kind='correspondence', name='1/|g|', detail='model %s python %s' % (gs[0], hexd(1.0 / abs(g)))))
    return n, nbad


# ------------------------------------------------------------------ 2. hot pixel, every integer configuration of a window
def check_hot_pixel(ctx, r, rng, thorough):
    lines = []
    W = 4
    for a in range(-W, W + 1):
        for b in range(-W, W + 1):
            for c in range(-W, W + 1):
                for d in range(-W, W + 1):
                    lines.append('HP 0 0 %d %d %d %d' % (a, b, c, d))
    half = []
    for _ in range(3000 if not thorough else 60000):       # half-integer end points, other pixel centres
        cx, cy = rng.randint(-5, 5), rng.randint(-5, 5)
        p = [2 * cx + rng.randint(-7, 7), 2 * cy + rng.randint(-7, 7), 2 * cx + rng.randint(-7, 7), 2 * cy + rng.randint(-7, 7)]
        half.append((2 * cx, 2 * cy, p))
    hl_m = ['HPH %d %d %d %d %d %d' % ((hx, hy) + tuple(p)) for hx, hy, p in half]
    hl_i = ['HP %d %d %s' % (hx // 2, hy // 2, ' '.join('%.1f' % (v / 2.0) for v in p)) for hx, hy, p in half]
    # HotPixel::intersects(p): every point of a 5x5-cell window in half units against the pixel at a few centres
    pl_m, pl_i = [], []
    for cx, cy in ((0, 0), (3, -2), (-7, 5)):
        for x in range(2 * cx - 5, 2 * cx + 6):
            for y in range(2 * cy - 5, 2 * cy + 6):
                pl_m.append('HPP %d %d %d %d' % (2 * cx, 2 * cy, x, y)); pl_i.append('HPP %d %d %.1f %.1f' % (cx, cy, x / 2.0, y / 2.0))
    pm_o = r.par([r.drv], pl_m); pi_o = r.par([r.hexe], pl_i)
    npt_bad = 0
    for ln, a, b in zip(pl_m, pm_o, pi_o):
        ctx.count(('hpp', ln), True)
        if not (len(a) == 2 and a[0] == a[1] == b):
            npt_bad += 1
            if npt_bad <= 2 and len(a) == 2 and a[1] != b:
                ctx.violation('hotpixel_pt_%d' % npt_bad, dict(case=ln, implementation=b, half_open_square=a[1], generated_unit=a[0],
                                                               expected='HotPixel::intersects(p) = p in [cx-1/2, cx+1/2) x [cy-1/2, cy+1/2)',
                                                               replay='echo "%s" | %s' % (pl_i[pl_m.index(ln)], r.hexe)),
                              msg='HotPixel::intersects(p) (%s, half units) = %s but the half-open pixel says %s' % (ln, b, a[1]))
            elif not any(x['name'].startswith('HotPixel::intersects(p)') for x in ctx.broken):
                ctx.broken.append(dict(kind='correspondence', name='HotPixel::intersects(p) ' + ln, detail='model %s implementation %s' % (a, b)))
    mo = r.par([r.drv], lines + hl_m); io = r.par([r.hexe], lines + hl_i)
    nbad = npt_bad; ntrue = 0
    for ln, a, b in zip(lines + hl_m, mo, io):
        ctx.count(('hp', ln), True)
        ntrue += b == '1'
        # a = generated, hand model, exact class
        if not (len(a) == 3 and a[0] == a[1] == a[2] == b):
            nbad += 1
            if nbad <= 3:
                if len(a) == 3 and a[2] != b:
                    # the implementation contradicts the exact class: a property-level failure (the hot pixel test IS the mechanism)
                    ctx.violation('hotpixel_%d' % nbad, dict(case=ln, implementation=b, exact_class=a[2], generated_unit=a[0], hand_model=a[1],
                                                             expected='HotPixel::intersects = the closed segment meets the half-open pixel',
                                                             replay='echo "%s" | %s' % (ln.replace('HPH', 'HP'), r.hexe)),
                                  msg='HotPixel::intersects(%s) = %s but the exact class says %s' % (ln, b, a[2]))
                elif not any(b['name'].startswith('HotPixel ') for b in ctx.broken):
                    ctx.broken.append(dict(kind='correspondence', name='HotPixel ' + ln, detail='model (generated, hand, exact) %s implementation %s' % (a, b)))
    return len(lines) + len(half) + len(pl_m), nbad, ntrue


# ------------------------------------------------------------------ 3. the operations
class Case:
    def __init__(self, call, g, A, B=None, flags=0, family='', label=''):
        self.call, self.g, self.A, self.B, self.flags, self.family, self.label = call, g, A, B, flags, family, label
        self.out = self.R = self.gv = self.prec = None

    def line(self):
        if self.call == 'SETP': return 'SETP %s %d | %s' % (hexd(self.g), self.flags, L.text_hex(self.A))
        if self.call == 'UUP': return 'UUP %s | %s' % (hexd(self.g), L.text_hex(self.A))
        return '%s %s | %s | %s' % (self.call, hexd(self.g), L.text_hex(self.A), L.text_hex(self.B))

    def describe(self):
        name = {'SETP': 'GEOSGeom_setPrecision_r', 'UUP': 'GEOSUnaryUnionPrec_r'}.get(self.call) or OPS[self.call][1]
        d = dict(call=name, gridSize=repr(self.g), family=self.family, label=self.label, A=L.to_wkt(self.A))
        if self.B is not None: d['B'] = L.to_wkt(self.B)
        if self.call == 'SETP': d['flags'] = self.flags
        return d


def extent_of(gs):
    pts = [p for g in gs if g is not None for p in L.all_pts(g)]
    if not pts: return 1.0
    return max(max(p[0] for p in pts) - min(p[0] for p in pts), max(p[1] for p in pts) - min(p[1] for p in pts), 1e-9)


def magnitude_of(gs):
    pts = [p for g in gs if g is not None for p in L.all_pts(g)]
    return max([abs(v) for p in pts for v in p], default=0.0)


def resolvable(g, gs):
    """the grid can be told apart from binary64 resolution at the magnitude of the coordinates (g >= 2^-40 * magnitude):
    below that neither the grid nor the 2g bound can be represented"""
    return g >= magnitude_of(gs) * 2.0 ** -40


def pick_grid(rng, ext):
    k = rng.random()
    if k < 0.5: f = rng.choice([1e-6, 1e-4, 1e-3, 0.01, 0.03, 0.1])
    elif k < 0.9: f = rng.choice([0.2, 0.3, 0.5, 1.0])                  # collapses rings, closes gaps, merges vertices
    else: f = rng.choice([3.0, 10.0, 1e3])
    g = ext * f
    r = rng.random()
    if r < 0.4:        # a power of ten / two near it
        g = 10.0 ** round(math.log10(g)) if rng.random() < 0.6 else 2.0 ** round(math.log2(g))
    return g


def gen_cases(rng, n_pairs, n_setp):
    cases = []
    for i in range(n_pairs):
        full = rng.random() < 0.35
        A = L.gen_geom(rng, rng.choice(['A', 'A', 'A', 'L', 'MA', 'P', 'ML']), rng.choice([4, 8, 12]))
        B, lab = L.derive(rng, A, 8)
        if B[0] == 'GC' or A[0] == 'GC':
            B, lab = L.gen_geom(rng, rng.choice(['A', 'L', 'MA']), 8), 'independent'
        fam = 'grid'
        if full:
            f = L.full_precision_map(rng); A, B = L.map_pts(A, f), L.map_pts(B, f); fam = 'full'
        g = pick_grid(rng, extent_of([A, B]))
        while not resolvable(g, [A, B]): g *= 16
        for k in OPS:
            cases.append(Case(k, g, A, B, family=fam, label=lab))
        if rng.random() < 0.5:
            els = L.atoms(A) + L.atoms(B)
            cases.append(Case('UUP', g, ('GC', els), family=fam, label='unary'))
            polys = [e[1] for e in els if e[0] == 'PG']
            if polys: cases.append(Case('UUP', g, ('MPG', polys), family=fam, label='unary-multipolygon'))
    # one operand smaller than a grid cell, placed at the ring start vertex / another vertex / on an edge / inside / outside the
    # other operand, in either argument position: the tiny operand collapses completely (or almost) on the grid
    for i in range(max(8, n_pairs // 3)):
        O = L.gen_poly(rng, rng.choice([4, 8, 12]), holes=rng.random() < 0.3)
        ring = O[1][0]
        g = float(rng.choice([1, 2, 2, 4]))               # the vertices of O (even integers) are mostly grid points
        where = rng.choice(['ring-start', 'ring-start', 'vertex', 'edge', 'inside', 'outside'])
        if where == 'ring-start': c = ring[0]
        elif where == 'vertex': c = ring[rng.randrange(1, len(ring) - 1)]
        elif where == 'edge':
            k = rng.randrange(len(ring) - 1); t = rng.choice([0.5, 0.25, 0.3])
            c = (ring[k][0] + (ring[k + 1][0] - ring[k][0]) * t, ring[k][1] + (ring[k + 1][1] - ring[k][1]) * t)
        elif where == 'inside':
            xs = [p[0] for p in ring]; ys = [p[1] for p in ring]
            c = (sum(xs[:-1]) / (len(xs) - 1), sum(ys[:-1]) / (len(ys) - 1))
        else:
            c = (max(p[0] for p in ring) + 3 * g, max(p[1] for p in ring) + g)
        off = rng.choice([0.0, 0.0, 0.3, -0.3]) * g
        c = (c[0] + off, c[1] + (off if rng.random() < 0.5 else 0.0))
        hs = g * rng.choice([0.05, 0.1, 0.2, 0.45])        # half size: smaller than half a cell
        T = ('PG', [[(c[0] - hs, c[1] - hs), (c[0] + hs, c[1] - hs), (c[0] + hs, c[1] + hs), (c[0] - hs, c[1] + hs), (c[0] - hs, c[1] - hs)]]
             if rng.random() < 0.7 else [[(c[0] - hs, c[1] - hs), (c[0] + hs, c[1] - hs), (c[0], c[1] + hs), (c[0] - hs, c[1] - hs)]])
        fam = 'tiny'
        if rng.random() < 0.25:
            f = L.full_precision_map(rng); O2, T2 = L.map_pts(O, f), L.map_pts(T, f)
            sc = extent_of([O2]) / max(extent_of([O]), 1e-9)
            O, T, g = O2, T2, g * sc
            while not resolvable(g, [O, T]): g *= 16
        for k in OPS:
            cases.append(Case(k, g, O, T, family=fam, label='tiny-second/' + where))
            cases.append(Case(k, g, T, O, family=fam, label='tiny-first/' + where))
    # grid sizes > 1 (and the scaled-down twin) with OFF-grid input: a vertex of one operand within half a cell of a long, nearly
    # axis-parallel edge of the other, so that its hot pixel centre can lie outside the bounding box of that edge
    for i in range(max(6, n_pairs // 4)):
        g = float(rng.choice([10, 10, 100, 1000, 0.1, 0.01]))
        L_ = rng.randint(5, 12)                                    # edge length in cells
        y0 = (rng.randint(0, 3) + rng.choice([0.4, 0.42, 0.45, 0.3])) * g
        y1 = y0 + rng.choice([0.2, 0.15, 0.1, 0.25]) * g            # rise of the edge: less than a cell
        x0 = rng.choice([0.0, 0.37, -2.6]) * g; x1 = x0 + L_ * g
        top = y1 + rng.randint(6, 12) * g
        A = [(x0, y0), (x1, y1), (x1, top), (x0, top), (x0, y0)]
        t = rng.choice([0.7, 0.5, 0.31, 0.83])
        vx = x0 + (x1 - x0) * t + rng.choice([0.0, 0.13, -0.21]) * g
        ve = y0 + (y1 - y0) * (vx - x0) / (x1 - x0)                 # the edge at vx
        vy = ve + rng.choice([0.0, 0.05, -0.05, 0.2, -0.2]) * g
        if rng.random() < 0.6:
            # aimed: the edge crosses the upper half of the vertex's cell (so its hot pixel is the row ABOVE the bounding box of
            # the edge) and the vertex is just below the edge, farther than the intersection-nearness tolerance g/100
            base = math.floor(ve / g) * g
            ve_t = base + rng.choice([0.53, 0.56, 0.6]) * g
            y0 += ve_t - ve; y1 += ve_t - ve; top += ve_t - ve
            A = [(x0, y0), (x1, y1), (x1, top), (x0, top), (x0, y0)]
            ve = y0 + (y1 - y0) * (vx - x0) / (x1 - x0)
            vy = ve - rng.choice([0.02, 0.03, 0.025]) * g
        depth = rng.randint(8, 16) * g
        B = [(vx, vy), (vx + rng.randint(3, 6) * g, vy - depth), (vx - rng.randint(3, 6) * g, vy - depth - 0.3 * g), (vx, vy)]
        tf = rng.choice(['id', 'swap', 'flipy', 'flipx'])
        def T(p, tf=tf):
            x, y = p
            if tf == 'swap': return (y, x)
            if tf == 'flipy': return (x, -y)
            if tf == 'flipx': return (-x, y)
            return p
        PA, PB = ('PG', [[T(p) for p in A]]), ('PG', [[T(p) for p in B]])
        lab = 'near-axis-edge/g=%g' % g
        for k in OPS:
            cases.append(Case(k, g, PA, PB, family='near-axis', label=lab))
        cases.append(Case('UNI', g, PB, PA, family='near-axis', label=lab + '/swap'))
        cases.append(Case('DIF', g, PB, PA, family='near-axis', label=lab + '/swap'))
        cases.append(Case('UUP', g, ('GC', [PA, PB]), family='near-axis', label=lab))
        for fl in (0, 2):
            cases.append(Case('SETP', g, ('MPG', [PA[1], PB[1]]) if vy < ve else ('GC', [PA, PB]), flags=fl, family='near-axis', label=lab))
        cases.append(Case('SETP', g, ('GC', [PA, ('LS', PB[1][0][:3])]), flags=0, family='near-axis', label=lab))
    # a vertex EXACTLY half a cell from a pixel centre (an odd multiple of g/2 in one ordinate; all four sides by symmetry), the
    # pixel next to it hot with a vertex of the other operand, and a segment from that vertex through that pixel
    for i in range(max(6, n_pairs // 4)):
        g = float(rng.choice([1, 1, 2, 10, 0.5, 0.25, 4, 100]))
        a1 = rng.choice([0.49, 0.3, 0.1, -0.2, 0.45]); u = rng.choice([1.0, 0.8, 0.6])
        half = rng.choice([0.5, 0.5, 0.5, 1.5])                       # the exact half-cell ordinate (1.5: two rows up)
        A = [(5, -1), (5, 3 + half), (a1, 3 + half), (a1, half), (a1 - u * (half + 1) / 1.5, -1), (5, -1)]
        by = rng.choice([0.0, 0.2, -0.3, 0.4]) + (half - 0.5)
        xa = a1 - u * (half + 1) / 1.5 * (half - by) / (half + 1)     # A's slanted edge at height by
        bx = xa - rng.choice([0.1, 0.3, 0.39, 0.6])
        B = [(-4, by + 0.6), (-4, by - 0.6), (bx, by), (-4, by + 0.6)]
        kx, ky = rng.randint(-3, 3), rng.randint(-3, 3)
        tf = rng.choice(['id', 'flipy', 'swap', 'swapflip', 'flipx'])
        def T(p, tf=tf, kx=kx, ky=ky, g=g):
            x, y = p
            if tf == 'flipy': y = -y
            elif tf == 'flipx': x = -x
            elif tf == 'swap': x, y = y, x
            elif tf == 'swapflip': x, y = -y, x
            return ((x + kx) * g, (y + ky) * g)
        PA, PB = ('PG', [[T(p) for p in A]]), ('PG', [[T(p) for p in B]])
        lab = 'half-cell/' + tf
        for k in OPS:
            cases.append(Case(k, g, PA, PB, family='half-cell', label=lab))
        cases.append(Case('UNI', g, PB, PA, family='half-cell', label=lab + '/swap'))
        cases.append(Case('UUP', g, ('GC', [PA, PB]), family='half-cell', label=lab))
        cases.append(Case('SETP', g, ('GC', [PA, PB]), flags=0, family='half-cell', label=lab))
        cases.append(Case('SETP', g, ('MPG', [PA[1], PB[1]]), flags=0, family='half-cell', label=lab))
    for i in range(n_setp):
        full = rng.random() < 0.4
        A = L.gen_geom(rng, None, rng.choice([4, 8, 12]))
        fam = 'grid'
        if full:
            f = L.full_precision_map(rng); A = L.map_pts(A, f); fam = 'full'
        g = pick_grid(rng, extent_of([A]))
        while not resolvable(g, [A]): g *= 16
        for fl in (0, 1, 2, 3):
            cases.append(Case('SETP', g, A, flags=fl, family=fam, label='setPrecision'))
    return cases


def scaled(gs, g):
    """integer geometries (translated) and the tolerance parameters for tol = 2g"""
    ints, e = L.scale_case(gs + [('PT', (g, g))])
    G = L.all_pts(ints[-1])[0][0]            # g in scaled units (exact: g is a double)
    ints = L.translate_case(ints[:-1])
    tn, td, en, ed = L.tolerances(2 * G, 1, 1)
    return ints, (tn, td, en, ed), G


def evaluate(ctx, r, cases):
    outs = r.par([r.hexe], [c.line() for c in cases], timeout=300)
    for c, o in zip(cases, outs):
        c.out = o
        if o.startswith('OK '):
            t = o.split()
            c.gv = t[1] == 'v=1'; c.prec = t[2][3:]
            try: c.R, _ = L.parse_tokens(t[3:])
            except Exception: c.out = 'UNPARSABLE ' + o[:150]
    # validity of the inputs
    need = []
    for c in cases:
        try:
            ints, par, G = scaled([c.A] + ([c.B] if c.B is not None else []) + ([c.R] if c.R is not None else []), c.g)
        except ValueError:
            c.ints = None; continue
        c.ints, c.par, c.G = ints, par, G
        parts = L.atoms(ints[0]) if c.call == 'UUP' else [ints[0]] + ([ints[1]] if c.B is not None else [])
        c.parts = parts; need += parts
    r.model_valid(need)
    # grid clause: every ordinate of R is a fixed point of makePrecise (binary64 model of PrecisionModel(1/|g|))
    mpl, own = [], []
    for c in cases:
        if c.R is not None:
            vs = sorted({v for p in L.all_pts(c.R) for v in p}, key=bits)
            if vs:
                mpl.append('MP %s %s' % (hexd(1.0 / abs(c.g)), ' '.join(hexd(v) for v in vs))); own.append((c, vs))
    for (c, vs), o in zip(own, r.par([r.drv], mpl, chunk=16)):
        c.offgrid = [v for v, b in zip(vs, o.split()) if b.rstrip('!') != hexd(v)]
    # pointwise mode: the model's tree
    pw, pown = [], []
    for c in cases:
        if c.call == 'SETP' and (c.flags & 1) and c.R is not None:
            vs = [v for p in L.all_pts(c.A) for v in p]
            if vs:
                pw.append('MP %s %s' % (hexd(1.0 / abs(c.g)), ' '.join(hexd(v) for v in vs))); pown.append(c)
            else:
                c.pointwise_model = c.A
    for c, o in zip(pown, r.par([r.drv], pw, chunk=16)):
        it = iter(unhex(b.rstrip('!')) for b in o.split())
        c.pointwise_model = L.map_pts(c.A, lambda p: (next(it), next(it)))
    # the certified checker
    lines, own = [], []
    for c in cases:
        if c.R is None or c.ints is None or (c.call == 'SETP' and (c.flags & 1)):
            continue
        op = OPS[c.call][0] if c.call in OPS else 2
        A = c.ints[0]; B = c.ints[1] if c.B is not None else GC_EMPTY; R = c.ints[-1]
        mode = 'N' if (c.call == 'SETP' and c.flags == 2) else 'V'
        lines.append('PCHK %s %d %d %d %d %d %s %s %s' % ((mode, op) + c.par + (L.text_int(A), L.text_int(B), L.text_int(R)))); own.append(c)
    for c, o, ln in zip(own, r.par([r.drv], lines, timeout=900, chunk=8), lines):
        c.verdict = o; c.chk = ln


def fully_collapsed(c):
    """elements of the input all of whose vertices round to fewer than 2 (line) / 3 non-collinear (polygon) distinct grid points"""
    out = []
    # rounding by the implementation's own rule on exact rationals: nearest multiple of g, ties up
    g = Fraction(c.g)
    def rnd(v): return math.floor(Fraction(v) / g + Fraction(1, 2)) * g
    for a in L.atoms(c.A):
        if L.is_empty(a): continue
        if a[0] == 'LS':
            if len({(rnd(p[0]), rnd(p[1])) for p in a[1]}) < 2: out.append(a)
        elif a[0] == 'PG':
            sh = [(rnd(p[0]), rnd(p[1])) for p in a[1][0]]
            area2 = sum(sh[i][0] * sh[i + 1][1] - sh[i + 1][0] * sh[i][1] for i in range(len(sh) - 1))
            if area2 == 0: out.append(a)
    return out


def strip_empties(g):
    """the tree without EMPTY elements (bit patterns of the ordinates); an empty geometry is 'EMPTY'"""
    if L.is_empty(g): return 'EMPTY'
    t, d = g
    if t in ('PT', 'LS', 'PG'): return L.text_hex(g)
    if t == 'GC': return (t, tuple(strip_empties(h) for h in d if not L.is_empty(h)))
    return (t, tuple(L.text_hex(a) for a in L.atoms(g) if not L.is_empty(a)))


def known_class(c, clause):
    if c.call == 'UUP' and clause == 'grid' and any(a[0] == 'PG' and a[1] for a in L.atoms(c.A)) and any(a[0] == 'LS' and a[1] for a in L.atoms(c.A)):
        return 'unaryunionprec-lines-and-polygons'
    if c.call == 'UUP' and clause == 'grid' and len([a for a in L.atoms(c.A) if a[0] == 'PG' and a[1]]) == 1:
        return 'unaryunionprec-single-polygon'
    if c.call == 'SETP' and (c.flags & 1) and clause == 'pointwise-empties':
        return 'pointwise-empty-elements'
    return None


def classify(ctx, r, c):
    """-> None | ('skip', why) | ('fail', clause, text)"""
    if c.out is None or c.out.startswith('BADINPUT'):
        return ('skip', 'constructor refused the input')
    if c.ints is None:
        return ('skip', 'non-finite ordinate')
    if not all(r.valid_cache.get(L.text_int(g)) == '1' for g in c.parts):
        return ('skip', 'input not valid by the exact model')
    if c.out.startswith('EXC'):
        return ('fail', 'never-fails', 'exception on valid input: ' + c.out[4:200])
    if c.out.startswith(('CRASH', 'TIMEOUT', 'UNPARSABLE')):
        return ('fail', 'never-fails', c.out[:200])
    if getattr(c, 'offgrid', None):
        return ('fail', 'grid', 'ordinates of the result that are not fixed points of makePrecise: %s' % ', '.join(repr(v) for v in c.offgrid[:4]))
    if c.call == 'SETP' and (c.flags & 1):
        if L.text_hex(c.R) != L.text_hex(c.pointwise_model):
            if strip_empties(c.R) == strip_empties(c.pointwise_model):
                return ('fail', 'pointwise-empties', 'pointwise result = map makePrecise over the tree only after EMPTY elements are removed: model %s' % L.to_wkt(c.pointwise_model)[:300])
            return ('fail', 'pointwise', 'pointwise result differs from map makePrecise over the tree: model %s' % L.to_wkt(c.pointwise_model)[:300])
        return None
    v = getattr(c, 'verdict', None) or 'MISSING'
    if not v.startswith(('0', '1')):
        return ('fail', 'checker', v[:200])
    must_be_valid = not (c.call == 'SETP' and c.flags == 2)
    if v.startswith('0'):
        f = dict(kv.split('=', 1) for kv in v.split()[1:] if '=' in kv)
        cl = []
        if f.get('valid') == '0' and must_be_valid: cl.append('valid')
        if f.get('sides'): cl.append('sides-2g')
        if f.get('verts'): cl.append('verts-2g')
        if cl:
            return ('fail', '+'.join(cl), 'checker rejects the result: ' + v[:300])
    if must_be_valid and not c.gv:
        return ('fail', 'valid', 'GEOSisValid_r rejects the result')
    return None


def keep_collapsed(ctx, r, cases):
    """GEOS_PREC_KEEP_COLLAPSED: every fully collapsed element of the input is still represented (within 2g) in the result"""
    lines, own = [], []
    for c in cases:
        if c.call == 'SETP' and c.flags == 2 and c.R is not None and c.ints is not None:
            col = fully_collapsed(c)
            if not col: continue
            Rint = c.ints[-1]
            # the collapsed elements' vertices in the same integer frame: rescale together with R
            ints, par, G = scaled([('GC', col), c.R], c.g)
            pts = L.all_pts(ints[0])
            lines.append('NEAR %d %d %s %d %s' % (par[0], par[1], L.text_int(ints[1]), len(pts), ' '.join('%d %d 1' % p for p in pts))); own.append((c, col))
    res = []
    for (c, col), o in zip(own, r.par([r.drv], lines, chunk=8)):
        res.append((c, col, o.strip()))
    return res



# ------------------------------------------------------------------ 4. precision histories followed by an overlay
HIST_OPS = {'INT': 1, 'UNI': 2, 'DIF': 3, 'SYM': 4}


def gen_histories(rng, n):
    out = []
    for i in range(n):
        A = L.gen_geom(rng, rng.choice(['A', 'A', 'A', 'L', 'MA', 'P', 'ML']), rng.choice([4, 8, 12]))
        B, lab = L.derive(rng, A, 8)
        if B[0] == 'GC' or A[0] == 'GC':
            B, lab = L.gen_geom(rng, rng.choice(['A', 'L', 'MA']), 8), 'independent'
        if rng.random() < 0.35:
            f = L.full_precision_map(rng); A, B = L.map_pts(A, f), L.map_pts(B, f)
        ext = extent_of([A, B])
        u = ext * rng.choice([1e-3, 0.01, 0.03, 0.1]) * rng.choice([1.0, 1.0, 0.7, 1.3])
        if rng.random() < 0.4: u = 2.0 ** round(math.log2(u)) if rng.random() < 0.5 else 10.0 ** round(math.log10(u))
        kind = rng.choice(['coarse-finer-nondivisor', 'coarse-finer-nondivisor', 'finer-coarser', 'equal', 'divisor', 'three-steps'])
        grids = {'coarse-finer-nondivisor': [u, u * 0.3], 'finer-coarser': [u * 0.3, u], 'equal': [u, u], 'divisor': [u, u * 0.5],
                 'three-steps': [u, u * 0.3, u * rng.choice([0.7, 2.0, 0.3])]}[kind]
        while not all(resolvable(g, [A, B]) for g in grids): grids = [g * 16 for g in grids]
        flags = [rng.choice([0, 0, 1, 2, 3]) for _ in grids]
        if rng.random() < 0.3: flags = [rng.choice([0, 1, 2])] * len(grids)
        op = rng.choice(['INT', 'UNI', 'DIF', 'SYM', 'INT', 'UNI', '-'])
        out.append(dict(A=A, B=B, grids=grids, flags=flags, op=op, kind=kind, label=lab))
    return out


def hist_line(hc):
    return 'HIST %d %s %s | %s | %s' % (len(hc['grids']), ' '.join('%s %d' % (hexd(g), f) for g, f in zip(hc['grids'], hc['flags'])), hc['op'],
                                      L.text_hex(hc['A']), L.text_hex(hc['B']))


def check_histories(ctx, r, hists, d):
    """every step of a history is a setPrecision call on the previous result: the same clauses as a single call, plus
    getPrecision = the grid asked for (a clause of the property: later operations take their grid from it); the final plain
    overlay of the two reduced operands must be on the last grid, valid, near the Boolean combination, and report that grid"""
    outs = r.par([r.hexe], [hist_line(h) for h in hists], timeout=300, chunk=8)
    items = []          # one per step / overlay: dict(hc, kind, g, flags, prev, res, valid_impl, prec, B)
    for hc, o in zip(hists, outs):
        hc['out'] = o
        if not o.startswith('OK'): continue
        cur = {0: hc['A'], 1: hc['B']}
        try:
            for part in o.split(' ;; ')[1:]:
                t = part.split()
                if t[0] == 'S':
                    w, i = int(t[1]), int(t[2]); geom, _ = L.parse_tokens(t[5:])
                    items.append(dict(hc=hc, kind='step', who=w, i=i, g=hc['grids'][i], flags=hc['flags'][i], prev=cur[w], res=geom, gv=t[3] == 'v=1', prec=t[4][3:]))
                    cur[w] = geom
                else:
                    geom, _ = L.parse_tokens(t[3:])
                    items.append(dict(hc=hc, kind='overlay', g=hc['grids'][-1], flags=0, prev=cur[0], B=cur[1], res=geom, gv=t[1] == 'v=1', prec=t[2][3:]))
        except Exception:
            hc['out'] = 'UNPARSABLE ' + o[:150]
    # inputs of each item must be valid by the exact model
    need = []
    for it in items:
        try:
            gs = [it['prev']] + ([it['B']] if it['kind'] == 'overlay' else []) + [it['res']]
            it['ints'], it['par'], it['G'] = scaled(gs, it['g'])
        except ValueError:
            it['ints'] = None; continue
        need += it['ints'][:-1]
    r.model_valid(need)
    # grid clause and reported precision through the binary64 model
    mpl, own = [], []
    for it in items:
        vs = sorted({v for p in L.all_pts(it['res']) for v in p}, key=bits)
        it['offgrid'] = []
        if vs: mpl.append('MP %s %s' % (hexd(1.0 / abs(it['g'])), ' '.join(hexd(v) for v in vs))); own.append((it, vs))
    for (it, vs), o in zip(own, r.par([r.drv], mpl, chunk=16)):
        it['offgrid'] = [v for v, b in zip(vs, o.split()) if b.rstrip('!') != hexd(v)]
    for it, o in zip(items, r.par([r.drv], ['GRID ' + hexd(it['g']) for it in items], chunk=64)):
        it['prec_model'] = o.split()[1][1:] if len(o.split()) == 2 else None
    pw, pown = [], []
    for it in items:
        if it['kind'] == 'step' and (it['flags'] & 1):
            vs = [v for p in L.all_pts(it['prev']) for v in p]
            if vs: pw.append('MP %s %s' % (hexd(1.0 / abs(it['g'])), ' '.join(hexd(v) for v in vs))); pown.append(it)
            else: it['pw_model'] = it['prev']
    for it, o in zip(pown, r.par([r.drv], pw, chunk=16)):
        vals = iter(unhex(b.rstrip('!')) for b in o.split())
        it['pw_model'] = L.map_pts(it['prev'], lambda p: (next(vals), next(vals)))
    lines, own = [], []
    for it in items:
        if it['ints'] is None or (it['kind'] == 'step' and (it['flags'] & 1)): continue
        if it['kind'] == 'overlay':
            op = HIST_OPS[it['hc']['op']]; A, B, R = it['ints']; mode = 'V'
        else:
            op = 2; A, R = it['ints']; B = GC_EMPTY; mode = 'N' if it['flags'] == 2 else 'V'
        it['chk'] = 'PCHK %s %d %d %d %d %d %s %s %s' % ((mode, op) + it['par'] + (L.text_int(A), L.text_int(B), L.text_int(R)))
        lines.append(it['chk']); own.append(it)
    for it, o in zip(own, r.par([r.drv], lines, timeout=900, chunk=8)):
        it['verdict'] = o
    # verdicts
    fails = []
    seen_bad = set()
    for it in items:
        hc = it['hc']
        if id(hc) in seen_bad: continue           # a later step of a history that already failed is not an independent failure
        if it['ints'] is None: continue
        inputs_valid = all(r.valid_cache.get(L.text_int(g)) == '1' for g in it['ints'][:-1])
        pointwise = it['kind'] == 'step' and (it['flags'] & 1)
        if not inputs_valid:          # the property quantifies over valid inputs, also for the pointwise mode
            d['skipped']['history step on an input that is not valid'] = d['skipped'].get('history step on an input that is not valid', 0) + 1
            seen_bad.add(id(hc)); continue
        key = 'HIST-' + (it['kind'] if it['kind'] == 'overlay' else 'step%d' % it['flags'])
        d['call'][key] = d['call'].get(key, 0) + 1
        d['history_kinds'][hc['kind']] = d['history_kinds'].get(hc['kind'], 0) + 1
        ctx.count(('hist', hist_line(hc), it['kind'], it.get('who'), it.get('i')), True)
        why = None
        if it['offgrid']:
            why = ('grid', 'ordinates of the result that are not fixed points of makePrecise at grid %r: %s' % (it['g'], ', '.join(repr(v) for v in it['offgrid'][:4])))
        elif it['prec_model'] and it['prec'] != it['prec_model']:
            why = ('precision', 'GEOSGeom_getPrecision_r of the result is %r, the grid asked for is %r (1/scale = %r)' % (unhex('x' + it['prec']), it['g'], unhex('x' + it['prec_model'])))
        elif pointwise:
            if L.text_hex(it['res']) != L.text_hex(it['pw_model']):
                why = ('pointwise-empties' if strip_empties(it['res']) == strip_empties(it['pw_model']) else 'pointwise', 'pointwise step differs from map makePrecise over the tree')
        else:
            v = it.get('verdict', 'MISSING')
            must_valid = not (it['kind'] == 'step' and it['flags'] == 2)
            if v.startswith('0'):
                f = dict(kv.split('=', 1) for kv in v.split()[1:] if '=' in kv)
                cl = ([] if not (f.get('valid') == '0' and must_valid) else ['valid']) + (['sides-2g'] if f.get('sides') else []) + (['verts-2g'] if f.get('verts') else [])
                if cl: why = ('+'.join(cl), 'checker rejects the result: ' + v[:200])
            elif not v.startswith('1'):
                why = ('checker', v[:200])
            if why is None and must_valid and not it['gv']:
                why = ('valid', 'GEOSisValid_r rejects the result')
        if why:
            if why[0] != 'precision': seen_bad.add(id(hc))      # a wrong reported precision does not excuse the later steps / the overlay
            fails.append((it, why))
    for hc in hists:
        if hc['out'].startswith(('EXC', 'CRASH', 'TIMEOUT', 'UNPARSABLE')):
            # never fails: only for histories whose every step input was valid (EXC names the step)
            allv = all(r.valid_cache.get(L.text_int(g)) == '1' for it in items if it['hc'] is hc and it['ints'] for g in it['ints'][:-1])
            (Ai, Bi), _e = L.scale_case([hc['A'], hc['B']])
            r.model_valid([Ai, Bi])
            if allv and all(r.valid_cache.get(L.text_int(g)) == '1' for g in (Ai, Bi)) and all(f == 0 or f == 2 for f in hc['flags']):
                fails.append((dict(hc=hc, kind='history', res=None), ('never-fails', hc['out'][:200])))
    return fails


def report_hist(ctx, r, it, why, name):
    hc = it['hc']
    obj = dict(clause=why[0], why=why[1], history=dict(grids=[repr(g) for g in hc['grids']], flags=hc['flags'], then=hc['op'], kind=hc['kind'],
                                                      A=L.to_wkt(hc['A']), B=L.to_wkt(hc['B'])),
               failing=dict(kind=it['kind'], operand=it.get('who'), step=it.get('i'), input=(L.to_wkt(it['prev']) if it.get('prev') is not None else None),
                            implementation_output=(L.to_wkt(it['res']) if it.get('res') is not None else hc['out'])),
               expected='every step: getPrecision = grid asked for; ordinates fixed points of makePrecise(grid); valid (default mode); pointwise = map makePrecise; '
                        'near the previous geometry within 2g; the plain overlay of the reduced operands is on the last grid, valid and near the Boolean combination',
               harness_line=hist_line(hc), replay='echo "%s" | %s' % (hist_line(hc), r.hexe))
    if it.get('chk'): obj['checker_line'] = it['chk']
    ctx.violation(name, obj, msg='%s: history %s then %s: %s' % (why[0], hc['kind'], hc['op'], why[1][:200]))


def run(ctx):
    ctx.cov['rule'] = ('evaluations = makePrecise values compared bit for bit + hot pixel configurations + operation calls decided by the checker; '
                       'non-trivial = every makePrecise value and hot pixel configuration, and operation calls on non-empty inputs whose grid size '
                       'is at most the extent (so that something survives); distinct by call + operand bit patterns + grid size')
    ctx.assumptions += [
        'binary64 arithmetic is the stdlib SpecFloat model (round to nearest even); std::modf / floor / ceil in java_math_round are modelled by exact integer arithmetic (floor(v + 1/2)) and compared bit for bit',
        'the float cast of the FLOATING_SINGLE branch of makePrecise is outside the subset (the property is about FIXED models)',
        'hotpixel_spec is proved on a window (19^4 configurations in half units around the pixel) plus universal soundness / completeness of the exact class; unbounded equivalence is not proved',
        'snap rounding, the hot pixel index and the overlay labelling are not modelled: their results are decided by PrecSpecW at the witness family (not proved to meet every face)',
        'KEEP_COLLAPSED is read on point sets: a collapsed part must still be represented within 2g by a lower-dimension point set (a zero-length line counts)',
        'grid sizes are drawn from 1e-6 .. 1e3 x extent but not below 2^-40 x the coordinate magnitude (a finer grid is not representable in binary64 at that magnitude)',
        'exact scaling of each case to integers is done by this module (Python Fractions)']
    ok_build = ctx.build_repo('rel')
    ctx.translate(UNITS)
    ok_coq, ax = ctx.coq_build('Properties_C04', deps_timeout=2400)
    drv = ctx.ocaml_driver('C04')
    hexe = os.path.join(BUILD, 'bin', 'c04')
    if not ok_build or not drv or not ctx.cxx(os.path.join(ROOT, 'harness/c04.cpp'), hexe, 'rel'):
        return
    r = Runner(ctx, hexe, drv)
    rng = random.Random(ctx.seed)
    dist = {}
    n, nbad = check_make_precise(ctx, r, rng, 40 if ctx.quick else 400)
    dist['makePrecise_values'] = n; dist['makePrecise_mismatches'] = nbad
    n, nbad, ntrue = check_hot_pixel(ctx, r, rng, not ctx.quick)
    dist['hotpixel_configurations'] = n; dist['hotpixel_mismatches'] = nbad; dist['hotpixel_intersecting'] = ntrue
    ctx.log('makePrecise / hot pixel correspondence done: %s' % json.dumps(dist))
    cases = corpus_cases() + gen_cases(rng, 100 if ctx.quick else 800, 80 if ctx.quick else 600)
    evaluate(ctx, r, cases)
    d = {'family': {}, 'call': {}, 'grid_over_extent': {}, 'skipped': {}, 'failed': {}, 'result_empty': 0, 'precision_reported': {}}
    nviol = 0; known = {}
    for i, c in enumerate(cases):
        res = classify(ctx, r, c)
        if res and res[0] == 'skip':
            d['skipped'][res[1]] = d['skipped'].get(res[1], 0) + 1; continue
        key = c.call + (str(c.flags) if c.call == 'SETP' else '')
        d['call'][key] = d['call'].get(key, 0) + 1
        d['family'][c.family] = d['family'].get(c.family, 0) + 1
        ratio = c.g / extent_of([c.A, c.B])
        rk = '<=1e-3' if ratio <= 1e-3 else '<=0.1' if ratio <= 0.1 else '<=1' if ratio <= 1 else '>1'
        d['grid_over_extent'][rk] = d['grid_over_extent'].get(rk, 0) + 1
        if c.R is not None and L.is_empty(c.R): d['result_empty'] += 1
        ctx.count((c.line(),), ratio <= 1 and not L.is_empty(c.A))
        if c.call == 'SETP' and c.prec:
            # GEOSGeom_getPrecision_r of the result = 1.0 / scale of PrecisionModel(1.0 / |g|)
            pk = 'same-bits-as-g' if c.prec == hexd(c.g)[1:] else 'differs-from-g'
            d['precision_reported'][pk] = d['precision_reported'].get(pk, 0) + 1
        if res is None: continue
        _, clause, text = res
        d['failed'][clause] = d['failed'].get(clause, 0) + 1
        kc = known_class(c, clause)
        kf = ctx.known_match(lambda k: k.get('key', {}).get('class') == kc) if kc else None
        if kf:
            known.setdefault(kf['id'], (kf, c)); continue
        if nviol < 6:
            nviol += 1
            report(ctx, r, c, clause, text, 'case_%d' % i)
    # reported precision: GEOSGeom_getPrecision_r of a setPrecision result is the grid asked for (1.0 / scale of PrecisionModel(1.0 / |g|)).
    # A clause of the property (later operations take their grid from it), decided with the binary64 model
    setp = [c for c in cases if c.call == 'SETP' and c.prec and classify(ctx, r, c) is None]
    for c, o in zip(setp, r.par([r.drv], ['GRID ' + hexd(c.g) for c in setp], chunk=64)):
        exp = o.split()[1][1:] if len(o.split()) == 2 else None
        if exp and c.prec != exp:
            d['failed']['precision'] = d['failed'].get('precision', 0) + 1
            if nviol < 6:
                nviol += 1
                report(ctx, r, c, 'precision', 'GEOSGeom_getPrecision_r of the result is %r, the grid asked for is %r' % (unhex('x' + c.prec), c.g), 'prec_%d' % nviol)
    # precision histories followed by a plain overlay
    d['history_kinds'] = {}
    nh = {}
    hists = corpus_histories() + gen_histories(rng, 60 if ctx.quick else 600)
    for it, why in check_histories(ctx, r, hists, d):
        d['failed']['hist-' + why[0]] = d['failed'].get('hist-' + why[0], 0) + 1
        kc = 'pointwise-empty-elements' if why[0] == 'pointwise-empties' else None
        kf = ctx.known_match(lambda k: k.get('key', {}).get('class') == kc) if kc else None
        if kf:
            known.setdefault(kf['id'], (kf, Case('SETP', it['g'], it['prev'], flags=it['flags'], family='history'))); continue
        nh[why[0]] = nh.get(why[0], 0) + 1
        if nh[why[0]] <= 2:
            report_hist(ctx, r, it, why, 'hist_%s_%d' % (why[0], nh[why[0]]))
    # KEEP_COLLAPSED
    nk = 0
    for c, col, o in keep_collapsed(ctx, r, cases):
        if not all(r.valid_cache.get(L.text_int(g)) == '1' for g in c.parts): continue
        nk += 1
        ctx.count(('keep', c.line()), True)
        if '0' in o:
            polyc = any(a[0] == 'PG' for a in col)
            kf = ctx.known_match(lambda k: k.get('key', {}).get('class') == 'keep-collapsed-polygon-dropped') if polyc else None
            d['failed']['keep-collapsed'] = d['failed'].get('keep-collapsed', 0) + 1
            if kf:
                known.setdefault(kf['id'], (kf, c))
            elif nviol < 6:
                nviol += 1
                report(ctx, r, c, 'keep-collapsed', 'a fully collapsed element of the input is not represented within 2g in the KEEP_COLLAPSED result (%s)' % o, 'keep_%d' % nk)
    d['keep_collapsed_cases'] = nk
    for kid, (kf, c) in known.items():
        ctx.known_hit(kf, '%s [%s] e.g. %s' % (kf['what'][:220], kid, json.dumps(c.describe())[:300]))
    ctx.cov['traces_validated_against_impl'] = ctx.cov['evaluations']
    dist['operations'] = d
    ctx.notes['distribution'] = dist
    for c in cases[:3]: ctx.sample(json.dumps(c.describe())[:300])
    for k in list(OPS) + ['UUP', 'SETP0', 'SETP1', 'SETP2', 'SETP3', 'HIST-step0', 'HIST-step1', 'HIST-step2', 'HIST-overlay']:
        if d['call'].get(k, 0) == 0:
            ctx.broken.append(dict(kind='generator', name='distribution', detail='no evaluated call ' + k))
    if nk == 0:
        ctx.broken.append(dict(kind='generator', name='distribution', detail='no KEEP_COLLAPSED case with a fully collapsed element'))
    if d['family'].get('half-cell', 0) == 0:
        ctx.broken.append(dict(kind='generator', name='distribution', detail='no evaluated case of the half-cell family'))
    if d['family'].get('near-axis', 0) == 0:
        ctx.broken.append(dict(kind='generator', name='distribution', detail='no evaluated case of the near-axis-edge family'))
    if d['family'].get('tiny', 0) == 0:
        ctx.broken.append(dict(kind='generator', name='distribution', detail='no evaluated case of the tiny-operand family'))
    for k in ('coarse-finer-nondivisor', 'finer-coarser', 'equal'):
        if d['history_kinds'].get(k, 0) == 0:
            ctx.broken.append(dict(kind='generator', name='distribution', detail='no evaluated history of kind ' + k))
    ctx.log('operations: %s' % json.dumps({k: d[k] for k in ('call', 'failed', 'skipped', 'grid_over_extent', 'keep_collapsed_cases', 'history_kinds')}))


def report(ctx, r, c, clause, text, name):
    obj = dict(clause=clause, why=text, inputs=c.describe(), implementation_output=(L.to_wkt(c.R) if c.R is not None else c.out),
               expected='PrecSpec: never fails; every ordinate a fixed point of makePrecise(grid); valid; membership = Boolean combination at witnesses farther than 2g from the inputs; '
                        'vertices within 2g of the inputs; pointwise mode = map makePrecise; KEEP_COLLAPSED keeps collapsed parts',
               harness_line=c.line(), replay='echo "%s" | %s' % (c.line(), r.hexe))
    if getattr(c, 'chk', None): obj['checker_line'] = c.chk
    ctx.violation(name, obj, msg='%s: %s %s' % (clause, c.call, text[:200]))


def corpus_histories():
    p = os.path.join(ROOT, 'gen/corpus/C04_hist.txt')
    out = []
    if os.path.exists(p):
        for l in open(p):
            l = l.strip()
            if not l or l.startswith('#'): continue
            parts = [x.strip() for x in l.split('|')]
            head = parts[0].split(); k = int(head[1])
            gs = [L.parse_tokens(x.split())[0] for x in parts[1:]]
            out.append(dict(A=gs[0], B=gs[1], grids=[float(head[2 + 2 * i]) for i in range(k)], flags=[int(head[3 + 2 * i]) for i in range(k)],
                            op=head[2 + 2 * k], kind='corpus', label='corpus'))
    return out


def corpus_cases():
    p = os.path.join(ROOT, 'gen/corpus/C04.txt')
    out = []
    if os.path.exists(p):
        for l in open(p):
            l = l.strip()
            if not l or l.startswith('#'): continue
            parts = [x.strip() for x in l.split('|')]
            head = parts[0].split()
            gs = [L.parse_tokens(x.split())[0] for x in parts[1:]]
            g = float(head[1])
            if head[0] == 'SETP': out.append(Case('SETP', g, gs[0], flags=int(head[2]), family='corpus'))
            elif head[0] == 'UUP': out.append(Case('UUP', g, gs[0], family='corpus'))
            else: out.append(Case(head[0], g, gs[0], gs[1], family='corpus'))
    return out
