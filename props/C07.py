"""C07 — orientation, point-in-ring / point-in-polygon and segment intersection are exact on grid inputs.

proof:   coq/theories/Lib/Kernel*.v, coq/theories/C07/*.v, Properties_C07.v
         (orient laws; ray-crossing model = boundary test + crossing parity, left/right parity, invariances; segment
         classification sound and complete with the exact common point(s); filter exact on the 2^25 grid, linked to
         binary64 through Flocq; generated units = models)
tie G:   translator units K_* (translator/units/C07.py): countSegment, getLocation, Envelope::intersects (2 forms),
         computeIntersect + computeCollinearIntersection at integers; orientationIndexFilter, the DD operations,
         OrientationDD, orientationIndex, signOfDet2x2 and CGAlgorithmsDD::intersection at binary64 (SpecFloat)
tie M/S: extracted models (grid models over Z; the GENERATED binary64 units executed bit for bit) beside the real library
         (C++ API and C API), and an independent exact oracle in Python (integers / Fractions) that decides the property
         clauses directly on the implementation's outputs.
"""
import math, os, struct
from fractions import Fraction
from vlib.core import ROOT, BUILD

LIM = 2 ** 25
SCALES = [0, 0, 0, 1, -1, 7, -3, 40, -40, 300, -300]
TOL = Fraction(1, 10 ** 14)


# ------------------------------------------------------------------------------------------------ exact oracle (S)
def det(a, b, c):
    return (b[0] - a[0]) * (c[1] - a[1]) - (b[1] - a[1]) * (c[0] - a[0])


def sgn(v):
    return (v > 0) - (v < 0)


def on_seg(p, a, b):
    return det(a, b, p) == 0 and min(a[0], b[0]) <= p[0] <= max(a[0], b[0]) and min(a[1], b[1]) <= p[1] <= max(a[1], b[1])


def locate_oracle(p, ring):
    """exact location w.r.t. a closed ring: boundary test, then even-odd with an UPWARD ray (half-open in x) — deliberately
    not the rightward ray of the code, so that agreement is not an artefact of sharing the tie-breaking rule."""
    n = 0
    for a, b in zip(ring, ring[1:]):
        if on_seg(p, a, b):
            return 'B'
        if (a[0] <= p[0] < b[0]) or (b[0] <= p[0] < a[0]):
            # y_cross > p.y  <=>  sign(b.x-a.x) * ((p.x-a.x)(b.y-a.y) - (p.y-a.y)(b.x-a.x)) > 0
            v = (p[0] - a[0]) * (b[1] - a[1]) - (p[1] - a[1]) * (b[0] - a[0])
            if sgn(b[0] - a[0]) * v > 0:
                n += 1
    return 'I' if n % 2 else 'E'


def locate_polygon_oracle(p, rings):
    ls = [locate_oracle(p, r) for r in rings]
    if 'B' in ls:
        return 'B'
    if ls[0] == 'E':
        return 'E'
    return 'E' if 'I' in ls[1:] else 'I'


def seg_oracle(p1, p2, q1, q2):
    """exact common part of two closed segments: ('N',) | ('P', (X, Y), proper) | ('C', a, b) with a != b (Fractions)"""
    F = Fraction
    d = (p2[0] - p1[0], p2[1] - p1[1]); e = (q2[0] - q1[0], q2[1] - q1[1])
    cr = lambda u, v: u[0] * v[1] - u[1] * v[0]
    dot = lambda u, v: u[0] * v[0] + u[1] * v[1]
    if d == (0, 0) and e == (0, 0):
        return ('P', (F(p1[0]), F(p1[1])), False) if p1 == q1 else ('N',)
    if d == (0, 0):
        return ('P', (F(p1[0]), F(p1[1])), False) if on_seg(p1, q1, q2) else ('N',)
    if e == (0, 0):
        return ('P', (F(q1[0]), F(q1[1])), False) if on_seg(q1, p1, p2) else ('N',)
    w = (q1[0] - p1[0], q1[1] - p1[1])
    den = cr(d, e)
    if den != 0:
        t = F(cr(w, e), den); u = F(cr(w, d), den)
        if 0 <= t <= 1 and 0 <= u <= 1:
            return ('P', (p1[0] + t * d[0], p1[1] + t * d[1]), 0 < t < 1 and 0 < u < 1)
        return ('N',)
    if cr(w, d) != 0:
        return ('N',)
    dd = dot(d, d)
    t0 = F(dot(w, d), dd); t1 = F(dot((q2[0] - p1[0], q2[1] - p1[1]), d), dd)
    lo = max(F(0), min(t0, t1)); hi = min(F(1), max(t0, t1))
    if lo > hi:
        return ('N',)
    pt = lambda t: (p1[0] + t * d[0], p1[1] + t * d[1])
    if lo == hi:
        return ('P', pt(lo), False)
    return ('C', pt(lo), pt(hi))


def area2(ring):
    return sum(a[0] * b[1] - b[0] * a[1] for a, b in zip(ring, ring[1:]))


def ring_simple(ring):
    """closed ring, no two non-adjacent segments share a point, adjacent ones only their common vertex (repeated points removed first)"""
    pts = [ring[0]]
    for q in ring[1:]:
        if q != pts[-1]:
            pts.append(q)
    if len(pts) < 4 or pts[0] != pts[-1]:
        return False
    segs = list(zip(pts, pts[1:])); n = len(segs)
    for i in range(n):
        for j in range(i + 1, n):
            r = seg_oracle(segs[i][0], segs[i][1], segs[j][0], segs[j][1])
            adjacent = (j == i + 1) or (i == 0 and j == n - 1)
            if r[0] == 'N':
                continue
            if r[0] == 'C' or not adjacent:
                return False
            shared = segs[i][1] if j == i + 1 else segs[i][0]
            if (r[1][0], r[1][1]) != (shared[0], shared[1]):
                return False
            if n == 2:
                return False
    return True


# ------------------------------------------------------------------------------------------------ number helpers
def hx(d):
    return '%016x' % struct.unpack('>Q', struct.pack('>d', d))[0]


def unhx(s):
    return struct.unpack('>d', struct.pack('>Q', int(s, 16)))[0]


def frac_of_hex(s):
    return Fraction(unhx(s))


def egcd(a, b):
    if b == 0:
        return (a, 1, 0)
    g, x, y = egcd(b, a % b)
    return (g, y, x - (a // b) * y)


def primitive_dir(rng, m):
    while True:
        a = rng.randint(-m, m); b = rng.randint(-m, m)
        if (a, b) != (0, 0) and math.gcd(abs(a), abs(b)) == 1:
            return a, b


def unit_partner(a, b):
    """(x, y) with a*y - b*x = 1"""
    g, s, t = egcd(a, b)        # a*s + b*t = g = +-1
    if g < 0:
        s, t = -s, -t
    return (-t, s)              # a*s - b*(-t) = 1


def fits(pts, lim=LIM):
    return all(abs(c) <= lim for p in pts for c in p)


def rand_double(rng):
    """finite double with |x| in [1e-100, 1e100] (or 0), random sign and a random 52-bit mantissa"""
    r = rng.random()
    if r < 0.03:
        return 0.0
    e = rng.randint(-332, 332)
    m = 1.0 + rng.getrandbits(52) / 2.0 ** 52
    if rng.random() < 0.3:
        m = 1.0 + rng.getrandbits(rng.choice([1, 3, 8, 20])) / 2.0 ** rng.choice([1, 3, 8, 20, 52])
    v = math.ldexp(m, e)
    if not (1e-100 <= v <= 1e100):
        v = math.ldexp(m, rng.randint(-40, 40))
    return -v if rng.random() < 0.5 else v


# ------------------------------------------------------------------------------------------------ generators
def gen_triples(rng, n):
    """(kind, a, b, c) grid triples aimed at the filter's decision boundary: det in {0, +-1, +-2} at all magnitudes"""
    out = []
    while len(out) < n:
        r = rng.random()
        if r < 0.55:
            bits = rng.choice([2, 4, 8, 12, 16, 20, 23, 24])
            a, b = primitive_dir(rng, 2 ** bits)
            x, y = unit_partner(a, b)
            d = rng.choice([0, 0, 1, -1, 1, -1, 2, -2, 3])
            t = rng.choice([1, 1, 1, 2, 3]) if d in (0, 1, -1) else 1
            s = rng.randint(-3, 3)
            o = (rng.randint(-2 ** bits, 2 ** bits), rng.randint(-2 ** bits, 2 ** bits))
            p0 = o; p1 = (o[0] + t * a, o[1] + t * b); p2 = (o[0] + s * a + d * x, o[1] + s * b + d * y)
            if not fits([p0, p1, p2]):
                # pull back inside the bound by translating
                mx = max(abs(c) for p in (p0, p1, p2) for c in p)
                if mx > 2 * LIM:
                    continue
                cx = (min(p[0] for p in (p0, p1, p2)) + max(p[0] for p in (p0, p1, p2))) // 2
                cy = (min(p[1] for p in (p0, p1, p2)) + max(p[1] for p in (p0, p1, p2))) // 2
                p0, p1, p2 = [(p[0] - cx, p[1] - cy) for p in (p0, p1, p2)]
                if not fits([p0, p1, p2]):
                    continue
            pts = [p0, p1, p2]
            perm = rng.choice([(0, 1, 2), (1, 2, 0), (2, 0, 1), (1, 0, 2), (0, 2, 1), (2, 1, 0)])
            out.append(('euclid', pts[perm[0]], pts[perm[1]], pts[perm[2]]))
        elif r < 0.7:
            m = rng.choice([1, 2, 3, 5, 10])
            P = lambda: (rng.randint(-m, m), rng.randint(-m, m))
            a = P(); b = P(); c = rng.choice([P(), a, b])
            out.append(('small', a, b, c))
        elif r < 0.85:
            C = lambda: rng.choice([LIM, -LIM, LIM - 1, -LIM + 1, 0, LIM - rng.randint(0, 3), rng.randint(-LIM, LIM)])
            out.append(('corner', (C(), C()), (C(), C()), (C(), C())))
        else:
            R = lambda: (rng.randint(-LIM, LIM), rng.randint(-LIM, LIM))
            out.append(('random', R(), R(), R()))
    return out


def convex_polygon(rng, m, nv):
    """convex lattice polygon: primitive edge vectors sorted by angle, closed by their negatives (counter-clockwise)"""
    vs = set()
    while len(vs) < nv:
        a, b = primitive_dir(rng, m)
        if (b > 0) or (b == 0 and a > 0):
            vs.add((a * rng.randint(1, 3), b * rng.randint(1, 3)))
    vs = list(vs)
    vs += [(-a, -b) for a, b in vs]
    vs.sort(key=lambda v: math.atan2(v[1], v[0]))
    # exact re-check of the angular order is unnecessary: only simplicity matters and is re-decided by ring_simple
    pts = [(0, 0)]
    for v in vs[:-1]:
        pts.append((pts[-1][0] + v[0], pts[-1][1] + v[1]))
    pts.append(pts[0])
    return pts


def star_polygon(rng, m, nv):
    dirs = set()
    while len(dirs) < nv:
        dirs.add(primitive_dir(rng, 6))
    dirs = sorted(dirs, key=lambda v: math.atan2(v[1], v[0]))
    pts = [(a * rng.randint(1, m), b * rng.randint(1, m)) for a, b in dirs]
    pts.append(pts[0])
    return pts


def rectilinear_polygon(rng, w, h, ncells):
    """boundary of an edge-connected set of unit cells without holes (grown cell by cell; holes are rejected by ring_simple's caller)"""
    cells = {(0, 0)}
    ncells = min(ncells, w * h)
    while len(cells) < ncells:
        cx, cy = rng.choice(sorted(cells))
        dx, dy = rng.choice([(1, 0), (-1, 0), (0, 1), (0, -1)])
        c = (cx + dx, cy + dy)
        if 0 <= c[0] < w and 0 <= c[1] < h:
            cells.add(c)
    edges = {}
    for (x, y) in cells:
        for a, b in (((x, y), (x + 1, y)), ((x + 1, y), (x + 1, y + 1)), ((x + 1, y + 1), (x, y + 1)), ((x, y + 1), (x, y))):
            if (b, a) in edges:
                del edges[(b, a)]
            else:
                edges[(a, b)] = True
    nxt = {}
    for a, b in edges:
        nxt.setdefault(a, []).append(b)
    if any(len(v) != 1 for v in nxt.values()):
        return None                      # pinched or holed: not a single simple ring
    start = min(nxt)
    pts = [start]; cur = nxt[start][0]
    while cur != start:
        pts.append(cur); cur = nxt[cur][0]
        if len(pts) > 4 * len(cells) + 8:
            return None
    pts.append(start)
    if len(pts) - 1 != len(edges):
        return None
    return pts


def cells_boundary(cells):
    """boundary ring (counter-clockwise) of a set of unit cells, or None if it is not one simple ring (pinched / holed / disconnected)"""
    edges = {}
    for (x, y) in cells:
        for a, b in (((x, y), (x + 1, y)), ((x + 1, y), (x + 1, y + 1)), ((x + 1, y + 1), (x, y + 1)), ((x, y + 1), (x, y))):
            if (b, a) in edges:
                del edges[(b, a)]
            else:
                edges[(a, b)] = True
    nxt = {}
    for a, b in edges:
        nxt.setdefault(a, []).append(b)
    if not nxt or any(len(v) != 1 for v in nxt.values()):
        return None
    start = min(nxt)
    pts = [start]; cur = nxt[start][0]
    while cur != start:
        pts.append(cur); cur = nxt[cur][0]
        if len(pts) > len(edges) + 2:
            return None
    pts.append(start)
    if len(pts) - 1 != len(edges):
        return None
    return pts


def gen_polygon_nested_holes(rng):
    """valid polygon whose holes are CONCAVE cell shapes grown side by side in one small grid: the holes are disjoint (no two cells of
    different holes touch, not even at a corner) but their envelopes overlap or nest (L / U / C shaped holes with other holes in their
    notches). Returns (shell, holes, cellsets, S) in doubled cell coordinates (cell size 2: cell centres and edge midpoints are lattice points)."""
    for _ in range(40):
        g = rng.randint(4, 7)
        nh = rng.choice([2, 2, 3, 3, 4])
        sets = []
        taken = set()
        ok = True
        for _h in range(nh):
            free = [(x, y) for x in range(g) for y in range(g)
                    if all((x + dx, y + dy) not in taken for dx in (-1, 0, 1) for dy in (-1, 0, 1))]
            if not free:
                ok = False; break
            cells = {rng.choice(free)}
            target = rng.choice([1, 2, 3, 5, 7, 9])
            for _t in range(60):
                if len(cells) >= target:
                    break
                cx, cy = rng.choice(sorted(cells)); dx, dy = rng.choice([(1, 0), (-1, 0), (0, 1), (0, -1)])
                c = (cx + dx, cy + dy)
                if 0 <= c[0] < g and 0 <= c[1] < g and c not in cells and \
                        all((c[0] + ex, c[1] + ey) not in taken for ex in (-1, 0, 1) for ey in (-1, 0, 1)):
                    cells.add(c)
            ring = cells_boundary(cells)
            if ring is None:
                ok = False; break
            sets.append((cells, ring)); taken |= cells
        if not ok or len(sets) < 2:
            continue
        boxes = [(min(x for x, _ in r), max(x for x, _ in r), min(y for _, y in r), max(y for _, y in r)) for _, r in sets]
        overlap = any(not (a[1] < b[0] or b[1] < a[0] or a[3] < b[2] or b[3] < a[2]) for i, a in enumerate(boxes) for b in boxes[i + 1:])
        if not overlap:
            continue
        m = rng.randint(1, 2)
        shell = [(-m, -m), (g + m, -m), (g + m, g + m), (-m, g + m), (-m, -m)]
        if rng.random() < 0.4:               # a non-rectangular shell around the same grid
            shell = [(-m, -m), (g // 2, -m - 1), (g + m, -m), (g + m + 1, g // 2), (g + m, g + m), (-m, g + m), (-m, -m)]
        holes = []
        for cells, ring in sets:
            r = ring[::-1] if rng.random() < 0.5 else ring
            if rng.random() < 0.5:
                j = rng.randrange(len(r) - 1); r = r[j:-1] + r[:j] + [r[j]]
            holes.append(r)
        o = (rng.randint(-30, 30), rng.randint(-30, 30)) if rng.random() < 0.7 else (rng.randint(-2 ** 22, 2 ** 22), rng.randint(-2 ** 22, 2 ** 22))
        T = lambda q: (2 * q[0] + o[0], 2 * q[1] + o[1])
        return [T(q) for q in shell], [[T(q) for q in h] for h in holes], [c for c, _ in sets], (g, o)
    return None, None, None, None


def nested_hole_points(rng, holes, cellsets, g, o, n):
    """query points aimed at each hole: its vertices, edge midpoints, centres of its cells, and centres of the cells that are NOT in
    any hole but inside the envelope of one (the notch of a concave hole, the gap between two holes)"""
    pts = []
    allc = set().union(*cellsets)
    centre = lambda c: (2 * c[0] + 1 + o[0], 2 * c[1] + 1 + o[1])
    for h, cells in zip(holes, cellsets):
        i = rng.randrange(len(h) - 1)
        a, b = h[i], h[i + 1]
        pts.append(('hole-vertex', a))
        pts.append(('hole-edge-mid', ((a[0] + b[0]) // 2, (a[1] + b[1]) // 2)))
        pts.append(('hole-cell', centre(rng.choice(sorted(cells)))))
        xs = [c[0] for c in cells]; ys = [c[1] for c in cells]
        notch = [(x, y) for x in range(min(xs), max(xs) + 1) for y in range(min(ys), max(ys) + 1) if (x, y) not in allc]
        if notch:
            pts.append(('notch-cell', centre(rng.choice(notch))))
    while len(pts) < n:
        pts.append(('grid-random', (rng.randint(-3, 2 * g + 3) + o[0], rng.randint(-3, 2 * g + 3) + o[1])))
    return pts


def gen_simple_ring(rng):
    k = rng.random()
    if k < 0.35:
        r = convex_polygon(rng, rng.choice([2, 3, 6, 50, 2 ** 10, 2 ** 20]), rng.randint(2, 6))
        kind = 'convex'
    elif k < 0.65:
        r = star_polygon(rng, rng.choice([3, 8, 30, 2 ** 12, 2 ** 20]), rng.randint(3, 9))
        kind = 'star'
    else:
        r = rectilinear_polygon(rng, rng.randint(2, 6), rng.randint(2, 6), rng.randint(2, 14))
        kind = 'rectilinear'
        if r is None:
            return None, None
        s = rng.choice([1, 2, 3, 6])
        r = [(x * s, y * s) for x, y in r]
    if not ring_simple(r) or area2(r) == 0:
        return None, None
    if rng.random() < 0.5:
        r = r[::-1]
    if rng.random() < 0.5:                        # rotate the start vertex
        j = rng.randrange(len(r) - 1)
        r = r[j:-1] + r[:j] + [r[j]]
    o = (rng.randint(-40, 40), rng.randint(-40, 40)) if rng.random() < 0.7 else (rng.randint(-2 ** 22, 2 ** 22), rng.randint(-2 ** 22, 2 ** 22))
    r = [(x + o[0], y + o[1]) for x, y in r]
    if not fits(r, LIM // 8):
        return None, None
    return kind, r


def decorate_ring(rng, ring):
    """scale by 2 (edge midpoints become lattice points) and optionally insert collinear / repeated vertices (still a simple ring)"""
    r = [(2 * x, 2 * y) for x, y in ring]
    out = [r[0]]
    for a, b in zip(r, r[1:]):
        c = rng.random()
        if c < 0.15:
            out.append(((a[0] + b[0]) // 2, (a[1] + b[1]) // 2))
        elif c < 0.22:
            out.append(a)                       # repeated vertex
        out.append(b)
    return out


def ring_test_points(rng, ring, n):
    xs = [p[0] for p in ring]; ys = [p[1] for p in ring]
    pts = []
    for _ in range(n):
        c = rng.random()
        i = rng.randrange(len(ring) - 1)
        a, b = ring[i], ring[i + 1]
        if c < 0.15:
            pts.append(('vertex', a))
        elif c < 0.3:
            pts.append(('edge-mid', ((a[0] + b[0]) // 2, (a[1] + b[1]) // 2)) if (a[0] + b[0]) % 2 == 0 and (a[1] + b[1]) % 2 == 0 else ('vertex', b))
        elif c < 0.55:                           # on the horizontal line through a vertex: the ray passes through vertices / along edges
            pts.append(('vertex-y', (rng.randint(min(xs) - 2, max(xs) + 2), a[1])))
        elif c < 0.65:
            pts.append(('vertex-x', (a[0], rng.randint(min(ys) - 2, max(ys) + 2))))
        elif c < 0.75:                           # one unit off an edge midpoint
            m = ((a[0] + b[0]) // 2, (a[1] + b[1]) // 2)
            pts.append(('near-edge', (m[0] + rng.choice([-1, 0, 1]), m[1] + rng.choice([-1, 0, 1]))))
        else:
            pts.append(('random', (rng.randint(min(xs) - 1, max(xs) + 1), rng.randint(min(ys) - 1, max(ys) + 1))))
    return pts


def gen_wild_ring(rng):
    """arbitrary closed vertex sequences on a tiny grid: self-intersecting, with spikes, repeated points and horizontal runs"""
    n = rng.randint(1, 9); m = rng.choice([1, 2, 3, 4])
    r = [(rng.randint(-m, m), rng.randint(-m, m)) for _ in range(n)]
    return r + [r[0]]


def gen_polygon(rng):
    """valid polygon with holes: shell = simple ring scaled up; holes = small simple rings in disjoint cells strictly inside,
    optionally one hole touching the shell at a vertex and two holes touching each other at a vertex"""
    for _ in range(50):
        kind, shell = gen_simple_ring(rng)
        if shell is None or kind == 'rectilinear' and rng.random() < 0.3:
            continue
        S = 24
        shell = [(x * S, y * S) for x, y in shell]
        if not fits(shell, LIM // 2):
            continue
        xs = [p[0] for p in shell]; ys = [p[1] for p in shell]
        holes = []; used = []
        for _h in range(rng.randint(0, 4)):
            for _try in range(30):
                cx = rng.randint(min(xs), max(xs)); cy = rng.randint(min(ys), max(ys))
                w = rng.randint(1, 4); hh = rng.randint(1, 4)
                sh = rng.choice(['box', 'tri', 'diamond'])
                if sh == 'box':
                    h = [(cx, cy), (cx, cy + hh), (cx + w, cy + hh), (cx + w, cy), (cx, cy)]
                elif sh == 'tri':
                    h = [(cx, cy), (cx + w, cy + hh), (cx + 2 * w, cy), (cx, cy)]
                else:
                    h = [(cx, cy), (cx + w, cy + hh), (cx + 2 * w, cy), (cx + w, cy - hh), (cx, cy)]
                box = (min(p[0] for p in h) - 1, max(p[0] for p in h) + 1, min(p[1] for p in h) - 1, max(p[1] for p in h) + 1)
                if any(not (box[1] < u[0] or u[1] < box[0] or box[3] < u[2] or u[3] < box[2]) for u in used):
                    continue
                # strictly inside the shell: all four corners of the padded box interior and no shell edge meets the box
                corners = [(box[0], box[2]), (box[1], box[2]), (box[1], box[3]), (box[0], box[3])]
                if any(locate_oracle(c, shell) != 'I' for c in corners):
                    continue
                bedges = list(zip(corners, corners[1:] + corners[:1]))
                if any(seg_oracle(a, b, c, d)[0] != 'N' for a, b in zip(shell, shell[1:]) for c, d in bedges):
                    continue
                if rng.random() < 0.5:
                    h = h[::-1]
                holes.append(h); used.append(box)
                break
        return shell, holes
    return None, None


def gen_segpairs(rng, n):
    """(kind, p1, p2, q1, q2) aimed at the case split of computeIntersect"""
    out = []

    def emit(kind, p1, p2, q1, q2):
        if not fits([p1, p2, q1, q2]):
            return
        c = rng.random()
        if c < 0.25: p1, p2 = p2, p1
        elif c < 0.5: q1, q2 = q2, q1
        elif c < 0.6: p1, p2, q1, q2 = q1, q2, p1, p2
        elif c < 0.7: p1, p2, q1, q2 = q2, q1, p2, p1
        out.append((kind, p1, p2, q1, q2))
    while len(out) < n:
        r = rng.random()
        bits = rng.choice([1, 2, 3, 6, 12, 20, 23])
        M = 2 ** bits
        P = lambda: (rng.randint(-M, M), rng.randint(-M, M))
        if r < 0.12:
            emit('random-small', *[(rng.randint(-3, 3), rng.randint(-3, 3)) for _ in range(4)])
        elif r < 0.2:
            a = P(); emit('shared-endpoint', a, P(), a, P())
        elif r < 0.38:                       # collinear, all interval orders (parameters along a lattice line, ties included)
            o = P(); d = primitive_dir(rng, max(1, M // 8))
            ts = [rng.randint(-4, 4) for _ in range(4)]
            if rng.random() < 0.4:
                ts[rng.randrange(4)] = ts[rng.randrange(4)]
            pts = [(o[0] + t * d[0], o[1] + t * d[1]) for t in ts]
            emit('collinear', *pts)
        elif r < 0.46:                       # zero-length segments: on the other segment, at its end, on its line outside, off it
            a, b = P(), P()
            t = rng.choice([0, 1, 2, 3])
            g = math.gcd(abs(b[0] - a[0]), abs(b[1] - a[1]))
            if g == 0:
                c = a
            else:
                s = rng.choice([0, g, rng.randint(0, g), g + 1, -1])
                c = (a[0] + (b[0] - a[0]) // g * s, a[1] + (b[1] - a[1]) // g * s)
            if rng.random() < 0.25:
                c = (c[0] + rng.choice([0, 1]), c[1] + 1)
            emit('zero-length', a, b, c, c)
        elif r < 0.58:                       # T-junction: an endpoint of q on p (interior lattice point of p), or one unit off it
            a = P(); d = primitive_dir(rng, max(1, M // 8)); k = rng.randint(2, 6)
            b = (a[0] + k * d[0], a[1] + k * d[1]); j = rng.randint(0, k)
            c = (a[0] + j * d[0], a[1] + j * d[1])
            x, y = unit_partner(*d)
            off = rng.choice([0, 0, 0, 1, -1])
            c = (c[0] + off * x, c[1] + off * y)
            emit('t-junction' if off == 0 else 'near-touch', a, b, c, P())
        elif r < 0.75:                       # near-parallel proper crossing: directions with cross product +-1 .. small
            d = primitive_dir(rng, M); x, y = unit_partner(*d)
            m = rng.randint(1, 3); e = (m * d[0] + x, m * d[1] + y)       # cross(d, e) = 1
            o = P()
            s1, s2 = rng.randint(1, 3), rng.randint(1, 3)
            t1, t2 = rng.randint(1, 3), rng.randint(1, 3)
            emit('near-parallel', (o[0] - s1 * d[0], o[1] - s1 * d[1]), (o[0] + s2 * d[0], o[1] + s2 * d[1]),
                 (o[0] - t1 * e[0] + rng.choice([0, 0, x]), o[1] - t1 * e[1] + rng.choice([0, 0, y])), (o[0] + t2 * e[0], o[1] + t2 * e[1]))
        elif r < 0.9:
            emit('random', P(), P(), P(), P())
        else:
            C = lambda: rng.choice([LIM, -LIM, LIM - 1, -LIM + 1, rng.randint(-LIM, LIM)])
            emit('corner', (C(), C()), (C(), C()), (C(), C()), (C(), C()))
    return out


# ------------------------------------------------------------------------------------------------ line encoding
def L(tag, k, pts):
    return '%s %d %s' % (tag, k, ' '.join('%d %d' % p for p in pts))


def line_ring(k, p, ring):
    return 'R %d %d %d %d %s' % (k, p[0], p[1], len(ring), ' '.join('%d %d' % q for q in ring))


def line_poly(k, p, rings):
    return 'P %d %d %d %d %s' % (k, p[0], p[1], len(rings), ' '.join('%d %s' % (len(r), ' '.join('%d %d' % q for q in r)) for r in rings))


def scaled_hex(k, v):
    return hx(math.ldexp(float(v), k))


class Stream:
    """collects cases; each case = (line, check(impl_out, model_out) -> None | failure text, meta)"""

    def __init__(self):
        self.lines, self.checks, self.meta = [], [], []

    def add(self, line, check, **meta):
        self.lines.append(line); self.checks.append(check); self.meta.append(meta)


# ------------------------------------------------------------------------------------------------ the check
def run(ctx):
    ctx.cov['rule'] = ('grid cases on a decision boundary: triples with |det| <= 3 or on which the floating filter fails; ring / polygon '
                       'test points on the boundary or level with a vertex; segment pairs whose envelopes meet; rings for isCCW that are '
                       'simple with non-zero area; binary64 cases = one per generated input; distinct by case line')
    ctx.assumptions += [
        'grid = integers of magnitude <= 2^25 times one power of two 2^k (|k| <= 300 sampled); exactness of binary64 +,-,* on such '
        'integers is proved (C07/FloatLink.v) for the filter; the double-double path is proved only as generated-code = model executed '
        'bit for bit (tie M) and compared with the exact sign on det in {0,+-1,+-2,+-3} triples',
        'ray-crossing, envelope and segment-classification theorems are over Z (doubles read as grid integers)',
        'the proper intersection point is modelled exactly (homogeneous integers); its binary64 rounding is checked on the implementation output only',
        'isCCW = sign of the shoelace area is tested on generated simple rings, not proved (C07_isccw_partial)',
        'arbitrary finite doubles: antisymmetry of the orientation index under every swap of two arguments, symmetry of the LineIntersector '
        'class under swapping / reversing the segments and invariance of ring location under reversal are REQUIRED (C07-F2 fixed in 4bee31ef6)',
        'soundness of the floating filter on arbitrary doubles (Ozaki et al. 2016) is NOT proved: proved are the shape of the generated filter and '
        'theta <= coefficient < theta + 2^-104 (C07_filter_coeff_partial); the danger-band stream supplies triples whose double determinant has '
        'the wrong sign with |det| up to ~2.9 u |detsum|',
        'correspondence is sampled (generator quality bounds it)']
    from translator.units import BY_PROPERTY
    units = BY_PROPERTY.get('C07', [])
    ok_build = ctx.build_repo('rel')
    ctx.translate(units)
    ok_coq, ax = ctx.coq_build('Properties_C07')
    drv = ctx.ocaml_driver('C07')
    hexe = os.path.join(BUILD, 'bin', 'c07')
    if not ok_build or not ctx.cxx(os.path.join(ROOT, 'harness/c07.cpp'), hexe, 'rel'):
        return
    rng = ctx.rng
    q = ctx.quick
    st = Stream()
    dist = {}

    def bump(k, n=1):
        dist[k] = dist.get(k, 0) + n

    # replay: a single stored case line (with its expectation recomputed from the generators' oracle is not possible for a bare line:
    # the replay re-runs the line on model and implementation and prints both)
    if ctx.replay:
        import json
        obj = json.load(open(ctx.replay))
        line = obj.get('shrunk') or obj.get('case')
        if line:
            io = ctx.run_lines([hexe], [line], timeout=60)[0]
            mo = ctx.run_lines([drv], [line], timeout=60)[0] if drv else None
            ctx.log('replay case: %s\n  implementation: %s\n  model:          %s\n  recorded:       %s' % (line, io, mo, obj.get('why')))

    build_orientation(ctx, rng, st, bump, 4000 if q else 150000)
    build_rings(ctx, rng, st, bump, 600 if q else 15000)
    build_polygons(ctx, rng, st, bump, 300 if q else 8000)
    build_segments(ctx, rng, st, bump, 4000 if q else 150000)
    build_ccw(ctx, rng, st, bump, 1000 if q else 30000)
    build_env(ctx, rng, st, bump, 500 if q else 10000)
    build_float(ctx, rng, st, bump, 4000 if q else 150000)
    build_band(ctx, rng, st, bump, 30000 if q else 600000, 600 if q else 12000, 200 if q else 4000)
    corpus = os.path.join(ROOT, 'gen/corpus/C07.txt')
    ncorpus = 0
    if os.path.exists(corpus):
        for l in open(corpus):
            l = l.strip()
            if l and not l.startswith('#'):
                st.lines.insert(0, l); st.checks.insert(0, corpus_check(l)); st.meta.insert(0, dict(kind='corpus', nontrivial=True)); ncorpus += 1
    bump('corpus', ncorpus)

    impl = ctx.run_lines([hexe], st.lines, timeout=900, chunk=5000)
    model = ctx.run_lines([drv], st.lines, timeout=1500, chunk=5000) if drv else [None] * len(st.lines)
    nfail = 0
    known_seen = {}
    for i, line in enumerate(st.lines):
        io = impl[i] if i < len(impl) else 'MISSING'
        mo = model[i] if i < len(model) else None
        meta = st.meta[i]
        ctx.count(line, meta.get('nontrivial', True))
        if io.startswith('CRASH') or io in ('TIMEOUT', 'MISSING'):
            why = 'implementation %s' % io[:300]
        else:
            try:
                why = st.checks[i](io, mo)
            except Exception as ex:         # malformed output is a failure of the case, not of the check
                why = 'unparsable output (%r): impl=%r model=%r' % (ex, io[:200], (mo or '')[:200])
        if why:
            kf, pre = match_known(ctx, meta, why)
            if kf is not None:
                if pre not in known_seen:
                    known_seen[pre] = line
                ctx.known_hit(kf, '%s, e.g. `%s`' % (KNOWN_TEXT[pre][1], known_seen[pre][:400]))
                bump('known:' + pre.rstrip(':'))
                continue
            nfail += 1
            if nfail <= 6:
                shr = shrink(ctx, hexe, drv, line, st.checks[i], meta)
                shr_why = shr_io = shr_mo = None
                if shr and shr != line:              # what fails on the minimised input
                    try:
                        shr_io = ctx.run_lines([hexe], [shr], timeout=20)[0]
                        shr_mo = ctx.run_lines([drv], [shr], timeout=20)[0] if drv else None
                        shr_why = corpus_check(shr)(shr_io, shr_mo)
                    except Exception:
                        pass
                ctx.violation('case_%d' % i, dict(case=line, kind=meta.get('kind'), implementation=io, model=mo, why=why,
                                                  shrunk=shr, shrunk_implementation=shr_io, shrunk_model=shr_mo, shrunk_why=shr_why,
                                                  replay='echo "%s" | %s    # model: | %s' % (shr or line, hexe, drv)),
                              msg='%s :: %s' % (shr_why or why, (shr if shr_why else line)[:200]))
    ctx.cov['traces_validated_against_impl'] = len(st.lines)
    ctx.notes['distribution'] = dict(sorted(dist.items()))
    for l in st.lines[:2] + st.lines[len(st.lines) // 2: len(st.lines) // 2 + 2]:
        ctx.sample(l[:300])
    # self-check of the generators: every proof case must have been drawn
    need = ['orient:det=0', 'orient:det=1', 'orient:det=-1', 'orient:det=2', 'orient:filter-fails', 'orient:filter-decides',
            'ring:B', 'ring:I', 'ring:E', 'ring:pt:vertex', 'ring:pt:vertex-y', 'ring:pt:edge-mid', 'poly:B', 'poly:I', 'poly:E', 'poly:in-hole', 'poly:nested:later-hole-behind-earlier-envelope', 'poly:nested:pt:notch-cell', 'poly:nested:pt:hole-cell',
            'seg:N', 'seg:P:proper', 'seg:P:endpoint', 'seg:C', 'seg:kind:collinear', 'seg:kind:zero-length', 'seg:kind:shared-endpoint',
            'seg:kind:near-parallel', 'ccw:ccw', 'ccw:cw', 'float:orient', 'float:near-collinear', 'float:dd', 'float:intersection', 'float:wide-collinear', 'float:segments', 'float:ring', 'band:r>=2', 'band:r>=2.5', 'band:r>=1']
    for k in need:
        if dist.get(k, 0) == 0:
            ctx.broken.append(dict(kind='generator', name='distribution:' + k, detail='no case of class %s was generated' % k))


KNOWN_TEXT = {
    'KF:': ('zero-length segment lying on the other segment',
            'LineIntersector reports COLLINEAR_INTERSECTION (2 equal points) for a zero-length segment lying on the other segment'),
}


def match_known(ctx, meta, why):
    """a failure is a known finding only if its check established the finding's specific input predicate (prefix set by the check)"""
    for pre, (cls, _) in KNOWN_TEXT.items():
        if why.startswith(pre):
            return ctx.known_match(lambda k: k.get('key', {}).get('input_class') == cls), pre
    return None, None


# ------------------------------------------------------------------------------------------------ orientation
def build_orientation(ctx, rng, st, bump, n):
    for kind, a, b, c in gen_triples(rng, n):
        k = rng.choice(SCALES)
        d = det(a, b, c); s = sgn(d)
        bump('orient:det=%d' % d if abs(d) <= 3 else 'orient:det=other'); bump('orient:kind:' + kind)
        line = L('O', k, [a, b, c])

        def chk(io, mo, s=s, bump=bump):
            t = io.split()
            bump('orient:filter-fails' if t[3] == '2' else 'orient:filter-decides')
            if t[0] != str(s):
                return 'Orientation::index returned %s, exact sign of the determinant is %d' % (t[0], s)
            if t[1] != str(s):
                return 'GEOSOrientationIndex_r returned %s, exact sign is %d' % (t[1], s)
            if t[2] != str(-s) or t[4] != str(-s):
                return 'not antisymmetric: index(b,a,c) = %s, index(a,c,b) = %s, index(a,b,c) = %s' % (t[2], t[4], t[0])
            if t[3] != '2' and t[3] != str(s):
                return 'orientationIndexFilter answered %s (not FAILURE) but the exact sign is %d' % (t[3], s)
            if mo is not None and mo != str(s):
                return 'MODEL orient = %s differs from the exact sign %d' % (mo, s)
            return None
        st.add(line, chk, kind='orient', nontrivial=abs(d) <= 3)
        # the same triple through the generated binary64 units (filter + DD path), bit patterns of the scaled coordinates
        if rng.random() < 0.5:
            hl = 'OB ' + ' '.join(scaled_hex(k, v) for p in (a, b, c) for v in p)

            def chk2(io, mo, s=s):
                t = io.split()
                if t[0] != str(s):
                    return 'CGAlgorithmsDD::orientationIndex (doubles) returned %s, exact sign is %d' % (t[0], s)
                if mo is not None:
                    m = mo.split()
                    if m[0] != t[0] or m[1] != t[1]:
                        return 'generated binary64 units (orientationIndex, filter) = %s, implementation = %s %s' % (mo, t[0], t[1])
                    if m[0] != str(s):
                        return 'MODEL binary64 orientationIndex = %s differs from the exact sign %d' % (m[0], s)
                return None
            st.add(hl, chk2, kind='orient-bits', nontrivial=abs(d) <= 3)
            bump('orient:bits')


# ------------------------------------------------------------------------------------------------ rings
LOCN = {'I': 'Interior', 'B': 'Boundary', 'E': 'Exterior'}


def ring_check(p, ring, closed, bump, kind):
    exp = locate_oracle(p, ring) if closed else None

    def chk(io, mo):
        t = io.split()
        if closed:
            bump('ring:' + exp)
            for nm, v in (('PointLocation::locateInRing', t[0]), ('RayCrossingCounter::locatePointInRing(vector)', t[1])):
                if v != exp:
                    return '%s returned %s, exact location is %s' % (nm, v, exp)
            if t[2] != ('0' if exp == 'E' else '1'):
                return 'PointLocation::isInRing returned %s, exact location is %s' % (t[2], exp)
            if t[3].split(':')[0] != exp:
                return 'countSegment over all segments (no early exit) gives %s, exact location is %s' % (t[3], exp)
        if mo is not None:
            m = mo.split()
            if m[0] != t[0] or m[0] != t[1]:
                return 'MODEL locate_ring = %s, implementation = %s / %s' % (m[0], t[0], t[1])
            if closed and (m[1] != exp):
                return 'MODEL locate_spec = %s, exact location = %s' % (m[1], exp)
        return None
    return chk


def build_rings(ctx, rng, st, bump, nrings):
    made = 0
    while made < nrings:
        c = rng.random()
        if c < 0.6:
            kind, ring = gen_simple_ring(rng)
            if ring is None:
                continue
            ring = decorate_ring(rng, ring)
            if not fits(ring):
                continue
            closed = True
        elif c < 0.9:
            kind, ring, closed = 'wild', gen_wild_ring(rng), True
            ring = [(2 * x, 2 * y) for x, y in ring]
        else:                                   # unclosed sequence: tie only (the property speaks of rings)
            kind, ring, closed = 'unclosed', gen_wild_ring(rng)[:-1], False
            if len(ring) >= 2 and ring[0] == ring[-1]:
                closed = True
        made += 1
        bump('ring:kind:' + kind)
        k = rng.choice(SCALES)
        for pk, p in ring_test_points(rng, ring, 6) if len(ring) >= 2 else [('random', (0, 0))]:
            bump('ring:pt:' + pk)
            nontriv = any(v[1] == p[1] for v in ring)
            st.add(line_ring(k, p, ring), ring_check(p, ring, closed, bump, kind), kind='ring', nontrivial=nontriv, ring=ring, p=p, closed=closed)


def poly_check(p, rings, bump):
    exp = locate_polygon_oracle(p, rings)

    def chk(io, mo):
        t = io.split()
        bump('poly:' + exp)
        names = ['SimplePointInAreaLocator::locate', 'IndexedPointInAreaLocator::locate']
        for j in (0, 1):
            if t[j] != exp:
                return '%s returned %s, exact location is %s' % (names[j], t[j], exp)
        inter = '0' if exp == 'E' else '1'; cont = '1' if exp == 'I' else '0'; touch = '1' if exp == 'B' else '0'
        for nm, v, e in (('GEOSPreparedIntersectsXY_r', t[2], inter), ('GEOSPreparedContainsXY_r', t[3], cont), ('GEOSIntersects_r(polygon, point)', t[4], inter),
                         ('GEOSContains_r(polygon, point)', t[5], cont), ('GEOSPreparedIntersects_r(point)', t[6], inter),
                         ('GEOSTouches_r(polygon, point)', t[7], touch), ('GEOSRelate_r(polygon, point) location of the point', t[8], exp)):
            if v != e:
                return '%s returned %s, exact location is %s' % (nm, v, exp)
        if mo is not None:
            m = mo.split()
            if m[0] != exp or m[1] != exp or m[2] != exp:
                return 'MODEL locate_polygon / with envelopes / even-odd over all rings = %s, exact location = %s' % (mo, exp)
        return None
    return chk, exp


def build_polygons(ctx, rng, st, bump, npoly):
    import itertools
    made = 0
    while made < npoly:
        shell, holes = gen_polygon(rng)
        if shell is None:
            continue
        made += 1
        rings = [shell] + holes
        bump('poly:holes=%d' % len(holes))
        k = rng.choice(SCALES)
        pts = ring_test_points(rng, shell, 3)
        for h in holes:
            pts += ring_test_points(rng, h, 3)
            xs = [v[0] for v in h]; ys = [v[1] for v in h]
            pts.append(('in-hole-box', ((min(xs) + max(xs)) // 2, (min(ys) + max(ys)) // 2)))
        for pk, p in pts:
            chk, exp = poly_check(p, rings, bump)
            if exp == 'E' and locate_oracle(p, shell) == 'I':
                bump('poly:in-hole')
            st.add(line_poly(k, p, rings), chk, kind='poly', nontrivial=(exp == 'B' or any(v[1] == p[1] for r in rings for v in r)), rings=rings, p=p)
    # holes with overlapping / nested envelopes (concave holes with other holes in their notches), every hole order
    made = 0
    while made < max(20, npoly // 4):
        shell, holes, cellsets, go = gen_polygon_nested_holes(rng)
        if shell is None:
            continue
        made += 1
        g, o = go
        bump('poly:nested:holes=%d' % len(holes))
        k = rng.choice(SCALES)
        pts = nested_hole_points(rng, holes, cellsets, g, o, 3 * len(holes) + 3)
        orders = list(itertools.permutations(range(len(holes))))
        if len(orders) > 6:
            orders = rng.sample(orders, 6)
        for pk, p in pts:
            for od in orders:
                rings = [shell] + [holes[i] for i in od]
                chk, exp = poly_check(p, rings, bump)
                bump('poly:nested:pt:' + pk)
                if exp != 'I':
                    # position (in the ring list) of the hole that decides, and whether an EARLIER hole's envelope also contains the point
                    pos = next((j for j, h in enumerate(rings[1:]) if locate_oracle(p, h) != 'E'), None)
                    if pos is not None and any(min(v[0] for v in h) <= p[0] <= max(v[0] for v in h) and min(v[1] for v in h) <= p[1] <= max(v[1] for v in h)
                                               for h in rings[1:1 + pos]):
                        bump('poly:nested:later-hole-behind-earlier-envelope')
                st.add(line_poly(k, p, rings), chk, kind='poly', nontrivial=True, rings=rings, p=p)


# ------------------------------------------------------------------------------------------------ segments
def build_segments(ctx, rng, st, bump, n):
    for kind, p1, p2, q1, q2 in gen_segpairs(rng, n):
        k = rng.choice(SCALES)
        bump('seg:kind:' + kind)
        st.add(L('S', k, [p1, p2, q1, q2]), seg_check(p1, p2, q1, q2, k, bump), kind='seg',
               nontrivial=not (max(p1[0], p2[0]) < min(q1[0], q2[0]) or max(q1[0], q2[0]) < min(p1[0], p2[0]) or
                               max(p1[1], p2[1]) < min(q1[1], q2[1]) or max(q1[1], q2[1]) < min(p1[1], p2[1])),
               known_class='zero-length-collinear' if (p1 == p2 or q1 == q2) else None, pts=(p1, p2, q1, q2))


def seg_check(p1, p2, q1, q2, k, bump):
    exp = seg_oracle(p1, p2, q1, q2)
    sc = Fraction(2) ** k
    degenerate = p1 == p2 or q1 == q2

    def chk(io, mo):
        li, capi = io.split(' | ')
        t = li.split(); c = capi.split()
        num, proper = int(t[0]), t[1] == '1'
        bump('seg:' + exp[0] + (':proper' if exp[0] == 'P' and exp[2] else ':endpoint' if exp[0] == 'P' else ''))
        pts = [(frac_of_hex(t[2 + 2 * j]), frac_of_hex(t[3 + 2 * j])) for j in range(num)]
        if mo is not None:                       # tie: model vs implementation (label, proper flag, exact endpoint(s), order included)
            m = mo.split()
            mnum = {'N': 0, 'P': 1, 'C': 2}[m[0]]
            if mnum != num:
                return 'MODEL seg_class = %s, LineIntersector result = %d' % (mo, num)
            if m[0] == 'P':
                if (m[1] == '1') != proper:
                    return 'MODEL proper flag %s, isProper() = %s' % (m[1], proper)
                if m[1] == '0' and (Fraction(int(m[2]), int(m[4])) * sc, Fraction(int(m[3]), int(m[4])) * sc) != pts[0]:
                    return 'MODEL endpoint intersection %s, implementation %s' % (mo, pts[0])
            if m[0] == 'C' and [(int(m[1]) * sc, int(m[2]) * sc), (int(m[3]) * sc, int(m[4]) * sc)] != pts:
                return 'MODEL collinear points %s, implementation %s' % (mo, pts)
        # property, decided by the exact oracle
        if exp[0] == 'N':
            if num != 0:
                return 'segments have no common point but LineIntersector reports %d intersection point(s)' % num
            if c[0] != '-1':
                return 'segments have no common point but GEOSSegmentIntersection_r returned %s' % c[0]
            return None
        if num == 0:
            return 'segments share %s but LineIntersector reports NO_INTERSECTION' % ('a point' if exp[0] == 'P' else 'a segment')
        if c[0] != '1':
            return 'segments intersect but GEOSSegmentIntersection_r returned %s' % c[0]
        cp = (frac_of_hex(c[1]), frac_of_hex(c[2]))
        if cp != pts[0]:
            return 'GEOSSegmentIntersection_r point differs from LineIntersector intPt[0]'
        if exp[0] == 'C':
            a = (exp[1][0] * sc, exp[1][1] * sc); b = (exp[2][0] * sc, exp[2][1] * sc)
            if num != 2:
                return 'segments overlap in a segment but LineIntersector reports a single point'
            if sorted(pts) != sorted([a, b]):
                return 'collinear overlap is %s..%s but LineIntersector returned %s' % (a, b, pts)
            return None
        X, Y = exp[1][0] * sc, exp[1][1] * sc
        if num == 2:
            if degenerate and pts[0] == (X, Y) and pts[1] == (X, Y):
                return 'KF: COLLINEAR_INTERSECTION with two equal points for a zero-length input segment (common part is the single point)'
            return 'segments meet in one point but LineIntersector reports COLLINEAR_INTERSECTION %s' % pts
        if proper != exp[2]:
            return 'isProper() = %s but the common point is %s to both segments' % (proper, 'interior' if exp[2] else 'not interior')
        xi, yi = pts[0]
        if not exp[2]:
            if (xi, yi) != (X, Y):
                return 'endpoint intersection must be returned exactly: expected %s, got %s' % ((X, Y), (xi, yi))
            return None
        mag = max(abs(v) for p in (p1, p2, q1, q2) for v in p) * sc
        for a, b in ((p1, p2), (q1, q2)):
            if not (min(a[0], b[0]) * sc <= xi <= max(a[0], b[0]) * sc and min(a[1], b[1]) * sc <= yi <= max(a[1], b[1]) * sc):
                return 'proper intersection point lies outside the envelope of a segment'
        if abs(xi - X) > TOL * mag or abs(yi - Y) > TOL * mag:
            return 'proper intersection point off by (%g, %g) > 1e-14 * %g' % (float(xi - X), float(yi - Y), float(mag))
        return None
    return chk


# ------------------------------------------------------------------------------------------------ isCCW
def build_ccw(ctx, rng, st, bump, n):
    made = 0
    while made < n:
        c = rng.random()
        if c < 0.75:
            kind, ring = gen_simple_ring(rng)
            if ring is None:
                continue
            ring = decorate_ring(rng, ring)
            simple = True
        else:
            kind, ring, simple = 'wild', gen_wild_ring(rng), False
            simple = ring_simple(ring) and area2(ring) != 0
        if not fits(ring):
            continue
        made += 1
        a2 = area2(ring)
        k = rng.choice(SCALES)
        if simple:
            bump('ccw:ccw' if a2 > 0 else 'ccw:cw')
        else:
            bump('ccw:non-simple')

        def chk(io, mo, a2=a2, simple=simple):
            t = io.split()
            if t[1] != '1:' + t[0]:
                return 'GEOSCoordSeq_isCCW_r returned %s, Orientation::isCCW %s' % (t[1], t[0])
            if simple and t[0] != ('1' if a2 > 0 else '0'):
                return 'isCCW returned %s for a simple ring whose signed area (x2) is %d' % (t[0], a2)
            if mo is not None:
                m = mo.split()
                if m[0] != t[0]:
                    return 'MODEL is_ccw = %s, Orientation::isCCW = %s' % (m[0], t[0])
                if int(m[1]) != a2:
                    return 'MODEL area2 = %s, exact = %d' % (m[1], a2)
            return None
        st.add('C %d %d %s' % (k, len(ring), ' '.join('%d %d' % p for p in ring)), chk, kind='ccw', nontrivial=simple, ring=ring)


def build_env(ctx, rng, st, bump, n):
    for _ in range(n):
        m = rng.choice([1, 2, 3, 10, LIM])
        P = lambda: (rng.randint(-m, m), rng.randint(-m, m))
        p1, p2, q1, q2 = P(), P(), P(), P()
        e4 = not (max(p1[0], p2[0]) < min(q1[0], q2[0]) or max(q1[0], q2[0]) < min(p1[0], p2[0]) or
                  max(p1[1], p2[1]) < min(q1[1], q2[1]) or max(q1[1], q2[1]) < min(p1[1], p2[1]))
        e3 = min(p1[0], p2[0]) <= q1[0] <= max(p1[0], p2[0]) and min(p1[1], p2[1]) <= q1[1] <= max(p1[1], p2[1])
        exp = '%d %d' % (e4, e3)
        bump('env:' + exp.replace(' ', ''))

        def chk(io, mo, exp=exp):
            if io != exp:
                return 'Envelope::intersects static forms returned %s, exact %s' % (io, exp)
            if mo is not None and mo != exp:
                return 'MODEL env_seg/env_pt = %s, exact %s' % (mo, exp)
            return None
        st.add(L('E', rng.choice(SCALES), [p1, p2, q1, q2]), chk, kind='env', nontrivial=True)


def wide_collinear(rng, npts):
    """exactly collinear points with 53-bit integer coordinates whose differences need 54 bits (beyond double-double products)"""
    B = 2 ** 53
    while True:
        p = rng.randint(1, 2 ** 26); q = rng.randint(1, 2 ** 26)
        if math.gcd(p, q) != 1:
            continue
        umax = min((2 * B) // p, (2 * B) // q)
        ax = rng.randint(-B, -B + umax * p // 8); ay = rng.randint(-B, -B + umax * q // 8)
        pts = [(ax + t * p, ay + t * q) for t in (rng.randint(0, umax - umax // 8) for _ in range(npts))]
        if all(abs(c) <= B for pt in pts for c in pt):
            e = rng.choice([0, 0, -60, 40, -300, 250])
            return [(math.ldexp(float(x), e), math.ldexp(float(y), e)) for x, y in pts]


def fr(p):
    return (Fraction(p[0]), Fraction(p[1]))


# ------------------------------------------------------------------------------------------------ arbitrary doubles
def build_float(ctx, rng, st, bump, n):
    for i in range(n):
        c = rng.random()
        if c < 0.3:                              # orientation on arbitrary doubles; a third of them nearly collinear
            a = (rand_double(rng), rand_double(rng)); b = (rand_double(rng), rand_double(rng))
            if rng.random() < 0.5:
                e = rng.randint(-60, 60); a = (math.ldexp(rng.random() - 0.5, e), math.ldexp(rng.random() - 0.5, e))
                b = (math.ldexp(rng.random() - 0.5, e), math.ldexp(rng.random() - 0.5, e))
                t = rng.choice([0.5, 2.0, -1.0, rng.random(), rng.random() * 3 - 1])
                cpt = (a[0] + t * (b[0] - a[0]), a[1] + t * (b[1] - a[1]))
                if rng.random() < 0.5:
                    cpt = (math.nextafter(cpt[0], rng.choice([-1e300, 1e300])), cpt[1])
                bump('float:near-collinear')
            else:
                cpt = (rand_double(rng), rand_double(rng))
            if rng.random() < 0.12:
                a, b, cpt = wide_collinear(rng, 3)
                bump('float:wide-collinear')
            bump('float:orient')

            def chk(io, mo, a=a, b=b, cpt=cpt):
                t = io.split()
                if any(x.startswith('EXC') for x in t):
                    return 'exception on finite doubles: %s' % io
                if int(t[3]) != -int(t[0]) or int(t[4]) != -int(t[0]):
                    return 'orientationIndex not antisymmetric under swapping two arguments: index(a,b,c) = %s, index(b,a,c) = %s, index(a,c,b) = %s' % (t[0], t[3], t[4])
                if t[2] != t[0]:
                    return 'GEOSOrientationIndex_r = %s, CGAlgorithmsDD::orientationIndex = %s' % (t[2], t[0])
                if mo is not None and mo.split() != t[:2]:
                    return 'generated binary64 units (orientationIndex, filter) = %s, implementation = %s %s' % (mo, t[0], t[1])
                return None
            st.add('OB ' + ' '.join(hx(v) for p in (a, b, cpt) for v in p), chk, kind='float-orient', nontrivial=True)
        elif c < 0.45:                           # DD operations bit for bit
            op = rng.choice([0, 1, 2, 2, 3])
            def ddv():
                h = rand_double(rng) if rng.random() < 0.5 else math.ldexp(rng.random() - 0.5, rng.randint(-30, 30))
                l = 0.0 if rng.random() < 0.4 else math.ldexp(rng.random() - 0.5, math.frexp(h)[1] - 53 - rng.randint(0, 3)) if h != 0 else 0.0
                return h, l
            a = ddv(); b = ddv()
            if op == 3 and b[0] == 0.0:
                b = (1.5, 0.0)
            bump('float:dd')

            def chk(io, mo):
                if mo is not None and mo != io:
                    return 'generated DD unit = %s, implementation = %s' % (mo, io)
                return None
            st.add('DD %d %s %s %s %s' % (op, hx(a[0]), hx(a[1]), hx(b[0]), hx(b[1])), chk, kind='float-dd', nontrivial=True)
        elif c < 0.55:
            vals = [rand_double(rng) for _ in range(4)]
            if rng.random() < 0.5:
                vals[3] = vals[1] * vals[2] / vals[0] if vals[0] != 0 else vals[3]
            bump('float:signdet')

            def chk(io, mo):
                if io.startswith('EXC'):
                    return 'exception on finite doubles: ' + io
                if mo is not None and mo != io:
                    return 'generated signOfDet2x2 = %s, implementation = %s' % (mo, io)
                return None
            st.add('D ' + ' '.join(hx(v) for v in vals), chk, kind='float-signdet', nontrivial=True)
        elif c < 0.7:                            # DD line intersection bit for bit
            e = rng.randint(-40, 40)
            P = lambda: (math.ldexp(rng.random() - 0.5, e), math.ldexp(rng.random() - 0.5, e)) if rng.random() < 0.7 else (rand_double(rng), rand_double(rng))
            pts = [P(), P(), P(), P()]
            bump('float:intersection')

            def chk(io, mo):
                if io.startswith('EXC'):
                    return 'exception on finite doubles: ' + io
                if mo is not None and mo != io:
                    return 'generated CGAlgorithmsDD::intersection = %s, implementation = %s' % (mo, io)
                return None
            st.add('XB ' + ' '.join(hx(v) for p in pts for v in p), chk, kind='float-intersection', nontrivial=True)
        elif c < 0.88:                           # LineIntersector on arbitrary doubles: no crash, same class under swapping / reversing
            e = rng.randint(-300, 300)
            P = lambda: (math.ldexp(rng.random() - 0.5, e), math.ldexp(rng.random() - 0.5, e)) if rng.random() < 0.6 else (rand_double(rng), rand_double(rng))
            pts = [P(), P(), P(), P()]
            cc = rng.random()
            if cc < 0.2: pts[2] = pts[0]
            elif cc < 0.4:
                t = rng.random(); pts[2] = (pts[0][0] + t * (pts[1][0] - pts[0][0]), pts[0][1] + t * (pts[1][1] - pts[0][1]))
            elif cc < 0.55:
                pts = wide_collinear(rng, 4)
                bump('float:wide-collinear')
            bump('float:segments')

            def chk(io, mo, pts=pts):
                parts = io.split(' || ')
                if 'EXC' in io:
                    return 'exception on finite doubles: ' + io[:200]
                heads = [p.split(' | ')[0].split()[:2] for p in parts]
                caps = [p.split(' | ')[1].split()[0] for p in parts]
                if heads[0] != heads[1] or heads[0] != heads[2] or len(set(caps)) != 1:
                    return 'LineIntersector class / proper flag / GEOSSegmentIntersection_r result changes under swapping or reversing the segments: %s %s' % (heads, caps)
                return None
            st.add('SB ' + ' '.join(hx(v) for p in pts for v in p), chk, kind='float-seg', nontrivial=True)
        else:                                    # ring location on arbitrary doubles: no crash, same answer for the reversed ring
            e = rng.randint(-300, 300)
            nv = rng.randint(3, 8)
            ring = [(math.ldexp(rng.random() - 0.5, e), math.ldexp(rng.random() - 0.5, e)) for _ in range(nv)]
            ring.append(ring[0])
            cc = rng.random()
            p = ring[rng.randrange(nv)] if cc < 0.2 else (math.ldexp(rng.random() - 0.5, e), ring[rng.randrange(nv)][1]) if cc < 0.5 else \
                (math.ldexp(rng.random() - 0.5, e), math.ldexp(rng.random() - 0.5, e))
            if rng.random() < 0.15:
                w3 = wide_collinear(rng, 3)
                e2 = math.frexp(w3[0][0])[1]
                ring = [w3[0], w3[1], (math.ldexp(rng.random() - 0.5, e2), math.ldexp(rng.random() - 0.5, e2)), w3[0]]
                p = w3[2]
                bump('float:wide-collinear')
            bump('float:ring')

            def chk(io, mo, ring=ring, p=p):
                if 'EXC' in io:
                    return 'exception on finite doubles: ' + io[:200]
                f, r = io.split(' | ')
                if f.split()[:3] != r.split()[:3]:
                    return 'ring location changes when the ring is reversed: %s vs %s' % (f, r)
                return None
            st.add('RB %s %s %d %s' % (hx(p[0]), hx(p[1]), len(ring), ' '.join('%s %s' % (hx(x), hx(y)) for x, y in ring)), chk, kind='float-ring', nontrivial=True)


# ------------------------------------------------------------------------------------------------ filter danger band
def gen_band_triple(rng):
    """a triple of binary64 points built so that the rounding errors of the filter's double determinant
         det = (ax-cx)(by-cy) - (ay-cy)(bx-cx)
    add up in ONE direction while the exact determinant is tiny: c has half-integer ordinates, a and b integer ordinates of
    magnitude 2^52..2^53, so each of the four differences is (integer + 1/2) and rounds by half an ulp in a direction chosen by
    the parity of the integer; the products then round by up to half an ulp more. A = ax-cx, C = ay-cy near 2^52 (relative
    rounding error ~u), B = by-cy anywhere in the binade, E = bx-cx ~ AB/C. Returns float points (a, b, c)."""
    P = 2 ** 52
    up = rng.choice([0, 1])

    def near1(par):
        N = P + rng.randrange(2 ** 26, 2 ** rng.choice([30, 34, 38, 44, 48]))
        return N + 1 if N % 2 != par else N

    def anym(par):
        N = rng.randrange(P, 2 * P - 4)
        return N + 1 if N % 2 != par else N
    NA = near1(up); NB = anym(up) if rng.random() < 0.8 else near1(up)
    A2 = 2 * NA + 1; B2 = 2 * NB + 1
    best = None
    for _ in range(8):
        NC = near1(1 - up); C2 = 2 * NC + 1
        E2 = (A2 * B2) // C2
        NE = (E2 - 1) // 2 if E2 % 2 else E2 // 2
        if NE % 2 != (1 - up):
            NE += rng.choice([1, -1])
        D = abs(A2 * B2 - C2 * (2 * NE + 1))
        if best is None or D < best[0]:
            best = (D, NC, NE)
    _, NC, NE = best
    kx = rng.randrange(-2 ** 20, 2 ** 20); ky = rng.randrange(-2 ** 20, 2 ** 20)
    a = (NA + kx + 1, NC + ky + 1); b = (NE + kx + 1, NB + ky + 1)
    if any(not (P <= abs(v) < 2 * P) for q in (a, b) for v in q):
        return None
    return (float(a[0]), float(a[1])), (float(b[0]), float(b[1])), (kx + 0.5, ky + 0.5)


PERM6 = [((0, 1, 2), 1), ((0, 2, 1), -1), ((1, 0, 2), -1), ((1, 2, 0), 1), ((2, 0, 1), 1), ((2, 1, 0), -1)]


def build_band(ctx, rng, st, bump, ncand, keep_hi, keep_lo):
    """triples on which the DOUBLE determinant has the wrong sign (or is non-zero for an exactly collinear triple), ranked by
    r = |det| / (u |detleft + detright|): the closer r comes to the filter's coefficient (about 3u) the closer the filter is to
    accepting a wrong sign. Kept: the highest r first. Each triple goes through all six argument orders."""
    U = 2.0 ** -53
    cands = []
    for _ in range(ncand):
        t = gen_band_triple(rng)
        if t is None:
            continue
        a, b, c = t
        dl = (a[0] - c[0]) * (b[1] - c[1]); dr = (a[1] - c[1]) * (b[0] - c[0])
        d = dl - dr; sm = dl + dr
        if sm == 0 or d == 0:
            continue
        F = Fraction
        D = (F(a[0]) - F(c[0])) * (F(b[1]) - F(c[1])) - (F(a[1]) - F(c[1])) * (F(b[0]) - F(c[0]))
        if D != 0 and (d > 0) == (D > 0):
            continue                              # the double determinant has the right sign: not a danger case
        cands.append((abs(d) / (U * abs(sm)), a, b, c, sgn(D)))
    bump('band:candidates', ncand); bump('band:naive-sign-wrong', len(cands))
    cands.sort(key=lambda x: -x[0])
    hi = [x for x in cands if x[0] >= 2.0][:keep_hi]
    lo = [x for x in cands if x[0] < 2.0]
    rng.shuffle(lo)
    for r, a, b, c, sD in hi + lo[:keep_lo]:
        bump('band:r>=2.5' if r >= 2.5 else 'band:r>=2' if r >= 2.0 else 'band:r>=1' if r >= 1.0 else 'band:r<1')
        if r >= 2.0:
            bump('band:r>=2(all)')
        # exact symmetries of the construction: scaling by a power of two, reflections, exchanging the axes
        k = rng.choice([0, 0, -60, 37, -300, 200, -52, 1])
        fx = rng.choice([1, -1]); fy = rng.choice([1, -1]); sw = rng.random() < 0.3
        T = lambda q: (lambda x, y: (y, x) if sw else (x, y))(math.ldexp(fx * q[0], k), math.ldexp(fy * q[1], k))
        pts = [T(a), T(b), T(c)]
        line = 'OP ' + ' '.join(hx(v) for q in pts for v in q)

        def chk(io, mo, r=r):
            t = io.split()
            if 'EXC' in io or len(t) != 6:
                return 'exception on finite doubles: %s' % io
            idx = [int(x.split(':')[0]) for x in t]
            if any(idx[i] != sg * idx[0] for i, (_, sg) in enumerate(PERM6)):
                return ('orientation index not antisymmetric over the six argument orders abc acb bac bca cab cba: %s '
                        '(index:filter; the double determinant of the first order has the wrong sign with |det| = %.3f u |detleft+detright|)' % (io, r))
            if mo is not None and mo != io:
                return 'generated binary64 units (orientationIndex:filter, six orders) = %s, implementation = %s' % (mo, io)
            return None
        st.add(line, chk, kind='band', nontrivial=True)


# ------------------------------------------------------------------------------------------------ corpus / shrinking
def corpus_check(line):
    """a stored case line: rebuild its check from the line itself"""
    w = line.split()
    tag = w[0]
    nop = lambda *a: None
    ints = lambda xs: [int(x) for x in xs]
    pairs = lambda xs: [(xs[i], xs[i + 1]) for i in range(0, len(xs), 2)]
    if tag == 'S':
        k = int(w[1]); p = pairs(ints(w[2:10]))
        return seg_check(p[0], p[1], p[2], p[3], k, nop)
    if tag == 'R':
        p = (int(w[2]), int(w[3])); n = int(w[4]); ring = pairs(ints(w[5:5 + 2 * n]))
        return ring_check(p, ring, len(ring) >= 2 and ring[0] == ring[-1], nop, 'corpus')
    if tag == 'P':
        p = (int(w[2]), int(w[3])); nr = int(w[4]); pos = 5; rings = []
        for _ in range(nr):
            n = int(w[pos]); rings.append(pairs(ints(w[pos + 1:pos + 1 + 2 * n]))); pos += 1 + 2 * n
        return poly_check(p, rings, nop)[0]
    if tag == 'O':
        a, b, c = pairs(ints(w[2:8])); s = sgn(det(a, b, c))

        def chk(io, mo):
            t = io.split()
            if t[0] != str(s) or t[1] != str(s) or t[2] != str(-s) or t[4] != str(-s):
                return 'orientation %s, exact sign %d' % (io, s)
            return None
        return chk
    if tag == 'OP':

        def chk(io, mo):
            t = io.split()
            if 'EXC' in io or len(t) != 6:
                return 'exception on finite doubles: %s' % io
            idx = [int(x.split(':')[0]) for x in t]
            if any(idx[i] != sg * idx[0] for i, (_, sg) in enumerate(PERM6)):
                return 'orientation index not antisymmetric over the six argument orders abc acb bac bca cab cba: %s (index:filter)' % io
            if mo is not None and mo != io:
                return 'generated binary64 units (orientationIndex:filter, six orders) = %s, implementation = %s' % (mo, io)
            return None
        return chk
    if tag == 'OB':                      # arbitrary doubles: antisymmetry under both swaps, model = implementation

        def chk(io, mo):
            t = io.split()
            if any(x.startswith('EXC') for x in t):
                return 'exception on finite doubles: %s' % io
            if int(t[3]) != -int(t[0]) or int(t[4]) != -int(t[0]):
                return 'orientationIndex not antisymmetric under swapping two arguments: index(a,b,c) = %s, index(b,a,c) = %s, index(a,c,b) = %s' % (t[0], t[3], t[4])
            if mo is not None and mo.split() != t[:2]:
                return 'generated binary64 units (orientationIndex, filter) = %s, implementation = %s %s' % (mo, t[0], t[1])
            return None
        return chk
    return nop


def shrink(ctx, hexe, drv, line, check, meta):
    """grid cases: drop the scale, halve / translate coordinates, delete ring vertices, while the same check still fails"""
    try:
        w = line.split()
        tag = w[0]
        if tag == 'P':
            return shrink_poly(ctx, hexe, drv, w)
        if tag not in ('O', 'S', 'R', 'E', 'C'):
            return None

        def fails(l):
            ck = corpus_check(l)
            io = ctx.run_lines([hexe], [l], timeout=20)[0]
            mo = ctx.run_lines([drv], [l], timeout=20)[0] if drv else None
            if io.startswith('CRASH') or io == 'TIMEOUT':
                return True
            try:
                r = ck(io, mo)
                return bool(r) and not r.startswith('KF')      # a known-finding input is not a reproduction of THIS failure
            except Exception:
                return False
        if tag in ('E', 'C') or not fails(line):
            return None
        cur = w
        budget = 120
        if cur[1] != '0':
            cand = cur[:1] + ['0'] + cur[2:]
            if fails(' '.join(cand)):
                cur = cand
        lo = 2
        hi = len(cur)
        if tag == 'R':
            # vertex deletion
            changed = True
            while changed and budget > 0:
                changed = False
                n = int(cur[4])
                for j in range(n):
                    if n <= 2 or budget <= 0:
                        break
                    budget -= 1
                    cand = cur[:4] + [str(n - 1)] + cur[5:5 + 2 * j] + cur[7 + 2 * j:]
                    if j == 0 or j == n - 1:
                        continue
                    if fails(' '.join(cand)):
                        cur = cand; changed = True
                        break
            coords = [2, 3] + list(range(5, len(cur)))
        else:
            coords = list(range(2, len(cur)))
        # translate towards the origin, then halve
        for step in range(40):
            if budget <= 0:
                break
            budget -= 1
            vals = [int(cur[i]) for i in coords]
            xs = vals[0::2]; ys = vals[1::2]
            mx, my = min(xs, key=abs), min(ys, key=abs)
            cand = list(cur)
            for j, i in enumerate(coords):
                cand[i] = str(int(cur[i]) - (mx if j % 2 == 0 else my))
            if cand != cur and fails(' '.join(cand)):
                cur = cand
                continue
            cand = list(cur)
            for i in coords:
                cand[i] = str(int(int(cur[i]) / 2))
            if cand != cur and fails(' '.join(cand)):
                cur = cand
                continue
            break
        return ' '.join(cur)
    except Exception:
        return None


def shrink_poly(ctx, hexe, drv, w):
    """polygon cases: drop the scale, delete holes one at a time, translate to the origin, while the same kind of check still fails"""
    def parse(w):
        k = int(w[1]); p = (int(w[2]), int(w[3])); nr = int(w[4]); pos = 5; rings = []
        for _ in range(nr):
            n = int(w[pos]); v = [int(x) for x in w[pos + 1:pos + 1 + 2 * n]]
            rings.append([(v[i], v[i + 1]) for i in range(0, len(v), 2)]); pos += 1 + 2 * n
        return k, p, rings

    def fails(k, p, rings):
        l = line_poly(k, p, rings)
        io = ctx.run_lines([hexe], [l], timeout=20)[0]
        mo = ctx.run_lines([drv], [l], timeout=20)[0] if drv else None
        if io.startswith('CRASH') or io == 'TIMEOUT':
            return True
        try:
            return bool(poly_check(p, rings, lambda *a: None)[0](io, mo))
        except Exception:
            return False
    k, p, rings = parse(w)
    if not fails(k, p, rings):
        return None
    if k != 0 and fails(0, p, rings):
        k = 0
    changed = True
    while changed:
        changed = False
        for j in range(1, len(rings)):
            cand = rings[:j] + rings[j + 1:]
            if fails(k, p, cand):
                rings = cand; changed = True
                break
    ox = min(v[0] for r in rings for v in r); oy = min(v[1] for r in rings for v in r)
    cand = [[(x - ox, y - oy) for x, y in r] for r in rings]; cp = (p[0] - ox, p[1] - oy)
    if fails(k, cp, cand):
        rings, p = cand, cp
    return line_poly(k, p, rings)
