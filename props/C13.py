"""C13 — reentrant API: threads with their own contexts and objects do not interfere.

proof:   coq/theories/C13/*.v, Properties_C13.v : interleaving model (accesses read/write x atomic/plain x lock; race; schedules);
         race_free_if_inventory_ok, noninterference (every thread's transcript = its sequential transcript, for every schedule),
         and `inventory_ok` decided by computation on the GENERATED inventory of writable static-storage objects.
tie G:   coq/theories/Gen/C13_Inventory.v is regenerated on every run from `readelf/nm` on the built libgeos.so / libgeos_c.so
         (.data/.bss/.tbss objects) cross-checked with a scan of the source (declaration, atomic / thread_local / mutex, writers,
         which writers are reachable from GEOS*_r entry points through the call graph of props/C14.py).
tie run: harness/c13.cpp under ThreadSanitizer: 2..16 threads, own contexts, generated programs of reentrant calls on private data and
         on shared immutable geometries (and pre-built shared STRtree / prepared geometry), contexts created and destroyed while other
         threads run; every TSan report is attributed to a symbol; per-thread transcripts are compared with a sequential run.
"""
import hashlib, json, os, re, subprocess, time
from concurrent.futures import ThreadPoolExecutor
from vlib.core import ROOT, BUILD, REPO, COQ, NPROC, sh
from props import C14 as scan        # the C++ reader and call graph (same author, read-only reuse)

RUNTIME_SYMS = re.compile(r'^(std::__ioinit|completed\.\d+|__dso_handle|DW\.ref\..*|__TMC_END__|_edata|__bss_start|_end|object\.\d+|dtor_idx\.\d+|'
                          r'__frame_dummy_init_array_entry|__do_global_dtors_aux_fini_array_entry|__data_start|data_start|_IO_stdin_used|__JCR_END__)$')
CONST_METHODS = set('size empty begin end cbegin cend find count at get c_str data front back length what str getX getY isNull equals2D'.split())


# ===================================================================== symbols of the built libraries
def lib_cells(libpath):
    """objects (OBJECT / TLS symbols) living in writable data sections of a shared library"""
    rc, out = sh(['readelf', '-S', '-W', libpath], timeout=120)
    secs = {}
    for m in re.finditer(r'^\s*\[\s*(\d+)\]\s+(\S+)\s+(\S+)\s+([0-9a-f]+)\s+([0-9a-f]+)\s+([0-9a-f]+)\s+\S+\s+(\S*)', out, re.M):
        secs[int(m.group(1))] = (m.group(2), m.group(7))
    rc, out = sh(['readelf', '-s', '-W', libpath], timeout=120)
    syms = {}
    for ln in out.split('\n'):
        f = ln.split()
        if len(f) < 8 or not f[0].rstrip(':').isdigit(): continue
        typ, ndx, name = f[3], f[6], f[7]
        if typ not in ('OBJECT', 'TLS') or not ndx.isdigit(): continue
        sec, flags = secs.get(int(ndx), ('?', ''))
        if sec not in ('.data', '.bss', '.tdata', '.tbss'): continue
        name = name.split('@')[0]
        try: size = int(f[2], 0)
        except ValueError: size = 0
        syms[name] = dict(mangled=name, size=size, section=sec, tls=(typ == 'TLS'))
    if not syms: return []
    names = sorted(syms)
    p = subprocess.run(['c++filt'], input='\n'.join(names) + '\n', capture_output=True, text=True)
    dem = p.stdout.split('\n')
    res = []
    for n, d in zip(names, dem):
        s = syms[n]; s['sym'] = d.strip() or n; res.append(s)
    return res


def split_scopes(name):
    """'a::b(c::d)::e' -> ['a', 'b(c::d)', 'e'] (no split inside parentheses / angle brackets)"""
    out = []; d = 0; cur = ''
    i = 0
    while i < len(name):
        c = name[i]
        if c in '(<': d += 1
        elif c in ')>': d -= 1
        if d == 0 and name.startswith('::', i):
            out.append(cur); cur = ''; i += 2; continue
        cur += c; i += 1
    out.append(cur)
    return out


# ===================================================================== source side
class Source:
    def __init__(self, repo):
        self.inv = scan.build_inventory(repo)
        self.funcs = self.inv['funcs']
        proc = [f['id'] for f in self.funcs if f['name'] == 'process' and f['cls'] == 'Interrupt']
        for f in self.funcs:
            if f['polls'] and proc: self.inv['edges'][f['id']] = set(self.inv['edges'][f['id']]) | set(proc)      # GEOS_CHECK_FOR_INTERRUPTS()
        dtors = {}
        for f in self.funcs:
            if f['name'].startswith('~') and f['cls']: dtors.setdefault(f['cls'], []).append(f['id'])
        for f in self.funcs:                                  # an object of class X mentioned in a function may be destroyed there
            extra = [i for idn in f['idents'] if idn in dtors for i in dtors[idn]]
            if extra: self.inv['edges'][f['id']] = set(self.inv['edges'][f['id']]) | set(extra)
        ents = [e for e in self.inv['entries'] if re.match(r'(GEOS\w*_r|initGEOS_r|finishGEOS_r)$', e['name'])]
        self.reentrant_reach = self.inv['closure']([e['fid'] for e in ents], self.inv['edges'])
        self.byfile = {}
        for f in self.funcs: self.byfile.setdefault(f['file'], []).append(f)
        self.repo = repo
        self._cls_mut = {}

    def fname(self, f): return (f['cls'] + '::' if f['cls'] else '') + f['name']

    def stmt_at(self, T, j, lo, hi):
        a = j
        while a > lo and T[a - 1][0] not in (';', '{', '}'): a -= 1
        b = j
        while b < hi and T[b][0] != ';': b += 1
        return a, b

    def find_local_static(self, fname, cls, var):
        for f in self.funcs:
            if f['name'] != fname or (cls and f['cls'] and f['cls'] != cls): continue
            T = f['T']; a, b = f['body']
            for j in range(a, b):
                if T[j][0] == 'static':
                    k = j
                    while k < b and T[k][0] != ';' and k < j + 60:
                        if T[k][0] == var and T[k + 1][0] in (';', '=', '(', '{', '['):
                            return dict(func=f, idx=k, decl=' '.join(t for t, _ in T[j:k + 1]), where='%s:%d' % (f['file'], T[k][1]), toks=[t for t, _ in T[j:k]])
                        k += 1
        return None

    def find_ns_decl(self, owner, var, anon, namespaces=(), lib=None):
        best = None
        for file, fl in self.byfile.items():
            if lib == 'libgeos.so' and file.startswith('capi/'): continue
            if lib == 'libgeos_c.so' and not file.startswith('capi/'): continue
            T = fl[0]['T']; n = len(T)
            inside = [False] * n
            for f in fl:
                a, b = f['body']
                for j in range(a, b): inside[j] = True
            for j in range(1, n - 1):
                if inside[j] or T[j][0] != var or T[j + 1][0] not in (';', '=', '(', '{', '['): continue
                if T[j - 1][0] in ('.', '->', ',', '(', 'return', 'case', 'goto', 'namespace', 'class', 'struct', 'enum', 'using'): continue
                if not (re.match(r'[A-Za-z_]\w*$', T[j - 1][0]) or T[j - 1][0] in ('::', '*', '&', '>', ']')): continue
                a, b = self.stmt_at(T, j, 0, n)
                head = [t for t, _ in T[a:j]]
                if not head or head[0] in ('extern', 'typedef', 'using', 'friend', 'return', 'template', 'namespace') or 'operator' in head: continue
                if head.count('(') != head.count(')'): continue          # a parameter
                if T[j + 1][0] == '(' and owner not in head:
                    # `T name(args);` at class/namespace scope is almost always a function declaration
                    continue
                qualified = len(head) >= 2 and head[-1] == '::' and head[-2] == owner
                score = (4 if qualified else 0) + (1 if file.endswith('.cpp') else 0) + 2 * sum(1 for ns in namespaces if '/' + ns + '/' in '/' + file)
                if qualified: head = head[:-2]
                cand = dict(func=None, idx=j, decl=' '.join(head + [var]), where='%s:%d' % (file, T[j][1]), toks=head, file=file, score=score)
                if best is None or cand['score'] > best['score']: best = cand
        return best

    def extern_declared(self, var):
        if not hasattr(self, '_ext'):
            self._ext = set()
            for top in ('include', 'capi', 'src'):
                for dp, dn, fn in os.walk(os.path.join(self.repo, top)):
                    for f in fn:
                        if f.endswith(('.h', '.h.in', '.hpp')):
                            for m in re.finditer(r'\bextern\b[^;(]*?\b([A-Za-z_]\w*)\s*(?:\[[^\]]*\])?\s*;', open(os.path.join(dp, f), errors='replace').read()):
                                self._ext.add(m.group(1))
        return var in self._ext

    def class_mutables(self, cls):
        """mutable data members of class `cls`: [(field, decl text, file:line, has_mutex_member)]"""
        if cls in self._cls_mut: return self._cls_mut[cls]
        res = []
        for dp, dn, fn in os.walk(os.path.join(self.repo, 'include')):
            for f in fn:
                if f == cls + '.h':
                    txt = scan.strip_source(open(os.path.join(dp, f), errors='replace').read())
                    has_mutex = bool(re.search(r'\bstd\s*::\s*mutex\b', txt))
                    for m in re.finditer(r'\bmutable\b([^;{}()]*?)\b([A-Za-z_]\w*)\s*(?:=[^;]*)?;', txt):
                        line = txt.count('\n', 0, m.start()) + 1
                        res.append((m.group(2), ('mutable' + m.group(1) + m.group(2)).strip(), '%s:%d' % (os.path.relpath(os.path.join(dp, f), self.repo), line), has_mutex))
        self._cls_mut[cls] = res
        return res

    def writes(self, var, eligible, skip=None, is_object=True):
        """functions whose body contains a write pattern on identifier `var` -> {func id: [pattern, ...]}; `escapes` separately"""
        W = {}; esc = set()
        for f in self.funcs:
            if not eligible(f): continue
            T = f['T']; a, b = f['body']
            if not (skip and skip[0] == f['id']):
                # the name is shadowed by a parameter or a local of this function
                h = a - 1
                while h > 0 and T[h - 1][0] not in (';', '}') and a - h < 200: h -= 1
                if any(T[x][0] == var for x in range(h, a)): continue
                if any(T[x][0] == var and T[x + 1][0] in (';', '=', '(', '{', ',') and re.match(r'[A-Za-z_]\w*$|[*&>]$', T[x - 1][0]) and T[x - 1][0] not in scan.KEYWORDS | {'return'}
                       and T[x - 2][0] not in ('.', '->') for x in range(a + 2, b - 1)): continue
            for j in range(a, b):
                if T[j][0] != var: continue
                if skip and skip == (f['id'], j): continue
                prev = T[j - 1][0] if j > a else ''
                if prev in ('.', '->'): continue
                q = j + 1
                if q < b and T[q][0] == '[':
                    d = 0
                    while q < b:
                        if T[q][0] == '[': d += 1
                        elif T[q][0] == ']':
                            d -= 1
                            if d == 0: q += 1; break
                        q += 1
                pat = None
                t1 = T[q][0] if q < b else ''; t2 = T[q + 1][0] if q + 1 < b else ''; t3 = T[q + 2][0] if q + 2 < b else ''
                if t1 == '=' and t2 != '=' and prev not in ('=', '!', '<', '>'): pat = 'assign'
                elif t1 in '+-*/%&|^' and t1 and t2 == '=': pat = 'compound-assign'
                elif (t1, t2) in (('+', '+'), ('-', '-')): pat = 'post-incdec'
                elif j - 2 >= a and (T[j - 2][0], T[j - 1][0]) in (('+', '+'), ('-', '-')): pat = 'pre-incdec'
                elif is_object and t1 in ('.', '->') and re.match(r'[A-Za-z_]\w*$', t2 or ''):
                    if t3 == '(' and t2 not in CONST_METHODS: pat = 'calls .%s()' % t2
                    elif t3 == '=' and (T[q + 3][0] if q + 3 < b else '') != '=': pat = 'assign .%s' % t2
                if pat is None and prev == '(' and j - 2 >= a and T[j - 2][0] in ('snprintf', 'sprintf', 'strcpy', 'strncpy', 'memcpy', 'memset', 'strcat', 'vsnprintf'): pat = 'written by %s()' % T[j - 2][0]
                if prev == '&' and (j - 2 < a or T[j - 2][0] in scan.KEYWORDS or not re.match(r'[A-Za-z_0-9\)\]]', T[j - 2][0][-1:])): esc.add(f['id'])
                if prev == 'return': esc.add(f['id'])
                if pat: W.setdefault(f['id'], []).append(pat)
        return W, esc


def classify(cells, src):
    rows = []
    classes = set()
    for f in src.funcs:
        if f['cls']: classes.add(f['cls'])
    for c in cells:
        name = c['sym']
        row = dict(sym=name, lib=c['lib'], section=c['section'], size=c['size'], kind='KObject', decl='', where='', atomic=False, tls=c['tls'] or c['section'] in ('.tbss', '.tdata'),
                   mutex=False, stateless=False, writers=[], writers_reachable=[], notes=[])
        rows.append(row)
        if name.startswith('guard variable for '):
            row['kind'] = 'KGuard'; continue
        if RUNTIME_SYMS.match(name):
            row['kind'] = 'KRuntime'; continue
        parts = split_scopes(name)
        var = parts[-1]
        if not re.match(r'[A-Za-z_]\w*$', var):
            continue
        d = None; eligible = None; skip = None
        if len(parts) >= 2 and parts[-2].rstrip().endswith((')', ') const')) and not parts[-2].startswith('('):
            fq = parts[-2]; fname = fq[:fq.index('(')]
            cls = parts[-3] if len(parts) >= 3 and parts[-3][:1].isupper() else None
            d = src.find_local_static(fname, cls, var)
            if d:
                fid = d['func']['id']; eligible = lambda f, fid=fid: f['id'] == fid; skip = (fid, d['idx'])
        else:
            owner = parts[-2] if len(parts) >= 2 else ''
            anon = '(anonymous namespace)' in parts
            d = src.find_ns_decl(owner, var, anon, [p for p in parts[:-1] if re.match(r'[a-z_]\w*$', p)], c['lib'])
            if not d and owner and any(f['name'] == owner and f['cls'] is None for f in src.funcs):
                d = src.find_local_static(owner, None, var)          # static local of an extern "C" function: demangled as func::var
                if d:
                    fid = d['func']['id']; eligible = lambda f, fid=fid: f['id'] == fid; skip = (fid, d['idx'])
            elif d:
                if anon or 'static' in d['toks'] or (d['file'].endswith('.cpp') and not src.extern_declared(var)):
                    eligible = lambda f, file=d['file']: f['file'] == file
                elif owner[:1].isupper():
                    eligible = lambda f, owner=owner: f['cls'] == owner
                else:
                    eligible = lambda f: True
        if not d:
            row['notes'].append('declaration not found in the source'); continue
        row['decl'] = d['decl']; row['where'] = d['where']
        toks = d['toks']
        row['atomic'] = any('atomic' in t for t in toks)
        row['tls'] = row['tls'] or 'thread_local' in toks
        tcls = next((t for t in toks if t in classes), None)
        W, esc = src.writes(var, eligible, skip, is_object=bool(tcls) and '*' not in toks)
        row['stateless'] = bool(tcls) and c['size'] <= 8 and '*' not in toks and not row['atomic']
        STD_MUTATED = {'mt19937', 'mt19937_64', 'default_random_engine', 'minstd_rand', 'minstd_rand0', 'ranlux24', 'ranlux48', 'knuth_b', 'vector', 'map', 'unordered_map',
                       'set', 'unordered_set', 'string', 'deque', 'list', 'stringstream', 'ostringstream', 'istringstream'}
        if esc and 'const' not in toks and not row['atomic'] and any(t in STD_MUTATED for t in toks):
            # handed out by (non-const) address / reference: every caller draws from / stores into it
            for i in esc: W.setdefault(i, []).append('hands out a non-const reference')
        row['writers'] = sorted('%s [%s]' % (src.fname(src.funcs[i]), ','.join(sorted(set(p)))) for i, p in W.items())
        row['writers_reachable'] = sorted(src.fname(src.funcs[i]) for i in W if i in src.reentrant_reach)
        # a shared singleton handed out by address: its `mutable` members can be written through a pointer-to-const
        if tcls and esc and not row['stateless']:
            row['notes'].append('address escapes from %s' % ', '.join(sorted(src.fname(src.funcs[i]) for i in esc)))
            for fld, fdecl, fwhere, has_mutex in src.class_mutables(tcls):
                FW, _ = src.writes(fld, lambda f, tcls=tcls: f['cls'] == tcls)
                locked = bool(FW) and has_mutex and all(any(t[0] in ('lock_guard', 'unique_lock', 'scoped_lock') for t in src.funcs[i]['T'][src.funcs[i]['body'][0]:src.funcs[i]['body'][1]]) for i in FW)
                rows.append(dict(sym=name + '.' + fld, lib=c['lib'], section=c['section'], size=0, kind='KObject', decl=fdecl, where=fwhere, atomic='atomic' in fdecl, tls=False,
                                 mutex=locked, stateless=False, writers=sorted('%s [%s]' % (src.fname(src.funcs[i]), ','.join(sorted(set(p)))) for i, p in FW.items()),
                                 writers_reachable=sorted(src.fname(src.funcs[i]) for i in FW if i in src.reentrant_reach), notes=['mutable member of the shared %s' % tcls]))
    return rows


def py_cell_ok(r):
    if r['kind'] in ('KGuard', 'KRuntime'): return True
    return bool(r['decl']) and (r['atomic'] or r['tls'] or r['mutex'] or r['stateless'] or not r['writers_reachable'])


def source_statics(src):
    """cross-check in the other direction: function-local statics and their names, from the source"""
    out = []
    for f in src.funcs:
        T = f['T']; a, b = f['body']
        for j in range(a, b):
            if T[j][0] == 'static' and (j == a or T[j - 1][0] in (';', '{', '}')):
                k = j + 1; toks = []
                while k < b and T[k][0] not in (';', '=', '(', '{', '[') and k < j + 40:
                    toks.append(T[k][0]); k += 1
                if toks and re.match(r'[A-Za-z_]\w*$', toks[-1]) and toks[-1] not in scan.KEYWORDS:
                    out.append(dict(func=src.fname(f), var=toks[-1], const=('const' in toks or 'constexpr' in toks), where='%s:%d' % (f['file'], T[j][1])))
    return out


def coq_str(x): return '"%s"' % x.replace('"', '""')


def write_inventory_v(rows, exempt, path, meta):
    L = ['(* GENERATED by props/C13.py from the built libraries (readelf) and the source of the library tree on every run -- do not edit, not committed.',
         '   %s *)' % meta, 'From Coq Require Import List String ZArith Bool.', 'From GeosV.C13 Require Import CellDefs.', 'Import ListNotations.',
         'Local Open Scope string_scope.', 'Local Open Scope Z_scope.', 'Definition inventory : list cell_rec := [']
    b = lambda x: 'true' if x else 'false'
    L.append(';\n'.join('  mkCell %s %s %s %d %s %s %s %s %s %s %s [%s] [%s]' % (
        coq_str(r['sym']), coq_str(r['lib']), coq_str(r['section']), r['size'], r['kind'], coq_str(r['decl']), coq_str(r['where']), b(r['atomic']), b(r['tls']), b(r['mutex']),
        b(r['stateless']), '; '.join(coq_str(w) for w in r['writers']), '; '.join(coq_str(w) for w in r['writers_reachable'])) for r in rows) + '].')
    L.append('(* cells exempted because known_findings.json lists them with status "known" *)')
    L.append('Definition exempt_keys : list string := [%s].' % '; '.join(coq_str(k) for k in exempt))
    txt = '\n'.join(L) + '\n'
    os.makedirs(os.path.dirname(path), exist_ok=True)
    if not os.path.exists(path) or open(path).read() != txt:
        open(path, 'w').write(txt)
    return hashlib.sha256(txt.encode()).hexdigest()


def build_cells(libdir, repo):
    src = Source(repo)
    cells = []
    for lib in ('libgeos.so', 'libgeos_c.so'):
        for c in lib_cells(os.path.join(libdir, lib)):
            c['lib'] = lib; cells.append(c)
    cells.sort(key=lambda c: (c['lib'], c['sym']))
    rows = classify(cells, src)
    return rows, src


# ===================================================================== programs
UV = ['area', 'length', 'isvalid', 'issimple', 'isempty', 'npts', 'wkbhash', 'ngeoms', 'validreason', 'minclear', 'extent', 'xmin', 'cdim', 'hasz']
UG = ['buffer', 'hull', 'centroid', 'envelope', 'boundary', 'pos', 'makevalid', 'uunion', 'simplify', 'tpsimplify', 'delaunay', 'node', 'polygonize', 'linemerge',
      'normalize', 'reverse', 'mic', 'minrect', 'offset', 'densify']
BV = ['intersects', 'contains', 'touches', 'within', 'covers', 'equals', 'disjoint', 'overlaps', 'crosses', 'relate', 'distance', 'hausdorff', 'equalsexact']
BG = ['inter', 'union', 'diff', 'symdiff', 'snap', 'sharedpaths', 'nearest']


def gen_geom(rng, kind=None):
    kind = kind or rng.choice(['star', 'star', 'blob', 'blobhole', 'squares', 'zigzag', 'lines', 'points', 'collection', 'bowtie'])
    cx, cy = rng.uniform(-5, 5), rng.uniform(-5, 5)
    if kind == 'star': return scan.star(rng, cx, cy, rng.choice([8, 12, 20, 32]), rng.uniform(4, 12))
    if kind == 'blob': return scan.blob(rng, cx, cy, rng.randint(8, 40), rng.uniform(4, 12))
    if kind == 'blobhole': return scan.blob(rng, cx, cy, rng.randint(12, 40), rng.uniform(6, 12), hole=True)
    if kind == 'squares': return ('MultiPolygon', scan.squares(rng, rng.choice([4, 9]), 4, rng.choice([0, 1, -1])))
    if kind == 'zigzag': return scan.zigzag(rng, rng.randint(5, 25), cx - 8, cy, 1.0, rng.uniform(1, 5))
    if kind == 'lines': return ('MultiLineString', scan.randlines(rng, rng.randint(3, 10), 15))
    if kind == 'points': return ('MultiPoint', scan.points(rng, rng.randint(3, 15), 15))
    if kind == 'bowtie': return scan.bowtie(rng, rng.choice([5, 7, 9]), rng.uniform(4, 9))
    return ('GeometryCollection', [scan.star(rng, cx, cy, 8, 5), scan.zigzag(rng, 6, cx, cy, 1, 2), ('Point', (round(cx, 3), round(cy, 3)))])


FRESH_KINDS = ['point', 'zigzag', 'star', 'blobhole', 'points', 'lines', 'squares', 'collection', 'ring', 'emptycoll', 'emptymulti', 'emptyline']


def first_use_ops(rng, nfresh):
    """calls that may be the FIRST call ever made on a shared geometry: extent accessors, envelope-using predicates, distance, STRtree insertion,
    prepared-geometry creation, validity, cloning, writing -- issued by every thread right after the barrier"""
    ops = []
    order = list(range(nfresh)); rng.shuffle(order)
    for i in order:
        f = 'F%d' % i; g = 'F%d' % rng.randrange(nfresh)
        ops.append(rng.choice(['extent %s' % f, 'xmin %s' % f, 'intersects %s %s' % (f, g), 'disjoint %s %s' % (g, f), 'distance %s %s' % (f, g), 'tree %s' % f,
                               'prepq %s %s' % (f, g), 'envelope P3 %s 0' % f, 'covers %s %s' % (f, g), 'isvalid %s' % f, 'area %s' % f, 'length %s' % f, 'clone P3 %s' % f,
                               'wkbhash %s' % f, 'npts %s' % f, 'cdim %s' % f, 'hasz %s' % f, 'relate %s %s' % (f, g), 'equalsexact %s %s' % (f, g), 'hull P3 %s 0' % f, 'isempty %s' % f]))
    return ops


def gen_program(rng, kind, nshared, nops, use_spq=False, nfresh=0):
    """kind: private | reader | churn | mixed -> list of op strings"""
    ops = []
    nslots = 4
    if nfresh and kind != 'churn':
        ops += first_use_ops(rng, nfresh)
    for i in range(2):
        ops.append('wkb P%d %s' % (i, scan.hexwkb(gen_geom(rng))))
    live = [0, 1]
    def operand(allow_shared):
        if allow_shared and nfresh and rng.random() < 0.2: return 'F%d' % rng.randrange(nfresh)
        if allow_shared and nshared and rng.random() < (0.75 if kind == 'reader' else 0.4): return 'S%d' % rng.randrange(nshared)
        return 'P%d' % rng.choice(live)
    sh_ok = kind in ('reader', 'mixed')
    for _ in range(nops):
        r = rng.random()
        if kind == 'churn' and r < 0.35:
            ops.append('ctx'); live = []
            for i in range(2):
                ops.append('wkb P%d %s' % (i, scan.hexwkb(gen_geom(rng, rng.choice(['star', 'zigzag', 'points']))))); live.append(i)
            continue
        if kind == 'mixed' and r < 0.06:
            ops.append('ctx'); live = []
            ops.append('wkb P0 %s' % scan.hexwkb(gen_geom(rng))); live = [0]
            continue
        if use_spq and sh_ok and nshared and rng.random() < 0.15:       # rounds that share a prepared geometry query it often (C13-F5 / C13-F7 regressions)
            ops.append('spq %s' % operand(True)); continue
        r = rng.random()
        if r < 0.22: ops.append('%s %s' % (rng.choice(UV), operand(sh_ok)))
        elif r < 0.45:
            dst = rng.randrange(nslots); o = rng.choice(UG)
            par = {'buffer': rng.choice([0.5, 1.0, -0.5, 2.0]), 'simplify': 0.5, 'tpsimplify': 0.5, 'mic': 0.5, 'offset': rng.choice([0.5, -0.5]), 'densify': 1.5}.get(o, 0)
            ops.append('%s P%d %s %r' % (o, dst, operand(sh_ok), par))
            if dst not in live: live.append(dst)
        elif r < 0.65: ops.append('%s %s %s' % (rng.choice(BV), operand(sh_ok), operand(sh_ok)))
        elif r < 0.82:
            dst = rng.randrange(nslots)
            ops.append('%s P%d %s %s %r' % (rng.choice(BG), dst, operand(sh_ok), operand(sh_ok), 0.5))
            if dst not in live: live.append(dst)
        elif r < 0.845: ops.append('%s %s %s %r' % (rng.choice(['setprec', 'unionprec', 'interprec', 'diffprec', 'uunionprec']), operand(sh_ok), operand(sh_ok), rng.choice([0.01, 0.5, 1.0])))
        elif r < 0.87: ops.append('prepq %s %s' % (operand(sh_ok), operand(sh_ok)))
        elif r < 0.90 and sh_ok and nshared and use_spq: ops.append('spq %s' % operand(True))
        elif r < 0.93: ops.append('tree %s' % operand(sh_ok))
        elif r < 0.95 and sh_ok and nshared: ops.append('stq %s' % operand(True))
        elif r < 0.97:
            dst = rng.randrange(nslots); ops.append('%s P%d %s' % (rng.choice(['rwkt', 'rjson', 'clone']), dst, operand(sh_ok)))
            if dst not in live: live.append(dst)
        else:
            if len(live) > 1:
                x = rng.choice(live); live.remove(x); ops.append('free P%d' % x)
    return ops


def result_ops(prog):
    """the op that produced each result token of a thread's transcript"""
    out = []
    for op in prog:
        o = op.split(' ')[0]
        out += [] if o in ('wkb', 'free', 'ctx') else [op, op] if o in ('rwkt', 'rjson') else [op]
    return out


def gen_round(rng, nthreads, nops, use_spq=False, cold=False):
    nshared = 0 if cold else (rng.choice([0, 2, 4]) if not use_spq else rng.choice([2, 4]))
    shared = [gen_geom(rng, rng.choice(['star', 'blobhole', 'squares', 'zigzag', 'lines', 'collection'])) for _ in range(nshared)]
    kinds = []
    for t in range(nthreads):
        kinds.append(rng.choice(['private', 'reader', 'mixed', 'churn'] if nshared else ['private', 'private', 'churn', 'mixed']))
    if nthreads >= 2 and 'churn' not in kinds: kinds[-1] = 'churn'
    # fresh shared geometries: one of every geometry class over the rounds, handed to the threads without ever having been queried
    nfresh = 0 if cold else rng.choice([2, 3, 4])
    fkinds = [rng.choice(FRESH_KINDS) for _ in range(nfresh)]
    def fgeom(k):
        if k == 'point': return ('Point', (round(rng.uniform(-5, 5), 3), round(rng.uniform(-5, 5), 3)))
        if k == 'ring': return ('LineString', scan.blob(rng, 0, 0, rng.randint(6, 30), 8)[1][0])
        if k == 'emptycoll': return ('GeometryCollection', [])
        if k == 'emptymulti': return (rng.choice(['MultiPolygon', 'MultiLineString', 'MultiPoint']), [])
        if k == 'emptyline': return ('LineString', [])
        return gen_geom(rng, k)
    fresh = [(rng.choice('btck') if k in ('zigzag', 'ring') else rng.choice('btc') if k.startswith('empty') or k == 'point' else rng.choice('btchue'), fgeom(k)) for k in fkinds]
    progs = [gen_program(rng, k, nshared, nops, use_spq, nfresh) for k in kinds]
    txt = 'shared %s\nfresh %s\nseed %d\n%s' % (' '.join(scan.hexwkb(g) for g in shared), ' '.join('%s:%s' % (m, scan.hexwkb(g)) for m, g in fresh), rng.randrange(1 << 30), 'cold\n' if cold else '')
    txt += ''.join('thread %s\n' % ' ; '.join(p) for p in progs)
    return dict(nthreads=nthreads, kinds=kinds, nshared=nshared, text=txt, progs=progs, use_spq=use_spq, cold=cold, fresh=['%s/%s' % (k, m) for k, (m, _) in zip(fkinds, fresh)])


# ===================================================================== ThreadSanitizer reports
def parse_tsan(txt):
    """-> list of dict(kind, location, accesses=[[frames...], [frames...]], raw)"""
    reps = []
    for blk in re.split(r'={18}\n', txt):
        m = re.search(r'WARNING: ThreadSanitizer: ([^\(\n]+)', blk)
        if not m: continue
        kind = m.group(1).strip()
        loc = ''
        lm = re.search(r"Location is global '([^']*)'", blk)
        if lm: loc = "global '%s'" % lm.group(1)
        else:
            lm = re.search(r'Location is (heap block of size \d+|stack of [^\n]*|file descriptor[^\n]*|TLS of [^\n]*)', blk)
            if lm: loc = lm.group(1)
        accesses = []
        for am in re.finditer(r'^\s*(?:Previous )?(?:[Aa]tomic )?(?:[Rr]ead|[Ww]rite) of size \d+ at [^\n]*\n((?:\s+#\d+ [^\n]*\n)+)', blk, re.M):
            frames = re.findall(r'#\d+ (.*?) (?:/|<null>|\()', am.group(1))
            accesses.append(frames)
        alloc = []
        hm = re.search(r'allocated by [^\n]*\n((?:\s+#\d+ [^\n]*\n)+)', blk)
        if hm: alloc = re.findall(r'#\d+ (.*?) (?:/|<null>|\()', hm.group(1))
        reps.append(dict(kind=kind, location=loc, accesses=accesses, alloc=alloc, raw=blk[:3000]))
    return reps


def match_known(rep, known, round_uses_spq=False):
    """a report is a known finding iff its location is the symbol of the entry and both accesses come from the listed accessor functions;
    or (shared prepared geometry) it is a heap block and both accesses / the allocation lie in the listed classes"""
    for k in known:
        key = k.get('key', {})
        ha = key.get('heap_accessors')
        if ha and rep['location'].startswith('heap block'):
            if rep['accesses'] and all(any(any(a in fr for a in ha) for fr in frames[:4]) for frames in rep['accesses']) \
                    and (len(rep['accesses']) < 2 or '[failed to restore the stack]' in rep['raw'] or any(any(key.get('writer', '') in fr for fr in frames[:4]) for frames in rep['accesses'])):
                return k
            continue
        names = key.get('race_in')
        if names and round_uses_spq and not rep['location'].startswith('global'):
            inside = lambda frames: any(any(nm in fr for nm in names) for fr in frames[:12])
            if rep['accesses'] and all(inside(fr) for fr in rep['accesses']):
                return k
            continue
        sym = key.get('symbol'); accs = key.get('accessors', [])
        if not sym: continue
        if sym not in rep['location']: continue
        if rep['accesses'] and all(any(any(a in fr for a in accs) for fr in frames[:4]) for frames in rep['accesses']):
            return k
    return None


# ===================================================================== the check
def run_round(exe, rnd, work, idx, env_extra, timeout):
    base = os.path.join(work, 'round_%d' % idx)
    open(base + '.in', 'w').write(rnd['text'])
    for f in os.listdir(work):
        if f.startswith('round_%d.tsan.' % idx): os.remove(os.path.join(work, f))
    env = dict(os.environ, TSAN_OPTIONS='halt_on_error=0 exitcode=0 report_signal_unsafe=0 history_size=4 log_path=%s.tsan' % base)
    env.update(env_extra or {})
    out = {}
    for mode in ('par', 'seq', 'seq2'):
        try:
            p = subprocess.run([exe, 'seq' if mode != 'par' else 'par'], input=rnd['text'], stdout=subprocess.PIPE, stderr=subprocess.PIPE, text=True, timeout=timeout,
                               env=env if mode == 'par' else dict(os.environ, TSAN_OPTIONS='report_bugs=0 exitcode=0'), errors='replace')
            out[mode] = (p.returncode, p.stdout, p.stderr[-2000:])
        except subprocess.TimeoutExpired:
            out[mode] = (-9, '', 'timeout')
    logs = ''
    for f in sorted(os.listdir(work)):
        if f.startswith('round_%d.tsan.' % idx): logs += open(os.path.join(work, f), errors='replace').read()
    return idx, out, logs


def callback_rendezvous(ctx):
    """the process-wide interrupt callback from two threads with their own contexts and objects (harness/c13_cb.c): thread A stays
    inside the registered callback while thread B runs a complete interruptible call whose callback invocation requests an interrupt;
    each thread's transcript must equal that of the same calls run one after the other"""
    exe = os.path.join(BUILD, 'bin', 'c13_cb')
    if not ctx.cxx(os.path.join(ROOT, 'harness/c13_cb.c'), exe, 'rel'):
        return
    lines = ['%s %d' % (op, n) for op in 'HB' for n in (4, 8, 50, 300)]
    out = ctx.run_lines([exe], lines, timeout=300, line_timeout=60)
    polled = 0
    for l, o in zip(lines, out):
        ctx.count(('callback-rendezvous', l), True)
        if o.startswith('OK'):
            polled += ' b=0' not in o
            continue
        ctx.violation('callback_rendezvous_%s' % l.replace(' ', '_'),
                      dict(program='two threads, own contexts and geometries, one registered interrupt callback; A parks inside its first callback invocation, B runs %s and its callback requests an interrupt' % l,
                           implementation=o.strip()[:700], expected='both transcripts equal the sequential run (B: NULL, interrupted)', replay='echo "%s" | %s' % (l, exe)),
                      msg='callback rendezvous: ' + o.strip()[:300])
    ctx.notes['callback_rendezvous'] = dict(cases=len(lines), with_poll_on_B=polled)
    if polled == 0:
        ctx.broken.append(dict(kind='generator', name='callback_rendezvous', detail='no case in which thread B reached a polling point'))


def run(ctx):
    ctx.cov['rule'] = ('multi-threaded rounds: T threads (2..16), each with its own context, running a generated program of reentrant C API calls on private geometries and, '
                       'for reader/mixed threads, on shared immutable geometries (plus a shared pre-built STRtree and a pre-warmed prepared geometry), with context '
                       'churn threads; one evaluation = one (round, thread) transcript compared with its sequential transcript under ThreadSanitizer; non-trivial = the '
                       'thread ran >= 10 calls that returned a result; distinct by program text')
    ctx.assumptions += [
        'model: threads synchronise with each other only through atomics / locks on the listed cells (no other happens-before edge); start-up (static initialisation, guarded initialisation of function-local statics) precedes all traces',
        'model: heap objects reachable only from a thread\'s own handle and geometries are private state; shared immutable geometries are read-only cells (their lazily built parts built before sharing)',
        'the inventory is read from the ELF symbol tables of the rel build and matched to source declarations by a textual C++ reader (props/C13.py, props/C14.py); '
        'writers are found by syntactic patterns (assignment, ++/--, compound assignment, non-const-looking member calls, C string/memory writers); objects handed out by non-const reference are noted but their writers are not traced',
        'noninterference is proved for calls whose private result does not depend on the shared state; that this holds for the C API (reference count never observed, '
        'interrupt flag only observed when an interrupt is requested) is checked by comparing transcripts, not proved',
        'data races are observed by ThreadSanitizer on the schedules that occurred (2..16 threads, random yields), not on all interleavings']
    t0 = time.time()
    relb = ctx.build_repo('rel'); tsanb = ctx.build_repo('tsan')
    if not relb:
        return
    rows, src = build_cells(os.path.join(relb, 'lib'), REPO)
    known_all = [k for k in ctx.known if k.get('status') == 'known']
    known = [k for k in known_all if k.get('key', {}).get('cell')]
    kspq = next((k for k in known_all if k.get('key', {}).get('race_in') and k['key'].get('crashes')), None)
    exempt = [k['key']['cell'] for k in known]
    sha = write_inventory_v(rows, exempt, os.path.join(COQ, 'theories', 'Gen', 'C13_Inventory.v'),
                            '%d cells from %s' % (len(rows), ', '.join(sorted(set(r['lib'] for r in rows)))))
    bad = [r for r in rows if not py_cell_ok(r)]
    ctx.notes['inventory'] = dict(cells=len(rows), sha256=sha, by_kind={k: sum(1 for r in rows if r['kind'] == k) for k in ('KGuard', 'KRuntime', 'KObject')},
                                  rejected=[r['sym'] for r in bad],
                                  objects=[dict(sym=r['sym'], lib=r['lib'], section=r['section'], size=r['size'], decl=r['decl'], where=r['where'], atomic=r['atomic'], tls=r['tls'],
                                                mutex=r['mutex'], stateless=r['stateless'], writers=r['writers'], writers_reachable=r['writers_reachable'], notes=r['notes'],
                                                ok=py_cell_ok(r)) for r in rows if r['kind'] == 'KObject'])
    ctx.log('inventory: %d cells (%d objects), rejected: %s' % (len(rows), sum(1 for r in rows if r['kind'] == 'KObject'), [r['sym'] for r in bad]))
    # cross-check: function-local statics seen in the source that are not const must be among the symbols (or compiled out)
    syms = ' '.join(r['sym'] for r in rows)
    miss = [s for s in source_statics(src) if not s['const'] and ('::' + s['var']) not in syms]
    ctx.notes['source_statics_without_symbol'] = ['%s in %s (%s)' % (s['var'], s['func'], s['where']) for s in miss][:40]
    lz = lazy_members(src, REPO)
    basef = os.path.join(ROOT, 'gen/corpus/C13_lazy_members.json')
    base = {(b['cls'], b['member']) for b in json.load(open(basef))} if os.path.exists(basef) else set()
    ctx.notes['mutable_members_written_by_const_methods (geometry classes)'] = lz
    for x in lz:
        if (x['cls'], x['member']) not in base:
            ctx.broken.append(dict(kind='inventory', name='lazily written member %s::%s' % (x['cls'], x['member']),
                                   detail='`%s` of %s is written by the const member function(s) %s: a read-only call on a geometry shared between threads writes it '
                                          '(not in gen/corpus/C13_lazy_members.json, the members reviewed on the unchanged tree)' % (x['decl'], x['cls'], ', '.join(x['writers']))))
    ok_coq, ax = ctx.coq_build('Properties_C13')
    for r in bad:
        k = next((k for k in known if k['key']['cell'] == r['sym']), None)
        if k:
            ctx.known_hit(k, '%s [static: %s (%s) is written by %s, reachable from reentrant entry points]' % (k['what'], r['sym'], r['decl'], ', '.join(r['writers_reachable'])))
    if not tsanb:
        return
    if ctx.build_repo('rel'):
        callback_rendezvous(ctx)
    exe = os.path.join(BUILD, 'bin', 'c13_tsan')
    if not ctx.cxx(os.path.join(ROOT, 'harness/c13.cpp'), exe, 'tsan'):
        return
    # ---------------- rounds
    rounds = []
    if ctx.replay:
        rp = json.load(open(ctx.replay)); rounds = [dict(nthreads=rp['nthreads'], kinds=rp.get('kinds', []), nshared=rp.get('nshared', 0), text=rp['input'], progs=[])]
    else:
        corpus = os.path.join(ROOT, 'gen/corpus/C13.jsonl')
        if os.path.exists(corpus):
            for l in open(corpus):
                if l.strip() and not l.startswith('#'):
                    c = json.loads(l); rounds.append(dict(nthreads=c['nthreads'], kinds=c.get('kinds', []), nshared=c.get('nshared', 0), text=c['input'], progs=[]))
        nr = 120 if ctx.quick else 700
        all_spq = os.environ.get('VERIF_C13_SPQ') == '1'       # stress knob: every round shares a prepared geometry
        tcs = [2, 2, 3, 4, 4, 6, 8, 8, 12, 16]
        for i in range(nr):
            rounds.append(gen_round(ctx.rng, tcs[i % len(tcs)], ctx.rng.choice([12, 25, 40]) if ctx.quick else ctx.rng.choice([25, 40, 60]), use_spq=(all_spq or i % 3 == 1), cold=(not all_spq and i % 3 == 2)))
    par = max(2, NPROC // 4)
    results = {}
    with ThreadPoolExecutor(max_workers=par) as ex:
        for idx, out, logs in ex.map(lambda it: run_round(exe, it[1], ctx.work, it[0], None, 90 if ctx.quick else 300), list(enumerate(rounds))):
            results[idx] = (out, logs)
    ctx.log('%d rounds: %.0fs' % (len(rounds), time.time() - t0))
    dist = {'threads': {}, 'kinds': {}, 'races_by_location': {}, 'ops': {}}
    agg = {}
    n_reports = 0
    for idx, rnd in enumerate(rounds):
        out, logs = results[idx]
        dist['threads'][rnd['nthreads']] = dist['threads'].get(rnd['nthreads'], 0) + 1
        for k in rnd['kinds']: dist['kinds'][k] = dist['kinds'].get(k, 0) + 1
        for p in rnd['progs']:
            for op in p:
                o = op.split(' ')[0]; dist['ops'][o] = dist['ops'].get(o, 0) + 1
        rp_obj = dict(nthreads=rnd['nthreads'], kinds=rnd['kinds'], nshared=rnd['nshared'], input=rnd['text'])
        rp_in = os.path.join(ctx.work, 'round_%d.in' % idx)
        replay = 'TSAN_OPTIONS="halt_on_error=0 exitcode=0" %s par < %s   (sequential: %s seq < %s)' % (exe, rp_in, exe, rp_in)
        uses_spq = ' spq ' in rnd['text']
        died = out['par'][0] != 0 or len([l for l in out['par'][1].split('\n') if l.startswith('T')]) < rnd['nthreads']
        if died and kspq and uses_spq and re.search(r'ThreadSanitizer: (SEGV|DEADLYSIGNAL)', logs + out['par'][2]) and any(nm in logs for nm in kspq['key']['race_in']):
            a = agg.setdefault(kspq['id'], dict(k=kspq, n=0, crashes=0)); a['crashes'] = a.get('crashes', 0) + 1
            ctx.count(('round', rnd['text']), True)
            continue
        if out['seq'][0] == -9 and out['seq2'][0] == -9:
            # the programs do not even terminate when run one after the other: not a question of interference (reported in the evidence, see C12)
            dist.setdefault('sequential_baseline_did_not_terminate', []).append(os.path.join(ctx.work, 'round_%d.in' % idx)); ctx.count(('round', rnd['text']), False)
            continue
        if died or out['seq'][0] != 0:
            ctx.count(('round', rnd['text']), False)
            ctx.violation('round_%d_crash' % idx, dict(rp_obj, replay=replay, parallel_rc=out['par'][0], sequential_rc=out['seq'][0], stderr=out['par'][2] or out['seq'][2]),
                          msg='round %d (%d threads): process failed (parallel rc=%s, sequential rc=%s): %s' % (idx, rnd['nthreads'], out['par'][0], out['seq'][0], (out['par'][2] or out['seq'][2])[-300:]))
            continue
        # ---- transcripts
        tp = out['par'][1].strip().split('\n'); ts = out['seq'][1].strip().split('\n'); ts2 = out['seq2'][1].strip().split('\n')
        for t in range(rnd['nthreads']):
            a = tp[t] if t < len(tp) else 'MISSING'; b = ts[t] if t < len(ts) else 'MISSING'; b2 = ts2[t] if t < len(ts2) else 'MISSING'
            ntok = len(a.split(' ')) - 1
            ctx.count(('transcript', rnd['text'], t), ntok >= 10)
            if a == b: continue
            A, B, B2 = a.split(' '), b.split(' '), b2.split(' ')
            first = next((j for j in range(min(len(A), len(B))) if A[j] != B[j]), min(len(A), len(B)))
            if b != b2 and first < len(B2) and first < len(B) and B[first] != B2[first]:
                dist.setdefault('self_varying_results', 0); dist['self_varying_results'] += 1      # the call is not a function of its input even sequentially
                continue
            rops = result_ops(rnd['progs'][t]) if rnd['progs'] else []
            culprit = rops[first - 1] if 0 < first <= len(rops) else '?'
            if kspq and culprit.startswith('spq '):
                a2 = agg.setdefault(kspq['id'], dict(k=kspq, n=0, crashes=0)); a2['wrong'] = a2.get('wrong', 0) + 1
                continue
            ctx.violation('round_%d_thread_%d_transcript' % (idx, t), dict(rp_obj, replay=replay, thread=t, parallel=a[:3000], sequential=b[:3000], first_difference_at_result=first,
                                                                             program=rnd['progs'][t] if rnd['progs'] else None, call=culprit[:300]),
                          msg='round %d thread %d: result %d (%s) of the threaded run (%s) differs from the sequential run (%s)' % (idx, t, first, culprit[:60], A[first] if first < len(A) else '-', B[first] if first < len(B) else '-'))
        # ---- ThreadSanitizer reports
        for rep in parse_tsan(logs):
            n_reports += 1
            loc = rep['location'] or 'unknown location'
            dist['races_by_location'][loc] = dist['races_by_location'].get(loc, 0) + 1
            k = match_known(rep, known_all, uses_spq)
            if k:
                a = agg.setdefault(k['id'], dict(k=k, n=0)); a['n'] += 1; continue
            top = ' / '.join((fr[0] if fr else '?') for fr in rep['accesses'])
            if len([v for v in ctx.violations if 'tsan' in v[0]]) < 6:
                ctx.violation('round_%d_tsan_%d' % (idx, n_reports), dict(rp_obj, replay=replay, report_kind=rep['kind'], location=loc, accesses=rep['accesses'], allocated_by=rep['alloc'][:6], report=rep['raw']),
                              msg='round %d (%d threads): ThreadSanitizer %s at %s between %s' % (idx, rnd['nthreads'], rep['kind'], loc, top[:300]))
    ctx.cov['traces_validated_against_impl'] = ctx.cov['evaluations']
    ctx.notes['distribution'] = dist
    ctx.notes['tsan_reports'] = n_reports
    for fid, a in sorted(agg.items()):
        ctx.known_hit(a['k'], '%s [observed: %d ThreadSanitizer reports%s%s]' % (a['k']['what'], a['n'], ', %d crashed rounds' % a['crashes'] if a.get('crashes') else '',
                                                                                   ', %d wrong results' % a['wrong'] if a.get('wrong') else ''))
    if not ctx.replay:
        for need in (2, 16):
            if not dist['threads'].get(need):
                ctx.broken.append(dict(kind='generator', name='distribution', detail='no round with %d threads' % need))
        if sum(1 for r in rounds if r.get('use_spq')) < 20:
            ctx.broken.append(dict(kind='generator', name='distribution', detail='fewer than 20 rounds share a prepared geometry'))
        ctx.notes['rounds_sharing_a_prepared_geometry'] = sum(1 for r in rounds if r.get('use_spq'))
        ctx.notes['cold_start_rounds'] = sum(1 for r in rounds if r.get('cold'))
        fk = {}
        for r in rounds:
            for x in r.get('fresh', []): fk[x] = fk.get(x, 0) + 1
        ctx.notes['fresh_shared_geometries (class/creation: b=WKB reader t=WKT reader c=clone k=constructor h/u/e=result of hull/buffer/envelope)'] = fk
        for k in FRESH_KINDS:
            if not any(x.startswith(k + '/') for x in fk):
                ctx.broken.append(dict(kind='generator', name='distribution', detail='no round shares a never-queried geometry of kind %s' % k))
        if sum(1 for r in rounds if r.get('cold')) < 20:
            ctx.broken.append(dict(kind='generator', name='distribution', detail='fewer than 20 cold-start rounds (first use of process-wide objects concurrent in the workers)'))
        for need in ('churn', 'reader', 'private'):
            if not dist['kinds'].get(need):
                ctx.broken.append(dict(kind='generator', name='distribution', detail='no thread of kind %s' % need))
    if any(not noin for _, noin, _ in ctx.violations):
        for b in ctx.broken:
            if b['kind'] in ('proof', 'correspondence', 'inventory'): b['resolved'] = True
    for r in rounds[:2]:
        ctx.sample(r['text'][:400])


# ===================================================================== lazily written `mutable` members of the geometry classes (heap state, not in the ELF inventory)
def lazy_members(src, repo):
    """(class, member) pairs declared `mutable` in include/geos/geom/*.h that a CONST member function of the class writes (assignment, ++/--, compound
    assignment, non-const-looking member call, or passing the member to a function): caches filled on first use, i.e. writes performed by read-only calls.
    Whether such a write is guarded (flag set at construction) is not decidable here: new pairs are reported, ThreadSanitizer decides."""
    out = []
    gdir = os.path.join(repo, 'include', 'geos', 'geom')
    for f in sorted(os.listdir(gdir)):
        if not f.endswith('.h'): continue
        cls = f[:-2]
        txt = scan.strip_source(open(os.path.join(gdir, f), errors='replace').read())
        for m in re.finditer(r'\bmutable\b([^;{}()]*?)\b([A-Za-z_]\w*)\s*(?:=[^;]*)?;', txt):
            name, decl = m.group(2), ('mutable' + m.group(1) + m.group(2)).strip()
            if 'atomic' in decl or 'mutex' in decl: continue
            writers = set()
            for fn in src.funcs:
                if fn['cls'] != cls: continue
                T = fn['T']; a, b = fn['body']
                h = a - 1; d = 0
                while h > 0 and not (T[h - 1][0] in (';', '}', '{') and d == 0) and a - h < 120:
                    h -= 1
                head = [t for t, _ in T[h:a - 1]]
                if ')' not in head or 'const' not in head[len(head) - head[::-1].index(')'):]: continue     # not a const member function
                for j in range(a, b):
                    if T[j][0] != name or T[j - 1][0] in ('.', '->'): continue
                    t1 = T[j + 1][0] if j + 1 < b else ''; t2 = T[j + 2][0] if j + 2 < b else ''; t3 = T[j + 3][0] if j + 3 < b else ''
                    p1 = T[j - 1][0]
                    if (t1 == '=' and t2 != '=' and p1 not in ('=', '!', '<', '>')) or (t1 in '+-*/%&|^' and t1 and t2 == '=') or (t1, t2) in (('+', '+'), ('-', '-')) \
                            or (t1 in ('.', '->') and t3 == '=' and (T[j + 4][0] if j + 4 < b else '') != '=') or (t1 in ('.', '->') and t3 == '(' and t2 not in CONST_METHODS) \
                            or (p1 in ('(', ',') and t1 in (')', ',') and j - 2 >= a and T[j - 2][0] not in ('if', 'while', 'return', 'sizeof')):
                        writers.add(fn['name'])
            if writers:
                out.append(dict(cls=cls, member=name, decl=' '.join(decl.split()), writers=sorted(writers)))
    return out
