"""C11 — readers never crash, hang or touch memory out of bounds on any input.

proof:   coq/theories/C11/{WKBDefs,WKBProofs,WKTDefs,WKTProofs}.v, Properties_C11.v — executable models of WKBReader and of
         StringTokenizer + WKTReader with explicit accounting (bytes consumed, coordinates and vector slots allocated, nodes,
         recursion depth, nodes walked by GeometryCollection::setSRID); theorems: totality (fuel sufficient), every read inside the
         input, coordinates <= |input|/16, slots*4 <= |input|*depth (and NOT linear without a depth limit), depth <= |input|/9 + 1
         (tight), constructor guards (compound curve with an empty section = undefined behaviour, F14).
tie:     G  WKBReader::minMemSize translated from the clang AST (Gen/C11_minMemSize.v) and proved equal to the model's check;
         M  the models are extracted to OCaml and run beside the real readers (7 C API entry points, ASan+UBSan build) on
            structure-aware mutations of valid encodings and on unstructured strings: accept / reject, structure, SRID compared;
         observed: no sanitizer report / crash / hang, error message iff NULL, CPU time and peak allocation against the model's
            work count and a stated constant, every result written, cloned, measured, validated, destroyed.
"""
import hashlib, json, math, os, random, re, select, struct, subprocess, tempfile, threading, time
from concurrent.futures import ThreadPoolExecutor
from vlib.core import ROOT, BUILD, REPO

# nesting limits of the candidate fix (proposed_fixes/F2_reader_nesting_limit.diff); beyond them the unchanged tree is a known finding
D_DEFAULT = {'wkb': 200, 'wkt': 200, 'geojson': 200}
MIB = 1 << 20


# =============================================================================================== running line-in/line-out processes
def _run_chunk(argv, lines, tmo, unlimited_stack=False):
    """one output per input line; a crash / hang is attributed to the line being processed and the rest continues in a fresh process"""
    res = [None] * len(lines)
    i = 0
    while i < len(lines):
        errf = tempfile.TemporaryFile()
        cmd = argv
        if unlimited_stack:
            cmd = ['bash', '-c', 'ulimit -s unlimited; exec "$@"', 'x'] + list(argv)
        p = subprocess.Popen(cmd, stdin=subprocess.PIPE, stdout=subprocess.PIPE, stderr=errf)
        start = i

        def feed():
            try:
                for l in lines[start:]:
                    p.stdin.write(l.encode('latin-1') + b'\n')
                p.stdin.close()
            except (BrokenPipeError, OSError, ValueError):
                pass
        th = threading.Thread(target=feed, daemon=True)
        th.start()
        j = i
        buf = b''
        fd = p.stdout.fileno()
        eof = False
        while j < len(lines):
            deadline = time.time() + tmo
            line = None
            while True:
                nl = buf.find(b'\n')
                if nl >= 0:
                    line = buf[:nl]; buf = buf[nl + 1:]
                    break
                r, _, _ = select.select([fd], [], [], max(0.0, deadline - time.time()))
                if not r:
                    break
                chunk = os.read(fd, 1 << 16)
                if not chunk:
                    eof = True
                    break
                buf += chunk
            if line is None:
                break
            res[j] = line.decode('latin-1')
            j += 1
        if j < len(lines):
            timed = not eof
            if eof:
                try:
                    p.wait(timeout=120)          # the sanitizer is still writing its report
                except subprocess.TimeoutExpired:
                    pass
            try:
                p.kill()
            except OSError:
                pass
            p.wait()
            try:
                p.stdin.close()
            except Exception:
                pass
            errf.seek(0)
            err = errf.read().decode('latin-1', 'replace')
            m = re.search(r'(ERROR: \w*Sanitizer[^\n]*|runtime error[^\n]*|SUMMARY[^\n]*)', err)
            frames = ' / '.join(re.findall(r'#\d+ 0x[0-9a-f]+ in ([^\n]{0,110})', err)[:6])
            res[j] = 'TIMEOUT' if timed else 'CRASH:%s:%s || %s' % (p.returncode, (m.group(1) if m else err[-300:]).replace('\n', ' '), frames)
            j += 1
        else:
            p.wait()
        th.join(timeout=5)
        errf.close()
        i = j
    return res


def run_cases(argv, lines, tmo=30, workers=6, unlimited_stack=False):
    if not lines:
        return []
    # contiguous chunks balanced by payload size
    total = sum(len(l) for l in lines) + 64 * len(lines)
    target = total / max(1, workers * 3)
    chunks, cur, acc = [], [], 0
    for l in lines:
        cur.append(l); acc += len(l) + 64
        if acc >= target:
            chunks.append(cur); cur, acc = [], 0
    if cur:
        chunks.append(cur)
    with ThreadPoolExecutor(max_workers=workers) as ex:
        outs = list(ex.map(lambda c: _run_chunk(argv, c, tmo, unlimited_stack), chunks))
    return [o for c in outs for o in c]


# =============================================================================================== geometry trees
SPECIAL = [float('nan'), float('inf'), float('-inf'), 0.0, -0.0, 1e300, -1e300, 5e-324, 1.7976931348623157e308, 1e-300, 0.1, 1e17]


def rnd_ord(rng, wild):
    if wild and rng.random() < 0.3:
        return rng.choice(SPECIAL)
    return float(rng.randint(-3, 3))


def rnd_coord(rng, dim, wild):
    return tuple(rnd_ord(rng, wild) for _ in range(dim))


def gen_seq(rng, n, dim, wild, closed=False):
    pts = [rnd_coord(rng, dim, wild) for _ in range(n)]
    if closed and n >= 2:
        pts[-1] = pts[0]
    return pts


def gen_tree(rng, depth, dim, wild=False, kind=None, bad=0.0, start=None):
    """(kind, dim, payload); bad = probability of each structural defect (1-point line, open ring, 2-point arc, empty section ...)"""
    kinds = ['pt', 'ls', 'pg', 'mp', 'ml', 'mg', 'gc', 'cs', 'cc', 'cp', 'mc', 'ms']
    if kind is None:
        kind = rng.choice(kinds if depth > 0 else ['pt', 'ls', 'pg', 'cs', 'pt', 'ls'])
    B = lambda: rng.random() < bad
    E = lambda: rng.random() < 0.12          # empties at any level
    if kind == 'pt':
        return ('pt', dim, [] if E() else [rnd_coord(rng, dim, wild)])
    if kind == 'ls':
        n = 0 if E() else (1 if B() else rng.randint(2, 5))
        s = gen_seq(rng, n, dim, wild)
        if start is not None and s:
            s[0] = start
        return ('ls', dim, s)
    if kind == 'cs':
        n = 0 if E() else (rng.choice([1, 2, 4]) if B() else rng.choice([3, 3, 5, 7]))
        s = gen_seq(rng, n, dim, wild)
        if start is not None and s:
            s[0] = start
        return ('cs', dim, s)
    if kind == 'pg':
        if E():
            return ('pg', dim, [] if rng.random() < 0.5 else [[]])
        rings = []
        for _ in range(rng.choice([1, 1, 1, 2, 3])):
            n = rng.randint(4, 6) if not B() else rng.choice([0, 1, 2, 3])
            rings.append(gen_seq(rng, n, dim, wild, closed=not B()))
        return ('pg', dim, rings)
    if kind == 'cc':
        if E():
            return ('cc', dim, [])
        secs = []; last = None
        for _ in range(rng.randint(1, 3)):
            k = rng.choice(['ls', 'cs'])
            if B() and rng.random() < 0.5:
                t = (k, dim, [])                                 # empty section (F14 class when there are >= 2 sections)
            else:
                t = gen_tree(rng, 0, dim, wild, k, bad * 0.3, start=None if B() else last)
                if not t[2]:
                    t = (k, dim, gen_seq(rng, 3, dim, wild)); t[2][0] = last if last is not None else t[2][0]
            if t[2]:
                last = t[2][-1]
            secs.append(t)
        if B():
            secs.append(gen_tree(rng, 0, dim, wild, rng.choice(['pt', 'pg', 'cc'])))      # wrong child type
        return ('cc', dim, secs)
    if kind == 'cp':
        if E():
            return ('cp', dim, [])
        rings = []
        for _ in range(rng.choice([1, 1, 2])):
            k = rng.choice(['ls', 'cs', 'cc'])
            if k == 'ls':
                t = ('ls', dim, gen_seq(rng, rng.randint(4, 5), dim, wild, closed=True))
            elif k == 'cs':
                t = ('cs', dim, gen_seq(rng, 5, dim, wild, closed=True))
            else:
                t = gen_tree(rng, 0, dim, wild, 'cc', bad * 0.3)
            rings.append(t)
        if B():
            rings.insert(rng.randint(0, len(rings)), gen_tree(rng, 0, dim, wild, rng.choice(['pt', 'pg', 'ls'])))
        return ('cp', dim, rings)
    child = {'mp': ['pt'], 'ml': ['ls'], 'mg': ['pg'], 'gc': kinds, 'mc': ['ls', 'cs', 'cc'], 'ms': ['pg', 'cp']}[kind]
    if E():
        return (kind, dim, [])
    ch = []
    for _ in range(rng.choice([1, 1, 2, 3, 4])):
        ck = rng.choice(kinds) if B() else rng.choice(child)
        ch.append(gen_tree(rng, depth - 1, dim if rng.random() < 0.9 else rng.choice([2, 3, 4]), wild, ck, bad))
    return (kind, dim, ch)


WKB_CODE = {'pt': 1, 'ls': 2, 'pg': 3, 'mp': 4, 'ml': 5, 'mg': 6, 'gc': 7, 'cs': 8, 'cc': 9, 'cp': 10, 'mc': 11, 'ms': 12}


class WkbOut:
    def __init__(self, rng):
        self.b = bytearray(); self.marks = []; self.rng = rng; self.contra = False

    def header(self, code, dim, style):
        big = style.get('big', False) if self.rng.random() < 0.9 else not style.get('big', False)
        self.cur_big = big
        self.marks.append((len(self.b), 'bo')); self.b.append(0 if big else 1)
        hasz = dim >= 3 and style.get('zm', 'z') != 'm' or dim == 4
        hasm = dim == 4 or (dim == 3 and style.get('zm', 'z') == 'm')
        t = code
        if style.get('mix'):
            # the dimension flags exist in two conventions (ISO: +1000 Z, +2000 M, +3000 ZM; EWKB: bit 31 Z, bit 30 M) and the reader
            # merges them: each ordinate the body carries is flagged in the ISO way, the EWKB way or BOTH (consistent double flags,
            # Z in one convention and M in the other, ...); rarely a flag is set for an ordinate the body does NOT carry (contradictory)
            iz = im = ez = em = False
            if hasz:
                w = self.rng.choice(['iso', 'ewkb', 'both', 'both']); iz = w != 'ewkb'; ez = w != 'iso'
            elif self.rng.random() < style.get('contra', 0.0):
                w = self.rng.choice(['iso', 'ewkb', 'both']); iz = w != 'ewkb'; ez = w != 'iso'; self.contra = True
            if hasm:
                w = self.rng.choice(['iso', 'ewkb', 'both', 'both']); im = w != 'ewkb'; em = w != 'iso'
            elif self.rng.random() < style.get('contra', 0.0):
                w = self.rng.choice(['iso', 'ewkb', 'both']); im = w != 'ewkb'; em = w != 'iso'; self.contra = True
            t += 1000 * ((1 if iz else 0) + (2 if im else 0))
            t |= (0x80000000 if ez else 0) | (0x40000000 if em else 0)
        elif style.get('iso'):
            t += 1000 * ((1 if hasz else 0) + (2 if hasm else 0))
        else:
            t |= (0x80000000 if hasz else 0) | (0x40000000 if hasm else 0)
        srid = style.get('srid')
        if srid is not None:
            t |= 0x20000000
        self.marks.append((len(self.b), 'type')); self.u32(t)
        if srid is not None:
            self.marks.append((len(self.b), 'srid')); self.u32(srid & 0xffffffff)

    def u32(self, v):
        self.b += struct.pack('>I' if self.cur_big else '<I', v & 0xffffffff)

    def count(self, v):
        self.marks.append((len(self.b), 'count')); self.u32(v)

    def seq(self, pts, dim):
        for p in pts:
            q = list(p)[:dim] + [0.0] * (dim - len(p))
            self.marks.append((len(self.b), 'ord'))
            self.b += struct.pack(('>' if self.cur_big else '<') + 'd' * dim, *q)

    def geom(self, t, style, top=True):
        kind, dim, pl = t
        st = dict(style)
        if not top:
            st['srid'] = style.get('srid') if self.rng.random() < 0.2 else None
        self.header(WKB_CODE[kind], dim, st)
        if kind == 'pt':
            self.seq(pl if pl else [(float('nan'),) * dim], dim)
        elif kind in ('ls', 'cs'):
            self.count(len(pl)); self.seq(pl, dim)
        elif kind == 'pg':
            self.count(len(pl))
            for r in pl:
                self.count(len(r)); self.seq(r, dim)
        else:
            self.count(len(pl))
            for c in pl:
                self.geom(c, style, top=False)


def wkb_encode(rng, t):
    style = dict(big=rng.random() < 0.3, iso=rng.random() < 0.4, zm=rng.choice(['z', 'z', 'm']),
                 srid=(rng.choice([0, 4326, -1, 2 ** 31 - 1, 2 ** 32 - 1]) if rng.random() < 0.3 else None))
    o = WkbOut(rng); o.geom(t, style)
    return bytes(o.b), o.marks


def wkb_encode_mixed_flags(rng, t, contra):
    """like wkb_encode, every header (top level and inner elements) flags its dimension through both conventions at random"""
    style = dict(big=rng.random() < 0.4, mix=True, contra=contra, zm=rng.choice(['z', 'm']),
                 srid=(rng.choice([0, 4326, -1]) if rng.random() < 0.25 else None))
    o = WkbOut(rng); o.geom(t, style)
    return bytes(o.b), o.marks, o.contra


# ---- WKT text of a tree (own writer: the inputs are never produced by GEOS)
NUM_STYLES = ['int', 'int', 'int', 'dot0', 'exp', 'hex', 'plus', 'lead0']


def wkt_num(rng, v, fancy):
    if v != v:
        return rng.choice(['nan', 'NaN', 'NAN', '-nan'])
    if v in (float('inf'), float('-inf')):
        return ('-' if v < 0 else '') + rng.choice(['inf', 'Infinity', 'INF', '1e999'])
    if not fancy or v != int(v) or abs(v) > 1e15:
        s = repr(v)
        return s[:-2] if s.endswith('.0') else s
    i = int(v); sg = '-' if (i < 0 or (i == 0 and math.copysign(1, v) < 0)) else ''
    a = abs(i)
    st = rng.choice(NUM_STYLES)
    if st == 'dot0':
        return '%s%d.%s' % (sg, a, rng.choice(['', '0', '000']))
    if st == 'exp':
        return '%s%de%s0' % (sg, a, rng.choice(['', '+', '-']))
    if st == 'hex':
        return '%s0x%xp0' % (sg, a)
    if st == 'plus' and not sg:
        return '+%d' % a
    if st == 'lead0':
        return '%s00%d' % (sg, a)
    return '%s%d' % (sg, a)


def wkt_text(rng, t, st, top=True, tagged=True):
    kind, dim, pl = t
    sp = lambda: rng.choice(['', ' ', ' ', '  ', '\t', '\n', ' \r\n']) if st['ws'] else ' '
    name = {'pt': 'POINT', 'ls': 'LINESTRING', 'pg': 'POLYGON', 'mp': 'MULTIPOINT', 'ml': 'MULTILINESTRING', 'mg': 'MULTIPOLYGON',
            'gc': 'GEOMETRYCOLLECTION', 'cs': 'CIRCULARSTRING', 'cc': 'COMPOUNDCURVE', 'cp': 'CURVEPOLYGON', 'mc': 'MULTICURVE', 'ms': 'MULTISURFACE'}[kind]
    if st['case'] == 'lower':
        name = name.lower()
    elif st['case'] == 'mixed':
        name = ''.join(ch.lower() if rng.random() < 0.5 else ch for ch in name)
    zm = {2: '', 3: 'Z' if st['zm'] == 'z' else 'M', 4: 'ZM'}[dim]
    decl = st['decl']
    head = ''
    if tagged:
        if decl == 'suffix':
            head = name + zm
        elif decl == 'word':
            head = name + (' ' + zm if zm else '')
        else:
            head = name                         # undeclared: Z / ZM found from the number count (M cannot be undeclared)
        head += sp()

    def coords(pts):
        return ('(' + sp() + (',' + sp()).join(' '.join(wkt_num(rng, v, st['fancy']) for v in p) for p in pts) + sp() + ')') if pts else 'EMPTY'
    if kind in ('pt', 'ls', 'cs'):
        return head + coords(pl)
    if kind == 'pg':
        if not pl or pl == [[]] and rng.random() < 0.5:
            return head + 'EMPTY'
        return head + '(' + (',' + sp()).join(coords(r) for r in pl) + ')'
    if not pl:
        return head + 'EMPTY'
    parts = []
    for ch in pl:
        ck = ch[0]
        if kind == 'mp' and ck == 'pt':
            if ch[2] and rng.random() < 0.4 and all(c[0] == 'pt' and c[2] for c in pl) and st.get('mpflat'):
                parts.append(' '.join(wkt_num(rng, v, st['fancy']) for v in ch[2][0]))
            else:
                parts.append(wkt_text(rng, ch, st, False, tagged=False))
        elif (kind in ('ml',) and ck == 'ls') or (kind == 'mg' and ck == 'pg'):
            parts.append(wkt_text(rng, ch, st, False, tagged=False))
        elif kind in ('cc', 'cp', 'mc') and ck == 'ls' and rng.random() < 0.7:
            parts.append(wkt_text(rng, ch, st, False, tagged=False))
        elif kind == 'ms' and ck == 'pg' and rng.random() < 0.7:
            parts.append(wkt_text(rng, ch, st, False, tagged=False))
        else:
            parts.append(wkt_text(rng, ch, st, False, tagged=True))
    return head + '(' + sp() + (sp() + ',' + sp()).join(parts) + sp() + ')'


def wkt_encode(rng, t):
    st = dict(ws=rng.random() < 0.3, case=rng.choice(['upper', 'upper', 'lower', 'mixed']), zm=rng.choice(['z', 'z', 'm']),
              decl=rng.choice(['suffix', 'word', 'word', 'none']), fancy=rng.random() < 0.4, mpflat=rng.random() < 0.5)
    if st['zm'] == 'm' and st['decl'] == 'none':
        st['decl'] = 'word'
    return wkt_text(rng, t, st)


# ---- GeoJSON text
def gj_num(rng, v):
    if v != v or v in (float('inf'), float('-inf')):
        return rng.choice(['NaN', 'null', '1e999', '"x"', 'Infinity'])
    return repr(v) if v != int(v) or abs(v) > 1e15 else str(int(v))


def gj_text(rng, t):
    kind, dim, pl = t
    c = lambda p: '[' + ','.join(gj_num(rng, v) for v in p[:3]) + ']'
    s = lambda pts: '[' + ','.join(c(p) for p in pts) + ']'
    if kind == 'pt':
        return '{"type":"Point","coordinates":%s}' % (c(pl[0]) if pl else '[]')
    if kind in ('ls', 'cs'):
        return '{"type":"LineString","coordinates":%s}' % s(pl)
    if kind == 'pg':
        return '{"type":"Polygon","coordinates":[%s]}' % ','.join(s(r) for r in pl)
    if kind == 'mp':
        return '{"type":"MultiPoint","coordinates":[%s]}' % ','.join(c(x[2][0]) if x[0] == 'pt' and x[2] else '[]' for x in pl)
    if kind == 'ml':
        return '{"type":"MultiLineString","coordinates":[%s]}' % ','.join(s(x[2]) if x[0] in ('ls', 'cs') else '[]' for x in pl)
    if kind == 'mg':
        return '{"type":"MultiPolygon","coordinates":[%s]}' % ','.join('[' + ','.join(s(r) for r in x[2]) + ']' if x[0] == 'pg' else '[]' for x in pl)
    return '{"type":"GeometryCollection","geometries":[%s]}' % ','.join(gj_text(rng, x) for x in pl)


# =============================================================================================== mutations
def big_counts(rng, remaining):
    c = [0, 1, 2, 3, 0x7fffffff, 0x80000000, 0xffffffff, 0xfffffffe, 0x10000, 0x01000000]
    for k in (4, 9, 16, 21, 24, 32):
        c += [remaining // k, remaining // k + 1, max(0, remaining // k - 1)]
    return rng.choice(c)


def mutate_wkb(rng, data, marks):
    b = bytearray(data)
    marks = [m for m in marks if m[0] + 8 <= len(b)]          # marks go stale after a length-changing mutation
    r = rng.random()
    if r < 0.30 and marks:
        off, kind = rng.choice([m for m in marks if m[1] in ('count', 'type', 'bo', 'srid')] or marks)
        if kind == 'count':
            v = big_counts(rng, len(b) - off - 4)
            big = False
            # keep the byte order of the enclosing header when we can find it
            prev = [m for m in marks if m[1] == 'bo' and m[0] < off]
            if prev:
                big = b[prev[-1][0]] == 0
            b[off:off + 4] = struct.pack('>I' if big else '<I', v & 0xffffffff)
            return bytes(b), 'count'
        if kind == 'type' and rng.random() < 0.3:
            # keep the type word, add dimension flags of the other / of both conventions on top of what it has
            prev = [m for m in marks if m[1] == 'bo' and m[0] < off]
            big = b[prev[-1][0]] == 0 if prev else False
            v0 = struct.unpack('>I' if big else '<I', bytes(b[off:off + 4]))[0]
            low = v0 & 0xffff
            v = rng.choice([v0 | 0x80000000, v0 | 0x40000000, v0 | 0xC0000000,
                            (v0 & 0xffff0000) | ((low % 1000) + 1000 * rng.randint(1, 3)),
                            (v0 & 0x3fff0000) | ((low % 1000) + 1000 * rng.randint(1, 3)) | rng.choice([0x80000000, 0x40000000, 0xC0000000])])
            b[off:off + 4] = struct.pack('>I' if big else '<I', v & 0xffffffff)
            return bytes(b), 'typeflags'
        if kind == 'type':
            v = rng.choice([0, 13, 14, 15, 16, 17, 99, 255, 999, 1000, 1001, 2003, 3007, 4001, 65535, 0x80000001, 0x40000002, 0xC0000003, 0x20000001,
                            0xE0000007, 0x1000000A, 0x00010001, 0xffffffff, rng.randint(1, 12), rng.randint(1, 12) + 1000 * rng.randint(1, 3), rng.randint(1, 12) | rng.choice([0x80000000, 0x40000000, 0x20000000])])
            prev = [m for m in marks if m[1] == 'bo' and m[0] < off]
            big = b[prev[-1][0]] == 0 if prev else False
            b[off:off + 4] = struct.pack('>I' if big else '<I', v & 0xffffffff)
            return bytes(b), 'type'
        if kind == 'bo':
            b[off] = rng.choice([0, 1, 2, 3, 0x7f, 0x80, 0xff])
            return bytes(b), 'byteorder'
        b[off:off + 4] = struct.pack('<I', rng.getrandbits(32))
        return bytes(b), 'srid'
    if r < 0.50:
        return bytes(b[:rng.randint(0, len(b))]), 'truncate'
    if r < 0.60 and b:
        i = rng.randrange(len(b)); b[i] = rng.getrandbits(8)
        return bytes(b), 'byte'
    if r < 0.68 and b:
        i = rng.randrange(len(b)); j = min(len(b), i + rng.randint(1, 12)); del b[i:j]
        return bytes(b), 'delete'
    if r < 0.76:
        i = rng.randint(0, len(b)); b[i:i] = bytes(rng.getrandbits(8) for _ in range(rng.randint(1, 12)))
        return bytes(b), 'insert'
    if r < 0.84 and marks:
        # splice: copy a sub-encoding starting at a header over another header position
        hs = [m[0] for m in marks if m[1] == 'bo']
        a, c = rng.choice(hs), rng.choice(hs)
        return bytes(b[:a] + b[c:]), 'splice'
    if r < 0.92 and marks:
        os_ = [m[0] for m in marks if m[1] == 'ord']
        if os_:
            off = rng.choice(os_)
            b[off:off + 8] = struct.pack('<d', rng.choice(SPECIAL))
            return bytes(b), 'ordinate'
    return bytes(b), 'valid'


WKT_WORDS = ['POINT', 'LINESTRING', 'LINEARRING', 'POLYGON', 'MULTIPOINT', 'MULTILINESTRING', 'MULTIPOLYGON', 'GEOMETRYCOLLECTION', 'CIRCULARSTRING',
             'COMPOUNDCURVE', 'CURVEPOLYGON', 'MULTICURVE', 'MULTISURFACE', 'EMPTY', 'Z', 'M', 'ZM', 'POINTZ', 'POINTM', 'POINTZM', 'LINESTRINGZ', 'POLYGONZM', 'POINTZMX', 'POI', 'SRID=4326;POINT',
             'empty', 'z', 'm', 'Zm', 'GEOMETRYCOLLECTIONZ', 'MULTIPOINTM', 'TRIANGLE', 'TIN', 'POLYHEDRALSURFACE']
WKT_NUMS = ['0', '1', '-1', '1.5', '.5', '5.', '1e5', '1E-5', '1e', '1e+', '0x10', '0x1p-2', '0x', '0x.8', '0xg', 'inf', '-inf', 'infinity', 'infinit', 'nan', 'nan(1)', '-nan', '+', '-', '.', '1..2', '1.2.3',
            '1e999', '-1e999', '1e-999', '00', '+1', '--1', '1_0', '1,5', '0x1.8p+1', '1' * 400, '0.' + '0' * 400 + '1', '9' * 30 + 'e-20', '\x0b1', '\x0c2', '1\x0b', 'é', '1é', 'NaN', 'INFINITY', 'iNf',
            '1d5', '1f', '0b1', '1e5.5', '1 e5', '0X1P1', '0x1p', '0x1pp1', '0x1.p1', '.e1', '+.5', '-.5e-1', '1e0001', '4.9e-324', '2.2250738585072011e-308', '1.7976931348623159e308']
WKT_PUNCT = ['(', ')', ',', '(', ')', ',', ' ', '  ', '\t', '\n', '\r']


def tokens_of(text):
    return re.findall(r'[(),]|[ \t\r\n]+|[^(), \t\r\n]+', text)


def mutate_wkt(rng, text):
    r = rng.random()
    toks = tokens_of(text)
    if r < 0.2:
        return text[:rng.randint(0, len(text))], 'truncate'
    if not toks:
        return text, 'valid'
    i = rng.randrange(len(toks))
    if r < 0.32:
        del toks[i]
        return ''.join(toks), 'drop-token'
    if r < 0.44:
        toks.insert(i, rng.choice(WKT_PUNCT + WKT_WORDS[:14] + WKT_NUMS[:12]))
        return ''.join(toks), 'insert-token'
    if r < 0.52:
        toks.insert(i, toks[i])
        return ''.join(toks), 'dup-token'
    if r < 0.64:
        ws = [k for k, t in enumerate(toks) if re.match(r'[A-Za-z]', t)]
        if ws:
            k = rng.choice(ws); toks[k] = rng.choice(WKT_WORDS)
        return ''.join(toks), 'swap-word'
    if r < 0.78:
        ns = [k for k, t in enumerate(toks) if re.match(r'[-+.0-9]', t)]
        if ns:
            k = rng.choice(ns); toks[k] = rng.choice(WKT_NUMS)
        return ''.join(toks), 'swap-number'
    if r < 0.86:
        ps = [k for k, t in enumerate(toks) if t in '(),']
        if ps:
            k = rng.choice(ps); toks[k] = rng.choice(['(', ')', ',', '', '((', '))', ',,'])
        return ''.join(toks), 'bracket'
    if r < 0.93:
        k = rng.randint(0, len(text))
        return text[:k] + ''.join(chr(rng.choice([1, 7, 9, 10, 11, 12, 13, 32, 34, 39, 40, 41, 44, 59, 61, 127, 128, 200, 255] + list(range(33, 127)))) for _ in range(rng.randint(1, 4))) + text[k:], 'insert-chars'
    return text, 'valid'


def mutate_json(rng, text):
    r = rng.random()
    if r < 0.2:
        return text[:rng.randint(0, len(text))], 'truncate'
    toks = re.findall(r'"[^"]*"|-?\d+(?:\.\d+)?(?:[eE][-+]?\d+)?|[\[\]{}:,]|[A-Za-z]+|\s+', text)
    if not toks:
        return text, 'valid'
    i = rng.randrange(len(toks))
    if r < 0.35:
        toks[i] = rng.choice(['null', 'true', '"x"', '1', '[]', '{}', '[[]]', '[[[]]]', '[1]', '[1,2,3,4]', '1e999', '-0', '1.5e308', '"Point"', '"GeometryCollection"', '{"type":"Point"}', '[[1,2],[3]]', '""', '[null]', '12345678901234567890123'])
        return ''.join(toks), 'wrong-type'
    if r < 0.5:
        ks = [k for k, t in enumerate(toks) if t.startswith('"')]
        if ks:
            k = rng.choice(ks)
            toks[k] = rng.choice(['"type"', '"coordinates"', '"geometries"', '"geometry"', '"features"', '"properties"', '"Feature"', '"FeatureCollection"', '"Point"', '"LineString"', '"Polygon"',
                                  '"MultiPoint"', '"MultiLineString"', '"MultiPolygon"', '"GeometryCollection"', '"id"', '"bbox"', '"\\u0000"', '"point"'])
        return ''.join(toks), 'swap-key'
    if r < 0.62:
        del toks[i]
        return ''.join(toks), 'drop-token'
    if r < 0.74:
        toks.insert(i, rng.choice(['[', ']', '{', '}', ',', ':', '[[', ']]', '"a":', 'null']))
        return ''.join(toks), 'insert-token'
    if r < 0.82:
        ks = [k for k, t in enumerate(toks) if re.match(r'-?\d', t)]
        if ks:
            toks[rng.choice(ks)] = rng.choice(['1e400', '-1e400', '0.000000000000000000000000000000001', '1E+2', '01', '1.', '.5', '+1', '0x10', 'NaN', 'Infinity', '-Infinity', '1e', '9' * 400, '-', '1.0e-400'])
        return ''.join(toks), 'swap-number'
    if r < 0.9:
        k = rng.randint(0, len(text))
        return text[:k] + ''.join(chr(rng.choice([1, 9, 10, 13, 32, 34, 44, 58, 91, 92, 93, 123, 125, 127, 128, 255] + list(range(33, 127)))) for _ in range(rng.randint(1, 4))) + text[k:], 'insert-chars'
    return text, 'valid'


# =============================================================================================== nesting / amplification families
def wkb_hdr(code, n, big=False):
    return (b'\x00' if big else b'\x01') + struct.pack('>II' if big else '<II', code, n)


def wkb_chain(depth, code=7, leaf=None, inflate=False, total=None):
    """depth nested containers; inflate: every count claims all the bytes that remain (the quadratic allocation family)"""
    leaf = wkb_hdr(7, 0) if leaf is None else leaf
    L = 9 * depth + len(leaf)
    out = bytearray()
    for i in range(depth):
        rem = L - 9 * (i + 1)
        div = {7: 9, 4: 21, 5: 9, 6: 9, 11: 9, 12: 9, 9: 16, 10: 4}.get(code, 9)
        out += wkb_hdr(code, max(1, rem // div) if inflate else 1)
    return bytes(out) + leaf


def wkt_chain(depth, tag='GEOMETRYCOLLECTION', leaf='POINT EMPTY', close=True):
    return (tag + '(') * depth + leaf + (')' * depth if close else '')


def gj_chain(depth, close=True):
    return '{"type":"GeometryCollection","geometries":[' * depth + '{"type":"Point","coordinates":[1,2]}' + (']}' * depth if close else '')


# =============================================================================================== case construction
class Case:
    __slots__ = ('mode', 'data', 'cls', 'depth_hint', 'base')

    def __init__(self, mode, data, cls, depth_hint=0):
        self.mode, self.data, self.cls, self.depth_hint = mode, data, cls, depth_hint
        self.base = mode.upper()        # lower-case mode = the same reader with the option fix-structure on

    def line(self):
        return '%s %s' % (self.mode, self.data.hex())


def text_bytes(s):
    b = s.encode('latin-1', 'replace') if isinstance(s, str) else s
    return b.replace(b'\x00', b'\x01')           # the text entry points take C strings


def gen_cases(rng, quick):
    cases = []
    n_small = 9000 if quick else 300000
    # ---- structured: valid encodings and single / double mutations of them
    for i in range(n_small):
        dim = rng.choice([2, 2, 2, 3, 3, 4])
        wild = rng.random() < 0.25
        bad = rng.choice([0.0, 0.0, 0.05, 0.15])
        t = gen_tree(rng, rng.choice([0, 1, 1, 2, 2, 3]), dim, wild, None, bad)
        sel = i % 10
        if sel < 4:
            data, marks = wkb_encode(rng, t)
            cls = 'valid' if bad == 0 else 'defect'
            for _ in range(rng.choice([0, 1, 1, 1, 2])):
                data, c = mutate_wkb(rng, data, marks); cls = c
            if sel == 3:
                hx = data.hex()
                hx = hx.upper() if rng.random() < 0.5 else ''.join(ch.upper() if rng.random() < 0.5 else ch for ch in hx)
                m = rng.random()
                if m < 0.1:
                    hx = hx[:-1]; cls = 'hex-odd'
                elif m < 0.2 and hx:
                    k = rng.randrange(len(hx)); hx = hx[:k] + rng.choice('gGxX -\n\x00zZ@`/:') + hx[k + 1:]; cls = 'hex-badchar'
                cases.append(Case('H', hx.encode('latin-1'), 'hex:' + cls))
            else:
                cases.append(Case('B', data, 'wkb:' + cls))
        elif sel < 8:
            s = wkt_encode(rng, t)
            cls = 'valid' if bad == 0 else 'defect'
            for _ in range(rng.choice([0, 1, 1, 1, 2])):
                s, c = mutate_wkt(rng, s); cls = c
            cases.append(Case('T', text_bytes(s), 'wkt:' + cls))
        else:
            s = gj_text(rng, t)
            if rng.random() < 0.15:
                s = '{"type":"Feature","geometry":%s,"properties":%s}' % (s, rng.choice(['{}', 'null', '{"a":[1,{"b":null}]}', '1']))
            elif rng.random() < 0.1:
                s = '{"type":"FeatureCollection","features":[%s]}' % ','.join('{"type":"Feature","geometry":%s,"properties":{}}' % s for _ in range(rng.randint(0, 3)))
            cls = 'valid'
            for _ in range(rng.choice([0, 1, 1, 1, 2])):
                s, c = mutate_json(rng, s); cls = c
            cases.append(Case('J', text_bytes(s), 'geojson:' + cls))
    # ---- truncation at every offset of a few encodings of every type
    for kind in WKB_CODE:
        t = gen_tree(rng, 2, rng.choice([2, 3, 4]), False, kind, 0.0)
        data, _ = wkb_encode(rng, t)
        step = 1 if len(data) < 400 else len(data) // 300
        for k in range(0, len(data), step):
            cases.append(Case('B', data[:k], 'wkb:truncate-all'))
        s = wkt_encode(rng, t)
        step = 1 if len(s) < 400 else len(s) // 300
        for k in range(0, len(s), step):
            cases.append(Case('T', text_bytes(s[:k]), 'wkt:truncate-all'))
        if kind in ('pt', 'ls', 'pg', 'mp', 'ml', 'mg', 'gc'):
            s = gj_text(rng, t)
            step = 1 if len(s) < 300 else len(s) // 200
            for k in range(0, len(s), step):
                cases.append(Case('J', text_bytes(s[:k]), 'geojson:truncate-all'))
    # ---- token soup and number notations (WKT), unstructured random strings (all)
    # ---- dimension flags in both conventions: ISO offsets combined with the EWKB high bits, at the top level and on inner elements
    for i in range(900 if quick else 20000):
        dim = rng.choice([3, 3, 4, 4, 4, 2])
        t = gen_tree(rng, rng.choice([0, 1, 1, 2]), dim, rng.random() < 0.15, None, rng.choice([0.0, 0.0, 0.05]))
        data, marks, contra = wkb_encode_mixed_flags(rng, t, 0.0 if i % 3 else 0.25)
        cls = 'dblflags-contra' if contra else 'dblflags'
        if rng.random() < 0.3:
            data, c = mutate_wkb(rng, data, marks); cls = 'dblflags-' + c
        if i % 5 == 4:
            cases.append(Case('H', data.hex().encode(), 'hex:' + cls))
        else:
            cases.append(Case('B', data, 'wkb:' + cls))
    for _ in range(1500 if quick else 20000):
        n = rng.randint(1, 14)
        s = ''.join(rng.choice(WKT_WORDS + WKT_NUMS + WKT_PUNCT * 4) + rng.choice(['', ' ', ' ']) for _ in range(n))
        cases.append(Case('T', text_bytes(s), 'wkt:token-soup'))
    for num in WKT_NUMS:
        cases.append(Case('T', text_bytes('POINT(%s 1)' % num), 'wkt:number'))
        cases.append(Case('T', text_bytes('LINESTRING(%s 0,1 1,%s 0)' % (num, num)), 'wkt:number'))
        cases.append(Case('T', text_bytes('POLYGON((%s 0,1 1,2 0,%s 0))' % (num, num)), 'wkt:number'))
    for _ in range(600 if quick else 8000):
        n = rng.choice([0, 1, 2, 3, 5, 8, 9, 13, 21, 33, 64, 200, 1000])
        raw = bytes(rng.getrandbits(8) for _ in range(n))
        m = rng.choice('BHTJ')
        if m == 'B' and rng.random() < 0.5 and n >= 5:
            raw = wkb_hdr(rng.randint(1, 12), rng.choice([0, 1, 2, 0xffffffff]))[:5 + rng.choice([0, 4])] + raw
        cases.append(Case(m, raw if m in 'BH' else text_bytes(raw), {'B': 'wkb', 'H': 'hex', 'T': 'wkt', 'J': 'geojson'}[m] + ':random'))
    # ---- nesting: chains of every recursing container, with wrong leaves, unbalanced, up to the model-predicted stack limit and beyond
    depths = [1, 2, 10, 50, 199, 200, 201, 202, 400, 1000, 2000] + ([] if quick else [3000, 5000, 12000])
    for d in depths:
        for code in (7, 4, 5, 6, 9, 10, 11, 12):
            if d > 202 and code not in (7, 4, 11):
                continue
            cases.append(Case('B', wkb_chain(d, code), 'wkb:nest', d))
        cases.append(Case('B', wkb_chain(d, 7, inflate=True), 'wkb:nest-inflated', d))
        cases.append(Case('B', wkb_chain(d, 7, leaf=b''), 'wkb:nest-truncated', d))
        cases.append(Case('H', wkb_chain(d, 7).hex().encode(), 'hex:nest', d))
        for tag in ('GEOMETRYCOLLECTION', 'MULTICURVE', 'COMPOUNDCURVE', 'CURVEPOLYGON', 'MULTISURFACE'):
            if d > 202 and tag not in ('GEOMETRYCOLLECTION', 'MULTICURVE'):
                continue
            leaf = {'GEOMETRYCOLLECTION': 'POINT EMPTY', 'MULTICURVE': '(0 0,1 1)', 'COMPOUNDCURVE': '(0 0,1 1)', 'CURVEPOLYGON': '(0 0,1 0,1 1,0 0)', 'MULTISURFACE': '((0 0,1 0,1 1,0 0))'}[tag]
            cases.append(Case('T', text_bytes(wkt_chain(d, tag, leaf)), 'wkt:nest', d))
        cases.append(Case('T', text_bytes(wkt_chain(d, close=False)), 'wkt:nest-unbalanced', d))
        cases.append(Case('J', text_bytes(gj_chain(d)), 'geojson:nest', d))
        cases.append(Case('J', text_bytes(gj_chain(d, close=False)), 'geojson:nest-unbalanced', d))
        cases.append(Case('J', text_bytes('{"type":"Point","coordinates":' + '[' * d + ']' * d + '}'), 'geojson:array-nest'))
    # ---- every container type nested inside its own type code (the typed containers descend through readChild -> readGeometry),
    #      and mixed, just beyond the limit, well beyond it and as deep as 1 MiB allows: all must be rejected cleanly
    for code in (4, 5, 6, 7, 9, 10, 11, 12):
        for d in (201, 300, 1000, MIB // 9 - 2):
            cases.append(Case('B', wkb_chain(d, code), 'wkb:nest-typed', d))
        cases.append(Case('H', wkb_chain(300, code).hex().encode(), 'hex:nest-typed', 300))
    for d in (201, 300, 1000, MIB // 9 - 2):
        mixed = b''.join(wkb_hdr((4, 5, 6, 7, 9, 10, 11, 12)[i % 8], 1, big=(i % 3 == 0)) for i in range(d)) + wkb_hdr(7, 0)
        cases.append(Case('B', mixed, 'wkb:nest-typed', d))
    for tag, leaf in (('GEOMETRYCOLLECTION', 'POINT EMPTY'), ('MULTICURVE', '(0 0,1 1)'), ('COMPOUNDCURVE', '(0 0,1 1)'), ('CURVEPOLYGON', '(0 0,1 0,1 1,0 0)'),
                      ('MULTISURFACE', '((0 0,1 0,1 1,0 0))')):
        for d in (201, 300, 1000, MIB // (len(tag) + 2) - 4):
            cases.append(Case('T', text_bytes(wkt_chain(d, tag, leaf)), 'wkt:nest-typed', d))
    for d in (201, 300, 1000, MIB // 45 - 2):
        cases.append(Case('J', text_bytes(gj_chain(d)), 'geojson:nest-typed', d))
        cases.append(Case('J', text_bytes('{"type":"Feature","properties":null,"geometry":' + gj_chain(d) + '}'), 'geojson:nest-typed', d))
    # ---- nesting as deep as 1 MiB allows (the model: depth = |input|/9 + 1): predicted stack overflow on the unchanged tree
    cases.append(Case('B', wkb_chain(MIB // 9 - 1), 'wkb:nest-max', MIB // 9))
    cases.append(Case('T', text_bytes(wkt_chain(MIB // 20 - 1)), 'wkt:nest-max', MIB // 20))
    cases.append(Case('T', text_bytes(wkt_chain(MIB // 11 - 1, 'MULTICURVE', '', close=False)), 'wkt:nest-max', MIB // 11))
    cases.append(Case('J', text_bytes(gj_chain(MIB // 45 - 1)), 'geojson:nest-max', MIB // 45))
    cases.append(Case('J', text_bytes('{"type":"Point","coordinates":' + '[' * (MIB - 64)), 'geojson:array-nest-max'))
    # ---- large flat inputs (time / allocation baselines and linearity), up to 1 MiB
    sizes = [MIB // 16, MIB // 4, MIB - 64] if quick else [MIB // 64, MIB // 16, MIB // 4, MIB // 2, MIB - 64]
    for N in sizes:
        cases += flat_cases(rng, N)
        for m in 'BHTJ':
            raw = bytes(rng.getrandbits(8) for _ in range(min(N, MIB // 4))) * max(1, N // (MIB // 4))
            cases.append(Case(m, raw if m in 'BH' else text_bytes(raw), {'B': 'wkb', 'H': 'hex', 'T': 'wkt', 'J': 'geojson'}[m] + ':random-big'))
    return cases


def flat_cases(rng, N):
    out = []
    pt = lambda x, y: b'\x01' + struct.pack('<I', 1) + struct.pack('<dd', x, y)
    k = N // 21
    out.append(Case('B', wkb_hdr(4, k) + b''.join(pt(i % 7, i % 5) for i in range(k)), 'wkb:flat'))
    k = N // 16 - 1
    out.append(Case('B', wkb_hdr(2, k) + struct.pack('<dd', 1.0, 2.0) * k, 'wkb:flat'))
    k = N // 9 - 1
    out.append(Case('B', wkb_hdr(7, k) + wkb_hdr(2, 0) * k, 'wkb:flat'))
    out.append(Case('B', wkb_hdr(7, 0xffffffff) + wkb_hdr(2, 0) * k, 'wkb:flat-count-too-big'))
    k = N // 13 - 1
    out.append(Case('B', wkb_hdr(6, k) + (wkb_hdr(3, 1) + struct.pack('<I', 0)) * k, 'wkb:flat'))
    k = N // 4 - 3
    out.append(Case('B', wkb_hdr(3, k) + struct.pack('<I', 0) * k, 'wkb:flat'))
    k = N // 41
    out.append(Case('B', wkb_hdr(11, k) + (wkb_hdr(2, 2) + struct.pack('<dddd', 0, 0, 1, 1)) * k, 'wkb:flat'))
    out.append(Case('H', (wkb_hdr(4, N // 42) + b''.join(pt(1, 2) for _ in range(N // 42))).hex().encode(), 'hex:flat'))

    def fit(head, item, tail):
        n = max(1, (N - len(head) - len(tail)) // (len(item) + 1))
        return head + ','.join([item] * n) + tail
    out.append(Case('T', text_bytes(fit('MULTIPOINT(', '1 2', ')')), 'wkt:flat'))
    out.append(Case('T', text_bytes(fit('LINESTRING(', '1 2', ')')), 'wkt:flat'))
    out.append(Case('T', text_bytes(fit('GEOMETRYCOLLECTION(', 'POINT EMPTY', ')')), 'wkt:flat'))
    out.append(Case('T', text_bytes(fit('MULTIPOLYGON(', 'EMPTY', ')')), 'wkt:flat'))
    out.append(Case('T', text_bytes(fit('MULTICURVE(', '(0 0,1 1)', ')')), 'wkt:flat'))
    out.append(Case('T', text_bytes('POINT(' + '1' * (N - 16) + ' 2)'), 'wkt:flat-long-token'))
    out.append(Case('T', text_bytes('POINT' + ' ' * (N - 16) + '(1 2)'), 'wkt:flat-whitespace'))
    out.append(Case('T', text_bytes('A' * (N - 8)), 'wkt:flat-long-word'))
    out.append(Case('J', text_bytes(fit('{"type":"MultiPoint","coordinates":[', '[1,2]', ']}')), 'geojson:flat'))
    out.append(Case('J', text_bytes(fit('{"type":"LineString","coordinates":[', '[1,2]', ']}')), 'geojson:flat'))
    out.append(Case('J', text_bytes(fit('{"type":"GeometryCollection","geometries":[', '{"type":"Point","coordinates":[]}', ']}')), 'geojson:flat'))
    out.append(Case('J', text_bytes(fit('{"type":"MultiPolygon","coordinates":[', '[[]]', ']}')), 'geojson:flat'))
    out.append(Case('J', text_bytes('{"type":"Point","coordinates":[1,2],"x":"' + 'a' * (N - 64) + '"}'), 'geojson:flat-long-string'))
    return out


# =============================================================================================== result parsing
def parse_kv(s):
    d = {}
    for w in s.split():
        if '=' in w:
            k, v = w.split('=', 1)
            try:
                d[k] = int(float(v))
            except ValueError:
                d[k] = v
    return d


def parse_model(line):
    if line is None:
        return dict(v='MISSING', stats={})
    if '|' in line:
        head, tail = line.rsplit('|', 1)
    else:
        head, tail = line, ''
    head = head.strip()
    st = parse_kv(tail)
    if head.startswith('ACC '):
        return dict(v='ACC', struct=head[4:], stats=st)
    if head.startswith('ACC? '):
        return dict(v='ACC', struct=head[5:], stats=st, risky=True)      # a non-tame arc: the FP envelope computation may throw
    if head.startswith('REJ'):
        return dict(v='REJ', why=head[4:], stats=st)
    if head.startswith('UB'):
        return dict(v='UB', stats=st)
    return dict(v='MODEL-' + head[:30], stats=st)


def parse_impl(line):
    if line is None:
        return dict(v='MISSING', m={})
    if line.startswith('CRASH') or line == 'TIMEOUT':
        return dict(v=line.split(':')[0], raw=line, m={})
    head, tail = line.rsplit('|', 1) if '|' in line else (line, '')
    head = head.strip(); m = parse_kv(tail)
    if head.startswith('DISAGREE'):
        return dict(v='DISAGREE', raw=head, m=m)
    if head.startswith('ACCERR'):
        return dict(v='ACCERR', raw=head, m=m)
    if head.startswith('ACC '):
        k = head.find(' post=')
        return dict(v='ACC', struct=head[4:k] if k > 0 else head[4:], post=head[k + 6:] if k > 0 else '', m=m)
    if head.startswith('REJ NOMSG'):
        return dict(v='NOMSG', raw=head, m=m)
    if head.startswith('REJ'):
        return dict(v='REJ', msg=head[8:], m=m)
    return dict(v='?' + head[:40], m=m)


# =============================================================================================== configuration read from the source
def detect_cfg(ctx):
    """the two candidate fixes change what the readers must do; whether they are applied is read from /repo's working tree"""
    cfg = dict(guard=False, depth={})
    try:
        src = open(os.path.join(REPO, 'src/geom/CompoundCurve.cpp')).read()
        m = re.search(r'CompoundCurve::validateConstruction\(\) const\s*\{(.*?)\n\}', src, re.S)
        cfg['guard'] = bool(m and re.search(r'isEmpty\(\)', m.group(1)))
        for rd, f, src, use in (('wkb', 'include/geos/io/WKBReader.h', 'src/io/WKBReader.cpp', r'nestingDepth\s*>\s*MAX_NESTING_DEPTH'),
                                 ('wkt', 'include/geos/io/WKTReader.h', 'src/io/WKTReader.cpp', r'nestingDepth\s*>\s*MAX_NESTING_DEPTH'),
                                 ('geojson', 'include/geos/io/GeoJSONReader.h', 'src/io/GeoJSONReader.cpp', r'depth\s*>\s*MAX_NESTING_DEPTH')):
            t = open(os.path.join(REPO, f)).read()
            m = re.search(r'MAX_NESTING_DEPTH\s*=\s*(\d+)', t)
            # the constant counts only if the reader compares its depth counter with it and throws
            if m and re.search(use + r'\)\s*\{\s*throw', open(os.path.join(REPO, src)).read()):
                cfg['depth'][rd] = int(m.group(1))
    except OSError as e:
        ctx.broken.append(dict(kind='build', name='detect_cfg', detail=str(e)))
    return cfg


def write_limits(cfg):
    """Gen/C11_limits.v: the nesting limits and the compound-curve guard as they are in the source now (tie G by script)"""
    from vlib.core import COQ
    def opt(r):
        return 'Some %d' % cfg['depth'][r] if r in cfg['depth'] else 'None'
    txt = ('(* GENERATED by props/C11.py from include/geos/io/{WKBReader,WKTReader,GeoJSONReader}.h, src/io/*Reader.cpp and\n'
           '   src/geom/CompoundCurve.cpp — do not edit, not committed. *)\n'
           'From Coq Require Import ZArith.\nLocal Open Scope Z_scope.\n'
           'Definition wkb_max_nesting : option Z := %s.\nDefinition wkt_max_nesting : option Z := %s.\n'
           'Definition geojson_max_nesting : option Z := %s.\nDefinition compound_guard : bool := %s.\n'
           % (opt('wkb'), opt('wkt'), opt('geojson'), 'true' if cfg['guard'] else 'false'))
    path = os.path.join(COQ, 'theories/Gen/C11_limits.v')
    os.makedirs(os.path.dirname(path), exist_ok=True)
    if not os.path.exists(path) or open(path).read() != txt:
        open(path, 'w').write(txt)


def known_entry(ctx, fid):
    return next((k for k in ctx.known if k.get('id') == fid and k.get('status') == 'known'), None)


# =============================================================================================== the check
def run(ctx):
    quick = ctx.quick
    ctx.cov['rule'] = ('inputs to the 7 reader entry points: structure-aware mutations (counts up to 2^32-1, type codes and flag bits, byte order, truncation at every '
                       'offset, splices, empty sections, special ordinates, token drops / swaps / soups, number notations, wrong JSON types) of own encodings of random trees '
                       'over all 12 geometry types, nesting chains up to the depth 1 MiB allows, flat inputs up to 1 MiB, unstructured random strings; distinct by input bytes; '
                       'non-trivial = the model reads at least one geometry header (WKB/HEX/WKT) or the input is longer than 8 bytes (GeoJSON)')
    ctx.assumptions += [
        'WKB/WKT models abstract the coordinate loop to its byte count and keep first/last XY only; ordinates are bit patterns; little-endian host; floating precision model; fixStructure off',
        'WKT: which tokens are numbers = grammar of what glibc strtod consumes completely in the C locale (checked against the implementation on every run); strtod VALUES are an oracle parameter of the model (OCaml float_of_string in the driver)',
        'GeoJSON: no Gallina model of the vendored JSON parser — the reader is only observed (sanitizers, error message, time, allocation)',
        'stack safety, time and allocation are observed on the real library under ASan+UBSan; the model proves depth is linear in |input| (so no stack bound exists without a nesting limit) and bounds the work / allocation counts',
        'correspondence is sampled (generator quality bounds it)']
    cfg = detect_cfg(ctx)
    D = {r: cfg['depth'].get(r, D_DEFAULT[r]) for r in D_DEFAULT}
    ctx.notes['config_from_source'] = dict(compound_curve_guard=cfg['guard'], nesting_limit=cfg['depth'] or 'none (unchanged tree)', D_known_finding=D)
    write_limits(cfg)
    ok_asan = ctx.build_repo('asan')
    ctx.translate(['C11_minMemSize'])
    ok_coq, ax = ctx.coq_build('Properties_C11')
    drv = ctx.ocaml_driver('C11')
    hexe = os.path.join(BUILD, 'bin', 'c11_asan')
    if not ok_asan or not ctx.cxx(os.path.join(ROOT, 'harness/c11.cpp'), hexe, 'asan'):
        return
    rng = random.Random(ctx.seed)
    cases = []
    corpus = os.path.join(ROOT, 'gen/corpus/C11.txt')
    if os.path.exists(corpus):
        for l in open(corpus):
            l = l.strip()
            if l and not l.startswith('#'):
                w = l.split()
                cases.append(Case(w[0], bytes.fromhex(w[1]) if len(w) > 1 else b'', 'corpus:' + (w[2] if len(w) > 2 else '')))
    cases += gen_cases(rng, quick)
    # ---- reader options: the WKB and WKT reader objects have one option, fix-structure (off by default).  Every corpus case and
    # a third of the generated WKB / HEX / WKT cases are ALSO run through a reader with the option on (lower-case mode), against
    # the model with fix_rings = true.  (The GeoJSON reader and the buffer entry points have no options.)
    opt = []
    for c in cases:
        if c.mode in 'BHT' and len(c.data) <= 262144 and (c.cls.startswith('corpus') or rng.random() < 0.34):
            opt.append(Case(c.mode.lower(), c.data, c.cls + '+fix', c.depth_hint))
    cases += opt
    # distinct inputs only
    seen = set(); uniq = []
    for c in cases:
        h = hashlib.md5(c.mode.encode() + c.data).digest()
        if h not in seen:
            seen.add(h); uniq.append(c)
    cases = uniq
    ctx.log('%d distinct cases generated' % len(cases))
    lines = [c.line() for c in cases]
    # ---- the model first: it decides which inputs are predicted to hit F14 / F2 on the unchanged tree
    margs = [str(cfg['depth']['wkb']) if 'wkb' in cfg['depth'] else 'none', '1' if cfg['guard'] else '0',
             str(cfg['depth']['wkt']) if 'wkt' in cfg['depth'] else 'none']
    mlines = [l for c, l in zip(cases, lines) if c.mode != 'J']
    t0 = time.time()
    mout = run_cases([drv] + margs, mlines, tmo=300, workers=6, unlimited_stack=True) if drv else [None] * len(mlines)
    ctx.log('model: %d cases in %.1fs' % (len(mlines), time.time() - t0))
    it = iter(mout)
    model = [parse_model(next(it)) if c.mode != 'J' else None for c in cases]
    # cap the number of inputs predicted to crash the unchanged tree (each costs a process restart and an ASan report)
    run_idx = []
    n_ub = n_deep = 0
    skipped = {'predicted-UB': 0, 'predicted-deep': 0}
    for i, c in enumerate(cases):
        md = model[i]
        depth = md['stats'].get('dmax', 0) if md else c.depth_hint
        if md and md['v'] == 'UB' and not cfg['guard']:
            n_ub += 1
            if n_ub > (10 if quick else 40) and not c.cls.startswith('corpus'):
                skipped['predicted-UB'] += 1; continue
        elif depth > 2000 and not cfg['depth']:
            n_deep += 1
            if n_deep > (28 if quick else 60):
                skipped['predicted-deep'] += 1; continue
        run_idx.append(i)
    # a single request above 2 GiB or 6 GiB resident is a failure of the reader (it is reported and the process dies) — not a reason to thrash the machine
    os.environ['ASAN_OPTIONS'] = 'max_allocation_size_mb=2048:hard_rss_limit_mb=6000:detect_leaks=1'
    t0 = time.time()
    iout = run_cases([hexe], [lines[i] for i in run_idx], tmo=120 if quick else 300, workers=6)
    ctx.log('implementation (asan): %d cases in %.1fs' % (len(run_idx), time.time() - t0))
    impl = {i: parse_impl(o) for i, o in zip(run_idx, iout)}
    # a wall-clock time-out on a loaded machine is not a hang: such cases are re-run alone with a long limit (CPU time is what is judged)
    retried = 0
    for i in run_idx:
        if impl[i]['v'] == 'TIMEOUT' and retried < 12:
            retried += 1
            impl[i] = parse_impl(_run_chunk([hexe], [lines[i]], 900)[0])
    ctx.notes['wall_clock_timeouts_retried_alone'] = retried

    # ---- calibration of the linear time model on the flat inputs of this run
    def reader_of(c):
        return {'B': 'wkb', 'H': 'wkb', 'T': 'wkt', 'J': 'geojson'}[c.base]
    per_byte = {}
    for i in run_idx:
        c = cases[i]; r = impl[i]
        if ':flat' in c.cls and r['m'].get('cpu_us') is not None and len(c.data) >= MIB // 16:
            per_byte.setdefault(c.base, []).append(r['m']['cpu_us'] / len(c.data))
    a_us = {m: max(v) for m, v in per_byte.items()}
    for m in 'BHTJ':
        a_us.setdefault(m, 1.0)
    ctx.notes['time_calibration_us_per_byte(max over flat inputs)'] = {k: round(v, 4) for k, v in a_us.items()}
    SLACK = 25.0
    T0_US = 30000.0

    def time_limit_us(c, quadw):
        # linear in |input| plus the model's count of nodes walked by GeometryCollection::setSRID (each about as costly as a few input bytes)
        return T0_US + SLACK * a_us[c.base] * (len(c.data) + 8 * quadw)

    def alloc_limit(c, slots):
        return 65536 + 128 * len(c.data) + 8 * slots

    dist = {}; verdicts = {}; postd = {}; dbl = {}
    f14 = known_entry(ctx, 'F14'); f2 = known_entry(ctx, 'F2')
    nviol = 0
    worst_t = {}; worst_a = {}
    for i in run_idx:
        c = cases[i]; r = impl[i]; md = model[i]
        rd = reader_of(c)
        dist[c.cls] = dist.get(c.cls, 0) + 1
        if ':dblflags' in c.cls and md:
            dbl[md['v']] = dbl.get(md['v'], 0) + 1
        mstats = md['stats'] if md else {}
        depth = mstats.get('dmax', c.depth_hint) if md else c.depth_hint
        nontrivial = (mstats.get('nodes', 0) >= 1) if md else len(c.data) > 8
        ctx.count((c.mode, c.data), nontrivial)
        vkey = '%s%s:%s/%s' % (rd, '+fix' if c.mode.islower() else '', md['v'] if md else '-', r['v'])
        verdicts[vkey] = verdicts.get(vkey, 0) + 1
        if r['v'] == 'ACC':
            postd[r['post']] = postd.get(r['post'], 0) + 1
        fail = None
        # (1) containment: crash, sanitizer report, hang, failure without message, geometry with an error, entry points disagreeing
        if r['v'] in ('CRASH', 'TIMEOUT', 'MISSING'):
            fail = 'reader (or an operation on its result) %s: %s' % ('timed out' if r['v'] == 'TIMEOUT' else 'crashed', r.get('raw', '')[:600])
        elif r['v'] == 'NOMSG':
            fail = 'NULL returned without an error message'
        elif r['v'] == 'ACCERR':
            fail = 'a geometry was returned AND the error handler was called: ' + r['raw'][:200]
        elif r['v'] == 'DISAGREE':
            fail = 'two entry points for the same format disagree: ' + r['raw'][:300]
        else:
            # (2) time and allocation
            quadw = mstats.get('quad', 0) if md else (c.depth_hint * c.depth_hint if c.depth_hint else 0)
            slots = mstats.get('slots', 0)
            t_us = r['m'].get('cpu_us', 0); peak = r['m'].get('peak', 0)
            key = (c.mode, c.cls)
            if len(c.data) >= 4096:
                worst_t[key] = max(worst_t.get(key, 0), t_us / len(c.data)); worst_a[key] = max(worst_a.get(key, 0), peak / len(c.data))
            d_ok = depth <= D[rd]
            lim_prop_t = T0_US + SLACK * a_us[c.base] * len(c.data) * (1 + 8 * 2 * (D[rd] + 1) / 5.0)
            lim_prop_a = 65536 + 128 * len(c.data) + 2 * (D[rd] + 1) * len(c.data)
            if t_us > time_limit_us(c, quadw) and (t_us > lim_prop_t or d_ok):
                t2 = recheck_time(hexe, lines[i])
                if t2 is not None and t2 > time_limit_us(c, quadw) and (t2 > lim_prop_t or d_ok):
                    fail = 'CPU time %d us for %d input bytes exceeds the linear budget (%.0f us; model work: quad=%d, depth=%d)' % (t2, len(c.data), time_limit_us(c, quadw), quadw, depth)
            if fail is None and peak > alloc_limit(c, slots) and (peak > lim_prop_a or d_ok):
                fail = 'peak allocation %d bytes for %d input bytes exceeds 64 KiB + 128*|input| + 8*slots(model)=%d' % (peak, len(c.data), alloc_limit(c, slots))
            elif fail is None and peak > lim_prop_a:
                fail = 'peak allocation %d bytes for %d input bytes exceeds the constant multiple (128 + 2*(D+1))*|input| + 64 KiB = %d' % (peak, len(c.data), lim_prop_a)
            elif fail is None and t_us > lim_prop_t:
                t2 = recheck_time(hexe, lines[i])
                if t2 is not None and t2 > lim_prop_t:
                    fail = 'CPU time %d us for %d input bytes exceeds the linear bound for nesting depth <= %d (%.0f us)' % (t2, len(c.data), D[rd], lim_prop_t)
        if fail:
            # classification against the known findings (specific keys only)
            if md and md['v'] == 'UB' and not cfg['guard'] and f14 and r['v'] == 'CRASH':
                ctx.known_hit(f14, f14['what'])
                continue
            if depth > D[rd] and rd not in cfg['depth'] and f2:
                ctx.known_hit(f2, f2['what'])
                continue
            nviol += 1
            if nviol <= 6:
                sh_data = shrink(ctx, hexe, c, r['v']) if r['v'] in ('CRASH', 'TIMEOUT', 'NOMSG', 'ACCERR', 'DISAGREE') else None
                name = '%s_%d' % (rd, i)
                p = os.path.join(ROOT, 'replays', 'C11_case_%s.txt' % hashlib.md5(c.data).hexdigest()[:12])
                open(p, 'w').write('%s %s\n' % (c.mode, (sh_data if sh_data is not None else c.data).hex()))
                ctx.violation(name, dict(entry_points={'B': 'GEOSWKBReader_read_r, GEOSGeomFromWKB_buf_r', 'H': 'GEOSWKBReader_readHEX_r, GEOSGeomFromHEX_buf_r', 'T': 'GEOSWKTReader_read_r, GEOSGeomFromWKT_r', 'J': 'GEOSGeoJSONReader_readGeometry_r',
                                                       'b': 'GEOSWKBReader_read_r after GEOSWKBReader_setFixStructure_r(reader, 1)', 'h': 'GEOSWKBReader_readHEX_r after GEOSWKBReader_setFixStructure_r(reader, 1)',
                                                       't': 'GEOSWKTReader_read_r after GEOSWKTReader_setFixStructure_r(reader, 1)'}[c.mode],
                                         generator_class=c.cls, input_len=len(c.data), input_hex=(c.data.hex() if len(c.data) <= 4096 else c.data[:2048].hex() + '...'),
                                         shrunk_hex=(sh_data.hex() if sh_data is not None and len(sh_data) <= 4096 else None), model=md, implementation=r,
                                         expected='a geometry or NULL with an error message; no crash, no sanitizer report, time and allocation within the stated linear budgets',
                                         replay='%s < %s' % (hexe, p), why=fail), msg=fail)
            continue
        # (3) correspondence with the model: accept / reject, structure, SRID
        if md and r['v'] in ('ACC', 'REJ'):
            mv = 'REJ' if md['v'] == 'UB' else md['v']
            if md['v'].startswith('MODEL') or md['v'] == 'MISSING':
                ctx.broken.append(dict(kind='correspondence', name='model failed on an input', detail='%s\ninput %s %s' % (md, c.mode, c.data[:200].hex())))
            elif md.get('risky') and r['v'] == 'REJ' and re.search(r'orientationIndex_encountered_NaN|Cannot_compute_the_quadrant', r.get('msg', '')):
                verdicts['arc-envelope-exception (model undecided)'] = verdicts.get('arc-envelope-exception (model undecided)', 0) + 1
            elif mv != r['v'] or (mv == 'ACC' and md['struct'] != r['struct']):
                if len([b for b in ctx.broken if b['kind'] == 'correspondence']) < 8:
                    ctx.broken.append(dict(kind='correspondence', name='%s reader %d: model and implementation differ (%s)' % (rd, i, c.cls),
                                           detail='input (%s, %d bytes): %s\nmodel: %s\nimpl:  %s' % (c.mode, len(c.data), c.data[:400].hex(), json.dumps(md)[:600], json.dumps(r)[:600])))
    ctx.cov['traces_validated_against_impl'] = sum(1 for i in run_idx if model[i] is not None)
    ctx.notes['double_dimension_flags(model verdict)'] = dict(sorted(dbl.items()))
    if dbl.get('ACC', 0) < 100 or dbl.get('REJ', 0) < 50:
        ctx.broken.append(dict(kind='generator', name='distribution', detail='too few WKB cases with dimension flags in both conventions: %s' % dbl))
    ctx.notes['distribution'] = dict(sorted(dist.items()))
    ctx.notes['verdicts(model/implementation)'] = dict(sorted(verdicts.items()))
    ctx.notes['post_operation_flags'] = dict(sorted(postd.items(), key=lambda kv: -kv[1])[:12])
    ctx.notes['skipped_predicted_crashes'] = skipped
    ctx.notes['worst_us_per_byte'] = {'%s %s' % k: round(v, 4) for k, v in sorted(worst_t.items(), key=lambda kv: -kv[1])[:8]}
    ctx.notes['worst_peak_bytes_per_byte'] = {'%s %s' % k: round(v, 1) for k, v in sorted(worst_a.items(), key=lambda kv: -kv[1])[:8]}
    for c in cases[:3]:
        ctx.sample('%s %s (%s)' % (c.mode, c.data[:60].hex(), c.cls))
    # number grammar: the model's is_number against the tokenizer's own classification, through a one-coordinate probe
    number_grammar(ctx, drv, hexe, margs, rng)
    # generator self-check: the case splits of the proofs must have been drawn
    need = ['wkb:dblflags', 'hex:dblflags', 'wkb:dblflags-contra', 'wkb:typeflags', 'wkb:count', 'wkb:type', 'wkb:truncate', 'wkb:nest', 'wkb:nest-typed', 'wkt:nest-typed', 'geojson:nest-typed', 'wkb:nest-inflated', 'wkt:nest', 'wkt:token-soup', 'wkt:swap-number', 'hex:hex-badchar', 'geojson:wrong-type', 'wkb:flat', 'wkt:flat', 'geojson:flat']
    for n in need:
        if not any(k.startswith(n) for k in dist):
            ctx.broken.append(dict(kind='generator', name='distribution', detail='no case of class %s was run' % n))
    for want in ('wkb:ACC/ACC', 'wkb:REJ/REJ', 'wkt:ACC/ACC', 'wkt:REJ/REJ', 'wkb+fix:ACC/ACC', 'wkb+fix:REJ/REJ', 'wkt+fix:ACC/ACC', 'wkt+fix:REJ/REJ'):
        if verdicts.get(want, 0) < 50:
            ctx.broken.append(dict(kind='generator', name='distribution', detail='fewer than 50 cases with model/implementation verdict %s' % want))


def recheck_time(hexe, line):
    """a slow case is re-run alone (twice, the smaller CPU time counts) before it is called slow"""
    best = None
    for _ in range(2):
        o = _run_chunk([hexe], [line], 600)[0]
        r = parse_impl(o)
        t = r['m'].get('cpu_us')
        if t is None:
            return None
        best = t if best is None else min(best, t)
    return best


def number_grammar(ctx, drv, hexe, margs, rng):
    """is_number (model) vs StringTokenizer's strtod test: POINT(<tok> 0) is accepted iff <tok> is a number token"""
    toks = list(WKT_NUMS)
    alphabet = '0123456789+-.eExXpPaAfFiInN\x0b\x0c'
    for _ in range(1500 if ctx.quick else 20000):
        toks.append(''.join(rng.choice(alphabet) for _ in range(rng.randint(1, 7))))
    toks = [t for t in dict.fromkeys(toks) if t and not any(ch in t for ch in ' \t\r\n(),\x00')]
    if not drv:
        return
    mo = run_cases([drv] + margs, ['N ' + text_bytes(t).hex() for t in toks], tmo=120, workers=2, unlimited_stack=True)
    io = run_cases([hexe], ['T ' + text_bytes('POINT(%s 0)' % t).hex() for t in toks], tmo=120, workers=4)
    bad = 0; n_num = 0
    for t, m, o in zip(toks, mo, io):
        r = parse_impl(o)
        ctx.count(('N', t), True)
        is_num_impl = r['v'] == 'ACC'
        n_num += is_num_impl
        if (m == 'NUM') != is_num_impl and bad < 5:
            bad += 1
            ctx.broken.append(dict(kind='correspondence', name='number token grammar', detail='token %r: model says %s, POINT(tok 0) is %s' % (t, m, r['v'])))
    ctx.notes['number_tokens'] = dict(probed=len(toks), numbers=n_num)


def shrink(ctx, hexe, c, kind):
    """delta-debugging light: truncate / delete chunks while the same kind of failure persists"""
    def fails(data):
        o = _run_chunk([hexe], ['%s %s' % (c.mode, data.hex())], 60)[0]
        return parse_impl(o)['v'] == kind
    try:
        cur = c.data
        if len(cur) > 200000 or not fails(cur):
            return None
        budget = 120
        step = max(1, len(cur) // 2)
        while step >= 1 and budget > 0:
            i = 0
            while i < len(cur) and budget > 0:
                cand = cur[:i] + cur[i + step:]
                budget -= 1
                if fails(cand):
                    cur = cand
                else:
                    i += step
            step //= 2
        return cur
    except Exception:
        return None
