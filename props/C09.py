"""C09 — WKB and HEX writing followed by reading is the identity, bit for bit.

proof:   coq/theories/Lib/Bytes.v, coq/theories/C09/*.v, Properties_C09.v  (write/read cycle = `expect` for every configuration and every
         well-formed geometry tree; `expect` = what the property text promises on regular trees; re-write fixpoint; byte orders;
         HEX; type word sweep)
tie:     G  the six integer functions of src/io/ByteOrderValues.cpp are translated from the clang AST on every run (Gen/BO_*.v,
         translator/units/C09.py) and proved equal to the hand model's little/big-endian words, with their round trips and the
         byte-order reversal (C09/BOProofs.v, BOTheorems.v);
         M  the model (WKBDefs.v) extracted to OCaml runs beside the real writer/reader (C API objects and the context-level
         legacy functions, binary and HEX) on generated geometry trees x all 24 writer configurations (+ 6 legacy ones):
         implementation bytes == model bytes, implementation re-read (through accessors) == model re-read == `expect`;
         a second stream feeds mutated encodings to both readers.
"""
import os, random
from vlib.core import ROOT, BUILD

# ------------------------------------------------------------------------------------------------ words
NAN = '7ff8000000000000'
SPECIAL = ['0000000000000000', '8000000000000000', '3ff0000000000000', 'bff0000000000000', '4000000000000000',
           '7ff0000000000000', 'fff0000000000000', NAN, '7ff8000000000001', '7ff0000000000001', 'fff8000000000000',
           'ffffffffffffffff', '7ff4000000000000', '0000000000000001', '000fffffffffffff', '800fffffffffffff',
           '0010000000000000', '7fefffffffffffff', 'ffefffffffffffff', '3ff0000000000001', '4340000000000000',
           '400921fb54442d18', 'c05ec00000000000', '0123456789abcdef', 'fedcba9876543210', '00000000000000ff', 'ff00000000000000']


def is_nan(w):
    v = int(w, 16)
    return (v & 0x7ff0000000000000) == 0x7ff0000000000000 and (v & 0x000fffffffffffff) != 0


def word(rng, nonan=False):
    while True:
        r = rng.random()
        if r < 0.55:
            w = rng.choice(SPECIAL)
        elif r < 0.8:
            w = '%016x' % rng.getrandbits(64)
        else:
            import struct
            w = '%016x' % struct.unpack('<Q', struct.pack('<d', float(rng.randint(-20, 20))))[0]
        if not (nonan and is_nan(w)):
            return w


DIMS = ['XY', 'XYZ', 'XYM', 'XYZM']
NORD = {'XY': 2, 'XYZ': 3, 'XYM': 3, 'XYZM': 4}


def coordinate(rng, dims, xy=None, nonan=False):
    c = list(xy) if xy else [word(rng, nonan), word(rng, nonan)]
    return tuple(c + [word(rng) for _ in range(NORD[dims] - 2)])


def feq_variant(rng, xy):
    """a coordinate pair that compares equal as doubles: same bits, or the other zero"""
    out = []
    for w in xy:
        if w in ('0000000000000000', '8000000000000000') and rng.random() < 0.5:
            w = rng.choice(['0000000000000000', '8000000000000000'])
        out.append(w)
    return out


# ------------------------------------------------------------------------------------------------ trees
# ('PT'|'LS'|'LR'|'CS', srid, (dims, [coords]))   ('PG', srid, [(dims,[coords])...])   ('CC', srid, [simple...])
# ('CP', srid, [curves...])   ('MP'|'ML'|'MG'|'GC'|'MC'|'MS', srid, [geoms])
SIMPLE = ('LS', 'LR', 'CS')
COLL = ('MP', 'ML', 'MG', 'GC', 'MC', 'MS')


def seq_text(s):
    return ' '.join([s[0], str(len(s[1]))] + [w for c in s[1] for w in c])


def text(g):
    t = g[0]
    if t in ('PT',) + SIMPLE:
        return '%s %d %s' % (t, g[1], seq_text(g[2]))
    if t == 'PG':
        return 'PG %d %d %s' % (g[1], len(g[2]), ' '.join(seq_text(s) for s in g[2]))
    return '%s %d %d%s' % (t, g[1], len(g[2]), ''.join(' ' + text(k) for k in g[2]))


def levels(g):
    if g[0] in ('PT',) + SIMPLE: return 1
    if g[0] == 'PG': return 1
    return 1 + max([levels(k) for k in g[2]] + [0])


def has_empty(g):
    if g[0] in ('PT',) + SIMPLE: return len(g[2][1]) == 0
    if g[0] == 'PG': return any(len(s[1]) == 0 for s in g[2])
    return len(g[2]) == 0 or any(has_empty(k) for k in g[2])


def f14_danger(g):
    """formerly F14 (compound curve with >= 2 sections one of which is empty crashed the constructor); fixed in /repo 2877c60bd:
    the constructor throws, such trees belong to the invalid stream now"""
    return False


def set_srid_tree(g, srid):
    """what GEOSSetSRID_r does: the node, and every element of a collection"""
    if g[0] in COLL:
        return (g[0], srid, [set_srid_tree(k, srid) for k in g[2]])
    return (g[0], srid, g[2])


class Gen:
    def __init__(self, rng, quick):
        self.rng = rng; self.quick = quick

    def npts(self, lo):
        r = self.rng.random()
        if r < 0.6: return lo + self.rng.randint(0, 2)
        if r < 0.95: return lo + self.rng.randint(0, 6)
        return lo + self.rng.randint(0, 30 if self.quick else 120)

    def line_seq(self, dims, start=None, empty_ok=True):
        rng = self.rng
        if empty_ok and start is None and rng.random() < 0.15:
            return (dims, [])
        n = self.npts(2)
        cs = [coordinate(rng, dims, xy=start, nonan=True)] + [coordinate(rng, dims) for _ in range(n - 2)] + [coordinate(rng, dims, nonan=True)]
        return (dims, cs)

    def circ_seq(self, dims, start=None, empty_ok=True):
        rng = self.rng
        if empty_ok and start is None and rng.random() < 0.15:
            return (dims, [])
        if start is None and rng.random() < 0.05:
            return (dims, [coordinate(rng, dims)])          # a single point is accepted by CircularString
        n = self.npts(3)
        cs = [coordinate(rng, dims, xy=start, nonan=True)] + [coordinate(rng, dims) for _ in range(n - 2)] + [coordinate(rng, dims, nonan=True)]
        return (dims, cs)

    def ring_seq(self, dims, empty_ok=True):
        rng = self.rng
        if empty_ok and rng.random() < 0.15:
            return (dims, [])
        n = self.npts(3)
        first = coordinate(rng, dims, nonan=True)
        last = coordinate(rng, dims, xy=feq_variant(rng, first[:2]))
        return (dims, [first] + [coordinate(rng, dims) for _ in range(n - 2)] + [last])

    def point(self, dims):
        rng = self.rng
        r = rng.random()
        if r < 0.15: return ('PT', 0, (dims, []))
        if r < 0.25:                                       # X and Y NaN: the encoding of POINT EMPTY
            nanw = [w for w in SPECIAL if is_nan(w)]
            return ('PT', 0, (dims, [coordinate(rng, dims, xy=[rng.choice(nanw), rng.choice(nanw)])]))
        if r < 0.32:                                       # only one of X, Y NaN
            xy = [rng.choice([w for w in SPECIAL if is_nan(w)]), word(rng, nonan=True)]
            rng.shuffle(xy)
            return ('PT', 0, (dims, [coordinate(rng, dims, xy=xy)]))
        return ('PT', 0, (dims, [coordinate(rng, dims)]))

    def simple(self, dims, kinds=SIMPLE, start=None, empty_ok=True):
        k = self.rng.choice(kinds)
        if k == 'LS': return ('LS', 0, self.line_seq(dims, start, empty_ok))
        if k == 'CS': return ('CS', 0, self.circ_seq(dims, start, empty_ok))
        if start is not None:                              # a ring continuing a compound curve: closed through `start`
            n = self.npts(3)
            first = coordinate(self.rng, dims, xy=start, nonan=True)
            last = coordinate(self.rng, dims, xy=feq_variant(self.rng, first[:2]))
            return ('LR', 0, (dims, [first] + [coordinate(self.rng, dims) for _ in range(n - 2)] + [last]))
        return ('LR', 0, self.ring_seq(dims, empty_ok))

    def dims_for(self, base, mixed):
        return self.rng.choice(DIMS) if mixed else base

    def polygon(self, dims, mixed=False, exotic_empty=False):
        rng = self.rng
        if exotic_empty:                                   # empty shell with empty holes
            return ('PG', 0, [(dims, [])] + [(self.dims_for(dims, mixed), []) for _ in range(rng.randint(1, 2))])
        if rng.random() < 0.15:
            return ('PG', 0, [(dims, [])])
        nh = rng.choice([0, 0, 1, 2, 3])
        rings = [self.ring_seq(dims, empty_ok=False)]
        for _ in range(nh):
            rings.append(self.ring_seq(self.dims_for(dims, mixed), empty_ok=rng.random() < 0.3))
        return ('PG', 0, rings)

    def compound(self, dims, mixed=False, sub_srid=False, kinds=SIMPLE):
        rng = self.rng
        n = rng.choice([0, 1, 1, 2, 2, 3, 4])
        secs, start = [], None
        for _ in range(n):
            s = self.simple(self.dims_for(dims, mixed), kinds=kinds if kinds else SIMPLE, start=start, empty_ok=False)
            if sub_srid and rng.random() < 0.6:
                s = (s[0], rng.choice([7, 4326, -3]), s[2])
            secs.append(s)
            start = feq_variant(rng, s[2][1][-1][:2])
        return ('CC', 0, secs)

    def curve(self, dims, mixed=False, sub_srid=False, empty_ok=True):
        rng = self.rng
        if rng.random() < 0.3:
            c = self.compound(dims, mixed, sub_srid)
            if not empty_ok and not c[2]:
                c = ('CC', 0, [self.simple(dims, empty_ok=False)])
        else:
            c = self.simple(self.dims_for(dims, mixed), empty_ok=empty_ok)
        if sub_srid and rng.random() < 0.6:
            c = (c[0], rng.choice([9, 4326, -2]), c[2])
        return c

    def curvepoly(self, dims, mixed=False, sub_srid=False, exotic_empty=False):
        rng = self.rng
        if exotic_empty:                                   # empty shell that is not the canonical empty LinearRing, or empty holes
            shell = rng.choice([('CS', 0, (dims, [])), ('LS', 0, (dims, [])), ('CC', 0, []), ('LR', 0, (dims, []))])
            holes = [rng.choice([('CS', 0, (dims, [])), ('LR', 0, (dims, [])), ('CC', 0, [])]) for _ in range(rng.randint(0 if shell[0] != 'LR' else 1, 2))]
            return ('CP', 0, [shell] + holes)
        if rng.random() < 0.12:
            return ('CP', 0, [('LR', 0, (dims, []))])       # what GEOSGeom_createEmptyCurvePolygon / the reader build
        nh = rng.choice([0, 0, 1, 2])
        rings = [self.curve(dims, mixed, sub_srid, empty_ok=False)]
        for _ in range(nh):
            rings.append(self.curve(dims, mixed, sub_srid, empty_ok=rng.random() < 0.2))
        return ('CP', 0, rings)

    def geom(self, depth, dims, mixed_elems=False, mixed_rings=False, sub_srid=False, allowed=None):
        rng = self.rng
        kinds = allowed or ['PT', 'LS', 'LR', 'CS', 'PG', 'CC', 'CP', 'MP', 'ML', 'MG', 'GC', 'MC', 'MS']
        if depth <= 0:
            kinds = [k for k in kinds if k not in COLL] or ['PT']
        k = rng.choice(kinds)
        d = self.dims_for(dims, mixed_elems)
        if k == 'PT': return self.point(d)
        if k in SIMPLE: return self.simple(d, kinds=(k,))
        if k == 'PG': return self.polygon(d, mixed_rings)
        if k == 'CC': return self.compound(d, mixed_rings, sub_srid)
        if k == 'CP': return self.curvepoly(d, mixed_rings, sub_srid)
        n = rng.choice([0, 1, 1, 2, 2, 3, 5])
        sub = {'MP': ['PT'], 'ML': ['LS', 'LS', 'LR'], 'MG': ['PG'], 'MC': ['LS', 'LR', 'CS', 'CC'], 'MS': ['PG', 'CP'], 'GC': None}[k]
        return (k, 0, [self.geom(depth - 1, dims, mixed_elems, mixed_rings, sub_srid, allowed=sub) for _ in range(n)])

    SRIDS = [0, 0, 4326, 1, -1, 2147483647, -2147483648, 3857, 536870912, 32767]

    def case(self):
        """returns (label, tree). labels: regular | mixed-dims | empty-surface | sub-srid | own-output-rejected | invalid"""
        rng = self.rng
        r = rng.random()
        dims = rng.choice(DIMS)
        depth = rng.choice([0, 0, 1, 1, 2, 3])
        if r < 0.62:
            g = self.geom(depth, dims, mixed_elems=rng.random() < 0.5); label = 'regular'
        elif r < 0.72:
            g = rng.choice([lambda: self.polygon(dims, mixed=True), lambda: self.compound(dims, mixed=True),
                            lambda: self.geom(depth, dims, True, True)])(); label = 'mixed-dims'
        elif r < 0.79:
            g = rng.choice([lambda: self.polygon(dims, exotic_empty=True), lambda: self.curvepoly(dims, exotic_empty=True)])()
            if rng.random() < 0.4: g = (rng.choice(['GC', 'MS']), 0, [g, self.polygon(dims)])
            label = 'empty-surface'
        elif r < 0.86:
            g = rng.choice([lambda: self.compound(dims, sub_srid=True), lambda: self.curvepoly(dims, sub_srid=True),
                            lambda: ('GC', 0, [self.curvepoly(dims, sub_srid=True), self.point(dims)]),
                            lambda: ('MC', 0, [self.compound(dims, sub_srid=True)])])(); label = 'sub-srid'
        elif r < 0.89:
            label = 'own-output-rejected'                   # COMPOUNDCURVE with a single EMPTY section: accepted by the constructor, 18 bytes written
            g = ('CC', 0, [(rng.choice(['LS', 'CS']), 0, (dims, []))])
            if rng.random() < 0.5: g = ('GC', 0, [g] + ([self.point(dims)] if rng.random() < 0.5 else []))
        else:
            g = self.invalid(dims); label = 'invalid'
        g = set_srid_tree(g, rng.choice(self.SRIDS))
        return label, g

    def invalid(self, dims):
        """trees the real constructors must refuse"""
        rng = self.rng
        c = rng.randint(0, 9)
        if c == 0: g = ('LS', 0, (dims, [coordinate(rng, dims)]))
        elif c == 1: g = ('CS', 0, (dims, [coordinate(rng, dims), coordinate(rng, dims)]))
        elif c == 2:                                        # ring not closed (different end, or NaN start)
            s = self.ring_seq(dims, empty_ok=False)
            cs = list(s[1])
            if rng.random() < 0.5: cs[-1] = coordinate(rng, dims, xy=['4059000000000000', '4059000000000000'])
            else: cs[0] = coordinate(rng, dims, xy=[NAN, cs[0][1]]); cs[-1] = coordinate(rng, dims, xy=[NAN, cs[0][1]])
            g = ('LR', 0, (dims, cs))
        elif c == 3:                                        # closed but too short
            p = coordinate(rng, dims, nonan=True)
            g = ('LR', 0, (dims, [p] * rng.choice([1, 2])))
        elif c == 4:                                        # polygon ring too short
            p = coordinate(rng, dims, nonan=True)
            g = ('PG', 0, [(dims, [p, p])])
        elif c == 5:                                        # empty shell, non-empty hole
            g = ('PG', 0, [(dims, []), self.ring_seq(dims, empty_ok=False)])
        elif c == 6:                                        # compound curve not contiguous
            a = self.line_seq(dims, empty_ok=False)
            b = self.line_seq(dims, start=['4059000000000000', 'c059000000000000'], empty_ok=False)
            g = ('CC', 0, [('LS', 0, a), ('LS', 0, b)])
        elif c == 7:                                        # two coordinates in a point
            g = ('PT', 0, (dims, [coordinate(rng, dims), coordinate(rng, dims)]))
        elif c == 8:                                        # Multi* with an element of another class (refused since 4731a8595)
            k = rng.choice(['MP', 'ML', 'MG'])
            wrong = {'MP': ['LS', 'PG', 'CS'], 'ML': ['PT', 'PG', 'CS', 'CC'], 'MG': ['PT', 'LS', 'CP']}[k]
            g = (k, 0, [self.geom(0, dims, allowed=wrong)] + [self.geom(0, dims, allowed={'MP': ['PT'], 'ML': ['LS'], 'MG': ['PG']}[k]) for _ in range(rng.randint(0, 2))])
        else:                                               # compound curve with an empty section among >= 2 (refused since 2877c60bd, was F14)
            a = self.line_seq(dims, empty_ok=False)
            secs = [('LS', 0, a), (rng.choice(['LS', 'CS']), 0, (dims, []))]
            rng.shuffle(secs)
            g = ('CC', 0, secs)
        if rng.random() < 0.3:
            g = ('GC', 0, [self.point(dims), g])
        return g


# ------------------------------------------------------------------------------------------------ shrinking
def shrink_candidates(g):
    t = g[0]
    if t in ('PT',) + SIMPLE:
        dims, cs = g[2]
        if t == 'PT': return
        if len(cs) > 2:
            for i in range(1, len(cs) - 1):
                yield (t, g[1], (dims, cs[:i] + cs[i + 1:]))
        if cs:
            yield (t, g[1], (dims, []))
        return
    if t == 'PG':
        rings = g[2]
        for i in range(1, len(rings)):
            yield ('PG', g[1], rings[:i] + rings[i + 1:])
        for i, (dims, cs) in enumerate(rings):
            if len(cs) > 4:
                for j in range(1, len(cs) - 1):
                    yield ('PG', g[1], rings[:i] + [(dims, cs[:j] + cs[j + 1:])] + rings[i + 1:])
        return
    kids = g[2]
    for k in kids:
        yield set_srid_tree(k, g[1]) if t in COLL else k        # replace by an element
    for i in range(len(kids)):
        if t == 'CC' and 0 < i < len(kids) - 1: continue       # keeps contiguity
        if t == 'CP' and i == 0 and len(kids) > 1: continue
        yield (t, g[1], kids[:i] + kids[i + 1:])
    for i, k in enumerate(kids):
        if t == 'CC': continue
        for k2 in shrink_candidates(k):
            yield (t, g[1], kids[:i] + [k2] + kids[i + 1:])


# ------------------------------------------------------------------------------------------------ the check
CFGS = [b + f + d + s for b in 'LB' for f in 'EI' for d in '234' for s in 'NS'] + ['leg' + b + 'E' + d + 'N' for b in 'LB' for d in '234']
KNOWN_CLASSES = ('mixed-dims', 'empty-surface', 'sub-srid', 'own-output-rejected', 'nan-point-rewrite')


def split_model(line):
    parts = line.split(' ; ')
    ideal = parts[-1][6:] if parts and parts[-1].startswith('IDEAL=') else ''
    head = parts[0]
    return head, parts[1:-1] if ideal else parts[1:], ideal


def classify(label, g, cfgname, sec):
    """which documented deviation class (known_findings.json key) explains a cycle that is not what the property text promises"""
    if '!REWRITE-DIFFERS' in sec and 'PT ' in text(g):
        return 'nan-point-rewrite'
    return label if label in KNOWN_CLASSES else None


def compare_case(ctx, label, g, mline, iline):
    """returns list of (kind, cfg, detail); kind in violation | broken | known:<class>"""
    out = []
    head, msecs, ideal = split_model(mline)
    if mline.startswith('BAD-LINE') or iline.startswith('BAD-LINE'):
        return [('broken', '-', 'line not parsed: model %s / impl %s' % (mline[:100], iline[:100]))]
    wf = 'WF=1' in head; reg = 'REG=1' in head
    if iline.startswith('CRASH') or iline == 'TIMEOUT' or iline == 'MISSING':
        return [('violation', '-', 'implementation %s' % iline[:300])]
    if iline.startswith('CONSTRUCT-FAIL'):
        if wf:
            out.append(('broken', '-', 'model says well-formed, the constructors refuse: ' + iline[:200]))
        return out
    isecs = iline.split(' ; ')
    if not wf and label not in ('own-output-rejected',):
        out.append(('broken', '-', 'model says not well-formed (wf = false) but the constructors accept the tree'))
    if isecs[0] != 'ORIG=' + text(g):
        out.append(('broken', 'ORIG', 'the constructed geometry read through the accessors is not the described one: ' + isecs[0][:300]))
        return out
    if msecs[0] != isecs[0]:
        out.append(('broken', 'ORIG', 'model echo differs'))
    rereads = {}
    for k, name in enumerate(CFGS):
        ms = msecs[k + 1] if k + 1 < len(msecs) else 'MISSING'
        isx = isecs[k + 1] if k + 1 < len(isecs) else 'MISSING'
        if not isx.startswith(name + '='):
            out.append(('broken', name, 'unexpected section ' + isx[:80])); continue
        rereads[name] = (isx.split('>', 1)[1] if '>' in isx else '').split(' !')[0]
        if ms != isx:
            mh, mr = (ms.split('=', 1)[1].split('>', 1) + [''])[:2]
            ih, ir = (isx.split('=', 1)[1].split('>', 1) + [''])[:2]
            what = []
            if mh != ih: what.append('bytes differ: implementation wrote %s, the proven codec writes %s' % (ih[:400], mh[:400]))
            if mr != ir: what.append('re-read differs: implementation %s, proven codec %s' % (ir[:400], mr[:400]))
            out.append(('violation', name, '; '.join(what)))
            continue
        ok_ideal = k < len(ideal) and ideal[k] == '1'
        rew = '!REWRITE-DIFFERS' in isx
        if not ok_ideal or rew or '!' in isx:
            cls = classify(label, g, name, isx)
            if '!HEXW' in isx or '!READHEX' in isx or '!FLAGS' in isx or '!ORDINATE' in isx or '!COPY' in isx:
                out.append(('violation', name, 'marker in implementation output: ' + isx[-200:]))
            elif reg and wf and not rew and ok_ideal:
                pass
            elif reg and wf and cls != 'nan-point-rewrite':
                out.append(('violation', name, 'regular tree but the cycle is not what the property promises: ' + isx[:300]))
            elif cls:
                out.append(('known:' + cls, name, isx[:200]))
            else:
                out.append(('violation', name, 'cycle deviates from the property text outside the documented classes (label %s): %s' % (label, isx[:300])))
    # the two byte orders encode the same value
    for name, rr in rereads.items():
        if name.startswith('L') and rereads.get('B' + name[1:], rr) != rr:
            out.append(('violation', name, 'byte orders decode differently: %s vs %s' % (rr[:200], rereads['B' + name[1:]][:200])))
    return out


def mutate_hex(rng, hx, rounds=1):
    b = bytearray.fromhex(hx)
    for _ in range(rounds):
        if not b: break
        r = rng.random()
        if r < 0.2 and len(b) > 1:
            b = b[:rng.randint(0, len(b) - 1)]
        elif r < 0.45:
            i = rng.randrange(len(b)); b[i] ^= 1 << rng.randrange(8)
        elif r < 0.6:
            i = rng.randrange(len(b)); b[i] = rng.choice([0, 1, 2, 255, 0x20, 0x80, 0x40, 3, 0xe8])
        elif r < 0.75 and len(b) >= 5:                          # type word high byte / SRID flag games
            i = 4 if b[0] == 1 else 1
            b[i] = rng.choice([0x20, 0xa0, 0xe0, 0x60, 0x00, 0x80, 0x10])
        elif r < 0.85:
            i = rng.randrange(len(b) + 1); b[i:i] = bytes(rng.randrange(256) for _ in range(rng.choice([1, 4, 8])))
        else:
            i = rng.randrange(len(b)); del b[i:i + rng.choice([1, 4, 8])]
    s = bytes(b).hex().upper()
    if rng.random() < 0.1: s = s.lower()
    if rng.random() < 0.04: s = s[:-1]
    if rng.random() < 0.04 and s:
        i = rng.randrange(len(s)); s = s[:i] + rng.choice('gGxzZ@`/:') + s[i + 1:]
    return s


def run(ctx):
    ctx.cov['rule'] = ('geometry trees over all 13 type codes (nesting depth <= 4, empties at every level, XY/XYZ/XYM/XYZM uniform and mixed per element, '
                       'ordinates from a pool of IEEE corner patterns + random 64-bit words) x 24 writer configurations + 6 legacy ones, binary and HEX; '
                       'non-trivial = tree with >= 2 levels or >= 1 empty component; distinct by tree text')
    ctx.assumptions += [
        'ordinates are opaque 64-bit words: the model assumes doubles are moved without being altered (checked by the tie on NaN payloads, signalling NaNs, -0, denormals)',
        'default GeometryFactory (floating precision model: makePrecise is the identity), fixStructure off, little-endian machine',
        'polygon rings carry no SRID in the model; compound-curve sections and curve-polygon rings do',
        'correspondence is sampled (generator quality bounds it)']
    ok_build = ctx.build_repo('rel')
    # tie G: the byte-order codec (ByteOrderValues::get/putInt, get/putUnsigned, get/putLong) is regenerated from the C++ on every
    # run; Properties_C09 proves the generated functions equal to the hand model's words (Lib/Bytes) and their round trips
    from translator.units import BY_PROPERTY
    ctx.translate(BY_PROPERTY.get('C09', []))
    ok_coq, ax = ctx.coq_build('Properties_C09')
    drv = ctx.ocaml_driver('C09')
    hexe = os.path.join(BUILD, 'bin', 'c09')
    if not ok_build or not ctx.cxx(os.path.join(ROOT, 'harness/c09.cpp'), hexe, 'rel') or not drv:
        return
    flavours = [('rel', hexe)]
    if not ctx.quick and ctx.build_repo('asan'):
        hasan = os.path.join(BUILD, 'bin', 'c09_asan')
        if ctx.cxx(os.path.join(ROOT, 'harness/c09.cpp'), hasan, 'asan'):
            flavours.append(('asan', hasan))
    n_cases = 500 if ctx.quick else 6000
    gen = Gen(ctx.rng, ctx.quick)
    cases = []
    corpus = os.path.join(ROOT, 'gen/corpus/C09.txt')
    if os.path.exists(corpus):
        for l in open(corpus):
            l = l.strip()
            if l and not l.startswith('#'):
                lab, t = l.split('\t')
                import ast
                cases.append((lab, ast.literal_eval(t)))
    while len(cases) < n_cases:
        lab, g = gen.case()
        if f14_danger(g):
            continue
        cases.append((lab, g))
    lines = ['G ' + text(g) for _, g in cases]
    model = ctx.run_lines([drv], lines, timeout=1500)
    dist = {'labels': {}, 'types': {}, 'dims': {}, 'wf': {'1': 0, '0': 0}, 'regular': {'1': 0, '0': 0}}
    env = dict(os.environ, ASAN_OPTIONS='detect_leaks=0')
    known_seen = {}
    nviol = 0
    for fl, exe in flavours:
        impl = ctx.run_lines([exe], lines, timeout=1500, env=env)
        for idx, (lab, g) in enumerate(cases):
            ml = model[idx] if idx < len(model) else 'MISSING'
            il = impl[idx] if idx < len(impl) else 'MISSING'
            ctx.count((fl, lines[idx]), levels(g) >= 2 or has_empty(g))
            if fl == 'rel':
                dist['labels'][lab] = dist['labels'].get(lab, 0) + 1
                for tk in lines[idx].split():
                    if tk in ('PT', 'LS', 'LR', 'CS', 'PG', 'CC', 'CP') + COLL: dist['types'][tk] = dist['types'].get(tk, 0) + 1
                    elif tk in NORD: dist['dims'][tk] = dist['dims'].get(tk, 0) + 1
                dist['wf']['1' if 'WF=1' in ml[:12] else '0'] += 1
                dist['regular']['1' if 'REG=1' in ml[:12] else '0'] += 1
            res = compare_case(ctx, lab, g, ml, il)
            for kind, cfgname, detail in res:
                if kind.startswith('known:'):
                    cls = kind[6:]
                    ent = ctx.known_match(lambda k: k.get('key', {}).get('class') == cls)
                    if ent:
                        if cls not in known_seen:
                            known_seen[cls] = lines[idx][:300]
                            ctx.known_hit(ent)
                    else:
                        kind = 'violation'; detail = 'deviation class %s is not listed in known_findings.json: %s' % (cls, detail)
                if kind == 'broken':
                    ctx.broken.append(dict(kind='correspondence', name='C09 %s %s' % (cfgname, lab), detail='%s\ncase: %s' % (detail, lines[idx][:2000])))
                elif kind == 'violation':
                    nviol += 1
                    if nviol <= 6:
                        sh = shrink(ctx, drv, exe, lab, g)
                        ctx.violation('%s_%d_%s' % (fl, idx, cfgname), dict(flavour=fl, label=lab, configuration=cfgname, geometry=lines[idx], shrunk=sh,
                                      what=detail, model_line=ml[:6000], implementation_line=il[:6000],
                                      replay="echo '%s' | %s   # and the proven codec: | %s" % (sh or lines[idx], exe, drv)), msg='%s %s: %s' % (lab, cfgname, detail[:300]))
            if nviol > 6:
                break
    ctx.cov['traces_validated_against_impl'] = ctx.cov['evaluations']
    ctx.notes['distribution'] = dist
    ctx.notes['known_classes_seen'] = known_seen
    for l in lines[:4]:
        ctx.sample(l[:300])
    if nviol > 6:
        return          # the search already produced concrete failing inputs; the distribution below is incomplete
    # generator self-check: every type code, every dimensionality, every label, and some NaN-point / ring cases were drawn
    for need in ('PT', 'LS', 'LR', 'CS', 'PG', 'CC', 'CP') + COLL:
        if dist['types'].get(need, 0) == 0:
            ctx.broken.append(dict(kind='generator', name='distribution', detail='no %s generated' % need))
    for need in NORD:
        if dist['dims'].get(need, 0) == 0:
            ctx.broken.append(dict(kind='generator', name='distribution', detail='no %s sequence generated' % need))
    reader_stream(ctx, drv, hexe, model, cases)


def fails(ctx, drv, exe, lab, g):
    if f14_danger(g): return False
    l = ['G ' + text(g)]
    m = ctx.run_lines([drv], l, timeout=60)[0]
    i = ctx.run_lines([exe], l, timeout=60)[0]
    return any(k == 'violation' for k, _, _ in compare_case(ctx, lab, g, m, i))


def shrink(ctx, drv, exe, lab, g):
    try:
        if not fails(ctx, drv, exe, lab, g):
            return None
        budget = 150
        progress = True
        while progress and budget > 0:
            progress = False
            for cand in shrink_candidates(g):
                budget -= 1
                if budget <= 0: break
                if fails(ctx, drv, exe, lab, cand):
                    g = cand; progress = True
                    break
        return 'G ' + text(g)
    except Exception:
        return None


def reader_stream(ctx, drv, hexe, model, cases):
    """mutated model-written encodings through both readers: same accept / reject decision, same tree"""
    rng = ctx.rng
    pool = []
    for idx, ml in enumerate(model):
        if cases[idx][0] == 'invalid' or ' ; ' not in ml: continue
        secs = ml.split(' ; ')
        for s in rng.sample(secs[2:26], 2) if len(secs) > 26 else []:
            hx = s.split('=', 1)[1].split('>', 1)[0]
            if hx and len(hx) < 4000 and all(c in '0123456789ABCDEF' for c in hx): pool.append(hx)
    if not pool:
        return
    n = 1500 if ctx.quick else 20000
    lines = []
    for _ in range(n):
        hx = mutate_hex(rng, rng.choice(pool), rng.choice([1, 1, 1, 2, 3]))
        if hx: lines.append('R ' + hx)
    m = ctx.run_lines([drv], lines, timeout=900)
    keep = [(l, o) for l, o in zip(lines, m) if not o.startswith('BAD-LINE')]
    skipped = len(lines) - len(keep)
    i = ctx.run_lines([hexe], [l for l, _ in keep], timeout=900)
    acc = rej = 0; bad = 0
    for (l, mo), io in zip(keep, i):
        ctx.count(('R', l), mo != 'ERR')
        if mo == 'ERR': rej += 1
        else: acc += 1
        if io.startswith('CRASH') or io == 'TIMEOUT':
            ctx.notes.setdefault('reader_crashes_not_C09', []).append(l[:200]) if len(ctx.notes.get('reader_crashes_not_C09', [])) < 5 else None
            continue
        if mo != io:
            bad += 1
            if bad <= 3:
                ctx.broken.append(dict(kind='correspondence', name='reader on mutated encoding',
                                       detail='input %s\nmodel reader: %s\nimplementation: %s' % (l[:1000], mo[:1000], io[:1000])))
    ctx.notes['reader_stream'] = dict(lines=len(lines), accepted=acc, rejected=rej, skipped=skipped, disagreements=bad)
    if acc == 0 or rej == 0:
        ctx.broken.append(dict(kind='generator', name='reader stream', detail='accepted %d rejected %d' % (acc, rej)))
