"""C18 — simplifiers stay within tolerance and preserve the topology they promise.

proof:  coq/theories/C18/{DPDefs,DPProofs,DPMetric,DPTheorems,CheckDefs,CheckProofs}.v, Properties_C18.v
        M = Douglas-Peucker (simplifySection recursion, first-maximum search, closed-ring origin step) over exact integer
        coordinates with squared rational distances: subsequence / ends kept, every input vertex within tol of the output
        (2 tol after the ring step), zero tolerance = identity iff no vertex on its chord (else refuted: finding F6);
        R = certified checkers for the relational clauses (line / ring / geometry, polygon hull, coverage).
tie:    G = translator unit DP_simplifySection (translator/units/C18.py): simplifySection regenerated from the C++ on every run,
        proved (C18/DPGen.v) to compute the usePt marks of M's `kept` for every fuel >= j - i; the property facts are restated about it;
        M extracted to OCaml and run beside DouglasPeuckerLineSimplifier::simplify (coordinate level, both variants) and
        GEOSSimplify_r (geometry level) - exact equality on tie-free inputs, relational clause always;
        GEOSTopologyPreserveSimplify_r, GEOSPolygonHullSimplify(Mode)_r, GEOSCoverageSimplifyVW_r through the extracted
        checkers; validity from GEOSisValid_r / GEOSCoverageIsValid_r, union from GEOSCoverageUnion_r.
"""
import os, struct, math
from fractions import Fraction
from vlib.core import ROOT, BUILD

# ------------------------------------------------------------------------------------------------ geometry <-> WKB
# geometry values: ('Point', (x,y)|None) ('LineString', [pts]) ('Polygon', [ring,...]) ('Multi*'|'GeometryCollection', [geoms])
TYPES = {1: 'Point', 2: 'LineString', 3: 'Polygon', 4: 'MultiPoint', 5: 'MultiLineString', 6: 'MultiPolygon', 7: 'GeometryCollection'}
TCODE = {v: k for k, v in TYPES.items()}


def wkb(g):
    t, body = g
    out = b'\x01' + struct.pack('<I', TCODE[t])
    if t == 'Point':
        out += struct.pack('<dd', *(body if body is not None else (float('nan'), float('nan'))))
    elif t == 'LineString':
        out += struct.pack('<I', len(body)) + b''.join(struct.pack('<dd', float(x), float(y)) for x, y in body)
    elif t == 'Polygon':
        out += struct.pack('<I', len(body))
        for r in body:
            out += struct.pack('<I', len(r)) + b''.join(struct.pack('<dd', float(x), float(y)) for x, y in r)
    else:
        out += struct.pack('<I', len(body)) + b''.join(wkb(c) for c in body)
    return out


def hexwkb(g):
    return wkb(g).hex().upper()


def unwkb(b, pos=0, as_int=True):
    """-> (geom, newpos). Ordinates that are integer-valued doubles become Python ints (exact)."""
    bo = '<' if b[pos] == 1 else '>'
    (tc,) = struct.unpack_from(bo + 'I', b, pos + 1)
    pos += 5
    tc &= 0xff
    t = TYPES[tc]

    def pt(p):
        x, y = struct.unpack_from(bo + 'dd', b, p)
        if as_int:
            if x == x and abs(x) < 2 ** 62 and x == int(x): x = int(x)
            if y == y and abs(y) < 2 ** 62 and y == int(y): y = int(y)
        return (x, y)
    if t == 'Point':
        p = pt(pos)
        return (t, None if p[0] != p[0] else p), pos + 16
    (n,) = struct.unpack_from(bo + 'I', b, pos)
    pos += 4
    if t == 'LineString':
        pts = [pt(pos + 16 * i) for i in range(n)]
        return (t, pts), pos + 16 * n
    if t == 'Polygon':
        rings = []
        for _ in range(n):
            (m,) = struct.unpack_from(bo + 'I', b, pos)
            pos += 4
            rings.append([pt(pos + 16 * i) for i in range(m)])
            pos += 16 * m
        return (t, rings), pos
    cs = []
    for _ in range(n):
        c, pos = unwkb(b, pos, as_int)
        cs.append(c)
    return (t, cs), pos


def from_hex(h):
    return unwkb(bytes.fromhex(h))[0]


def num(v):
    return repr(v) if isinstance(v, float) else str(v)


def wkt(g):
    t, body = g
    cs = lambda pts: '(' + ','.join('%s %s' % (num(x), num(y)) for x, y in pts) + ')'
    if t == 'Point':
        return 'POINT EMPTY' if body is None else 'POINT(%s %s)' % (num(body[0]), num(body[1]))
    if t == 'LineString':
        return 'LINESTRING' + (cs(body) if body else ' EMPTY')
    if t == 'Polygon':
        return 'POLYGON' + ('(' + ','.join(cs(r) for r in body) + ')' if body else ' EMPTY')
    return t.upper() + ('(' + ','.join(wkt(c) for c in body) + ')' if body else ' EMPTY')


# ------------------------------------------------------------------------------------------------ exact numbers
SLACK = Fraction(1, 2 ** 40)          # relative allowance for binary64 rounding in the implementation's distance / area tests


def frac(v):
    return Fraction(v)               # exact value of an int or a binary64


def t2_of(tol, factor=1, slack=True):
    """squared tolerance (factor*tol)^2 as an exact rational, optionally widened by the rounding allowance"""
    t = frac(tol) * factor
    t2 = t * t
    if slack:
        t2 = t2 * (1 + SLACK)
    return t2


def rat_s(q):
    return '%d %d' % (q.numerator, q.denominator)


def pts_s(pts):
    return ' '.join([str(len(pts))] + ['%d %d' % (x, y) for x, y in pts])


def poly_s(rings):
    return ' '.join([str(len(rings))] + [pts_s(r) for r in rings])


def mpoly_s(polys):
    return ' '.join([str(len(polys))] + [poly_s(p) for p in polys])


def comps_s(comps):
    out = [str(len(comps))]
    for k, body in comps:
        out.append('L ' + pts_s(body) if k == 'L' else 'P ' + poly_s(body))
    return ' '.join(out)


def flatten(g, ring_input=False):
    """atomic components in order: ('L', pts) | ('P', rings); empty components are dropped"""
    t, body = g
    if t == 'LineString':
        if not body:
            return []
        return [('P', [body])] if ring_input else [('L', body)]
    if t == 'Polygon':
        return [('P', body)] if body else []
    if t == 'Point' or t == 'MultiPoint':
        return []
    out = []
    for c in body:
        out += flatten(c, ring_input)
    return out


def all_pts(comps):
    out = []
    for k, body in comps:
        if k == 'L':
            out += body
        else:
            for r in body:
                out += r
    return out


def lines_of(comps):
    out = []
    for k, body in comps:
        out += [body] if k == 'L' else list(body)
    return out


def is_int_geom(comps):
    return all(isinstance(x, int) and isinstance(y, int) for x, y in all_pts(comps))


def scale_to_int(comps_list, tol):
    """binary64 coordinates are dyadic rationals: multiply everything by one power of two -> exact integers"""
    den = 1
    for comps in comps_list:
        for x, y in all_pts(comps):
            den = max(den, frac(x).denominator, frac(y).denominator)
    den = max(den, frac(tol).denominator)
    f = lambda pts: [(int(frac(x) * den), int(frac(y) * den)) for x, y in pts]
    res = []
    for comps in comps_list:
        res.append([(k, f(b)) if k == 'L' else (k, [f(r) for r in b]) for k, b in comps])
    return res, frac(tol) * den, den


# ------------------------------------------------------------------------------------------------ generators
def g_walk(rng, n, step, R):
    x, y = rng.randint(-R, R), rng.randint(-R, R)
    pts = [(x, y)]
    for _ in range(n - 1):
        x += rng.randint(-step, step); y += rng.randint(-step, step)
        pts.append((x, y))
    return pts


def g_zigzag(rng, n, amp, dx):
    """vertices alternately at +-amp (+-1) around a base line, in a random lattice direction: distances at / around amp"""
    pts = []
    x = 0
    for i in range(n):
        a = 0 if i in (0, n - 1) else rng.choice([amp, -amp, amp + 1, amp - 1, -amp - 1, 0, amp, -amp])
        pts.append((x, a))
        x += rng.randint(1, dx)
    return lattice_map(rng, pts)


def lattice_map(rng, pts):
    """an exact similarity of the integer lattice (rotation by 90 degrees, reflection, or the map z -> (a+bi) z), plus a shift"""
    a, b = rng.choice([(1, 0), (0, 1), (-1, 0), (1, 1), (2, 1), (3, 4), (1, -2), (1, 0)])
    ox, oy = rng.randint(-50, 50), rng.randint(-50, 50)
    return [(a * x - b * y + ox, b * x + a * y + oy) for x, y in pts]


def g_collinear(rng, n):
    """collinear runs, repeated points and back-tracking on one line, with a few off-line vertices"""
    dx, dy = rng.choice([(1, 0), (0, 1), (1, 1), (2, 1), (3, -2)])
    t = 0
    pts = []
    for i in range(n):
        r = rng.random()
        if r < 0.15 and pts:
            pts.append(pts[-1])                         # repeated point
            continue
        t += rng.choice([1, 1, 2, 3, -1, 0 if pts else 1])
        off = rng.choice([0, 0, 0, 0, 1, -1, 2]) if 0 < i < n - 1 else 0
        pts.append((t * dx - off * dy, t * dy + off * dx))
    if len(pts) >= 2 and pts[0] == pts[-1]:
        pts[-1] = (pts[-1][0] + dx, pts[-1][1] + dy)
    return pts


def g_symmetric(rng, n):
    """pairs of vertices with IDENTICAL squared distance (same cross product / same end-point distance) from the chord: exact ties"""
    L = rng.randint(6, 30)
    pts = [(0, 0)]
    xs = sorted(rng.sample(range(1, L), min(n, L - 1)))
    h = rng.randint(1, 6)
    for x in xs:
        pts.append((x, rng.choice([h, -h, h, -h, rng.randint(-h, h)])))
    pts.append((L, 0))
    if rng.random() < 0.3:          # end-point branch ties: two vertices beyond the end, same distance from it
        pts.insert(-1, (L + 3, 4)); pts.insert(-1, (L + 4, -3))
    return lattice_map(rng, pts) if rng.random() < 0.5 else pts


def g_spike(rng, n, R):
    """vertices that project outside the chord (r <= 0 / r >= 1 branches) and closed / nearly closed lines"""
    pts = g_walk(rng, n, R // 3 + 1, R)
    if rng.random() < 0.5 and len(pts) > 3:
        pts[-1] = (pts[0][0] + rng.choice([0, 0, 1, -2]), pts[0][1] + rng.choice([0, 0, 1]))
    return pts


def g_star(rng, n, R, cx=0, cy=0, rmin=None):
    """star-shaped simple ring around (cx, cy): distinct directions sorted by angle, radius per direction"""
    rmin = rmin if rmin is not None else max(2, R // 2)
    angs = sorted(set(rng.random() * 2 * math.pi for _ in range(n)))
    pts = []
    for a in angs:
        r = rng.randint(rmin, R)
        p = (cx + int(round(r * math.cos(a))), cy + int(round(r * math.sin(a))))
        if not pts or p != pts[-1]:
            pts.append(p)
    if len(pts) >= 2 and pts[0] == pts[-1]:
        pts.pop()
    if len(set(pts)) < 3:
        return [(cx, cy), (cx + R, cy), (cx, cy + R), (cx, cy)]
    return pts + [pts[0]]


def g_thin_triangle(rng):
    """a ring whose origin is close to the segment joining its neighbours (the origin-removal step with 4 and 5 points)"""
    w = rng.randint(6, 40); hgt = rng.randint(0, 3)
    pts = [(w - hgt, 0), (w, rng.randint(2, 9)), (w, -rng.randint(2, 9))]
    if rng.random() < 0.5:
        pts.insert(2, (w + rng.randint(1, 9), rng.randint(-1, 1)))
    pts = lattice_map(rng, pts)
    return pts + [pts[0]]


def g_rect_ring(rng):
    """rectilinear ring with collinear vertices on its sides, starting at a corner or in the middle of a side"""
    w, h = rng.randint(2, 12), rng.randint(2, 12)
    pts = [(x, 0) for x in range(0, w)] + [(w, y) for y in range(0, h)] + [(x, h) for x in range(w, 0, -1)] + [(0, y) for y in range(h, 0, -1)]
    keep = [p for p in pts if p in ((0, 0), (w, 0), (w, h), (0, h)) or rng.random() < 0.5]
    k = rng.randrange(len(keep))
    keep = keep[k:] + keep[:k]
    return keep + [keep[0]]


def g_origin_spike(rng, rotate=True):
    """a simple closed ring whose ORIGIN is the tip of a thin spike: nearly collinear with its two neighbours but lying beyond both of them
    (it projects outside the segment joining them).  Returns (ring, d) with d = distance of the origin from the LINE through its neighbours:
    at tolerances around d the origin is within tolerance of that line but far from the segment, so it must be kept."""
    La = rng.randint(8, 40); Lb = rng.randint(3, La - 2)
    a = rng.randint(-3, 3)
    b = (a * Lb) // La + rng.choice([1, 1, 1, 2, 3])          # B strictly above the line O-A at x = Lb
    H = max(a, b) + rng.randint(4, 30)
    body = [(La, a)]
    for y in sorted(rng.sample(range(a + 1, H), min(rng.choice([0, 0, 1, 2]), H - a - 1))):
        body.append((La + rng.choice([0, 0, 1, -1]), y))
    body.append((La, H))
    for x in sorted(rng.sample(range(Lb + 1, La), min(rng.choice([0, 0, 1, 3]), La - Lb - 1)), reverse=True):
        body.append((x, H + rng.choice([0, 0, 2, -2])))
    body.append((Lb, H))
    for y in sorted(rng.sample(range(b + 1, H), min(rng.choice([0, 0, 1]), H - b - 1)), reverse=True):
        body.append((Lb, y))
    body.append((Lb, b))
    ring = [(0, 0)] + body
    cross = La * b - Lb * a
    d = cross / math.hypot(La - Lb, a - b)
    z = rng.choice([(1, 0), (0, 1), (-1, 0), (0, -1), (1, 1), (2, 1), (3, 4), (1, -2), (1, 0)])
    ox, oy = rng.randint(-50, 50), rng.randint(-50, 50)
    ring = [(z[0] * x - z[1] * y + ox, z[1] * x + z[0] * y + oy) for x, y in ring]
    d *= math.hypot(*z)
    if rng.random() < 0.5:
        ring = [ring[0]] + ring[:0:-1]                         # other orientation, same origin
    if rotate and rng.random() < 0.3:
        k = rng.randrange(len(ring)); ring = ring[k:] + ring[:k]   # the spike at another ring position
    return ring + [ring[0]], d


def ospike_tol(rng, d):
    return d * rng.choice([0.5, 0.9, 1.0001, 1.1, 1.5, 2, 3]) if rng.random() < 0.85 else rng.choice([1, 2, 0.5])


def gen_line(rng, quick):
    r = rng.random()
    n = rng.choice([2, 3, 3, 4, 5, 6, 8, 12, 20, 35]) if quick else rng.choice([2, 3, 4, 5, 8, 12, 20, 35, 60, 120])
    if r < 0.07:
        ring, d = g_origin_spike(rng)
        return 'ospike@%r' % ospike_tol(rng, d), ring
    if r < 0.22:
        return 'walk', g_walk(rng, n, rng.choice([1, 2, 5, 20]), rng.choice([5, 30, 1000]))
    if r < 0.42:
        amp = rng.choice([1, 2, 3, 5])
        return 'zigzag%d' % amp, g_zigzag(rng, max(3, n), amp, rng.choice([1, 3, 8]))
    if r < 0.57:
        return 'collinear', g_collinear(rng, max(3, n))
    if r < 0.70:
        return 'symmetric', g_symmetric(rng, max(2, n // 2))
    if r < 0.80:
        return 'spike', g_spike(rng, max(3, n), rng.choice([5, 40]))
    if r < 0.88:
        return 'star', g_star(rng, max(3, n), rng.choice([6, 20, 100]))
    if r < 0.94:
        return 'thin', g_thin_triangle(rng)
    return 'rect', g_rect_ring(rng)


def gen_tol(rng, pts, hint=None):
    ext = 1
    if pts:
        xs = [p[0] for p in pts]; ys = [p[1] for p in pts]
        ext = max(max(xs) - min(xs), max(ys) - min(ys), 1)
    r = rng.random()
    if hint and r < 0.5:
        return hint * rng.choice([1, 1, 1, 2, 0.5, math.sqrt(2), math.sqrt(5), 5])
    if r < 0.16: return 0
    if r < 0.40: return rng.choice([1, 2, 3, 5, 0.5, 1.5, 2.5])
    if r < 0.60: return rng.choice([0.7, 1.3, 0.1, 2.2, 3.7, 1e-9, 0.9999999999999999, 1.0000000000000002])
    if r < 0.80: return round(rng.uniform(0, ext), rng.choice([0, 1, 3]))
    if r < 0.92: return rng.choice([ext, 2 * ext, ext / 2, ext + 1])
    return rng.choice([1e9, 1e300, 10 * ext])


# valid areal inputs: regions of a (jittered) lattice traced along cell boundaries; every lattice edge is replaced by ONE shared
# wiggly polyline, so that neighbouring regions are edge-matched (coverages) and rings carry collinear and near-collinear vertices.
class Lattice:
    def __init__(self, rng, W, H, S, jitter, wig):
        self.rng, self.W, self.H, self.S = rng, W, H, S
        self.P = {(i, j): (i * S + (rng.randint(-jitter, jitter) if jitter else 0), j * S + (rng.randint(-jitter, jitter) if jitter else 0))
                  for i in range(W + 1) for j in range(H + 1)}
        self.wig = wig
        self.mid = {}

    def edge(self, a, b):
        """the shared polyline of lattice edge a->b (end point excluded)"""
        key = (a, b) if a < b else (b, a)
        if key not in self.mid:
            pa, pb = self.P[key[0]], self.P[key[1]]
            k = self.rng.choice([0, 0, 1, 1, 2, 3]) if self.wig else 0
            m = []
            for t in sorted(self.rng.sample(range(1, 8), k)):
                x = pa[0] + (pb[0] - pa[0]) * t // 8; y = pa[1] + (pb[1] - pa[1]) * t // 8
                o = self.rng.choice([0, 0, 0, 1, -1, 2, -2]) if self.wig > 1 else 0
                if key[0][0] == key[1][0]: x += o       # vertical lattice edge: shift in x
                else: y += o
                q = (x, y)
                if q != pa and q != pb and q not in m:
                    m.append(q)
            self.mid[key] = m
        m = self.mid[key]
        return [self.P[a]] + (m if a < b else m[::-1])

    def rings_of(self, cells):
        """boundary rings (shells CCW, holes CW) of a set of cells; None if the region touches itself at a corner"""
        cells = set(cells)
        nxt = {}
        for (i, j) in cells:
            c = [(i, j), (i + 1, j), (i + 1, j + 1), (i, j + 1)]
            for k in range(4):
                a, b = c[k], c[(k + 1) % 4]
                # the cell on the other side of edge a->b
                o = [(i, j - 1), (i + 1, j), (i, j + 1), (i - 1, j)][k]
                if o not in cells:
                    if a in nxt:
                        return None
                    nxt[a] = b
        rings = []
        while nxt:
            s = next(iter(nxt))
            cur = s; ring = []
            while True:
                b = nxt.pop(cur)
                ring += self.edge(cur, b)
                cur = b
                if cur == s:
                    break
                if cur not in nxt:
                    return None
            rings.append(ring + [ring[0]])
        return rings


def area2(r):
    return sum(r[i][0] * r[i + 1][1] - r[i + 1][0] * r[i][1] for i in range(len(r) - 1))


def grow_regions(rng, W, H, nreg, pgap):
    cells = [(i, j) for i in range(W) for j in range(H)]
    owner = {}
    seeds = rng.sample(cells, min(nreg, len(cells)))
    for k, c in enumerate(seeds):
        owner[c] = k
    frontier = list(seeds)
    while frontier:
        c = frontier.pop(rng.randrange(len(frontier)))
        for d in ((1, 0), (-1, 0), (0, 1), (0, -1)):
            n = (c[0] + d[0], c[1] + d[1])
            if 0 <= n[0] < W and 0 <= n[1] < H and n not in owner:
                owner[n] = owner[c]; frontier.append(n)
    regs = {}
    for c, k in owner.items():
        regs.setdefault(k, []).append(c)
    if pgap:
        for k in list(regs):
            if rng.random() < pgap and len(regs) > 2:
                del regs[k]
    return list(regs.values())


def region_polygons(lat, cells):
    """polygons (list of ring lists) of one region; None when not representable as valid simple rings"""
    rings = lat.rings_of(cells)
    if rings is None:
        return None
    shells = [r for r in rings if area2(r) > 0]
    holes = [r for r in rings if area2(r) < 0]
    if len(shells) != 1:
        return None          # regions are grown connected: one shell
    return [[shells[0]] + holes]


def gen_coverage(rng, quick):
    for _ in range(50):
        W, H = rng.randint(2, 4 if quick else 7), rng.randint(2, 4 if quick else 7)
        S = rng.choice([8, 16, 16, 40])
        lat = Lattice(rng, W, H, S, rng.choice([0, 0, 1, S // 5]), rng.choice([0, 1, 2, 2]))
        regs = grow_regions(rng, W, H, rng.randint(2, max(2, W * H // 2)), rng.choice([0, 0, 0.15]))
        if rng.random() < 0.3:
            # donut: the border cells form one region with a hole; the inner cells are islands filling it (some left out: a gap)
            W, H = rng.randint(3, 5), rng.randint(3, 5)
            lat = Lattice(rng, W, H, S, rng.choice([0, 0, 1, S // 5]), rng.choice([0, 1, 2, 2]))
            border = [(i, j) for i in range(W) for j in range(H) if i in (0, W - 1) or j in (0, H - 1)]
            inner = [(i, j) for i in range(1, W - 1) for j in range(1, H - 1)]
            regs = [border]
            if rng.random() < 0.3 and W >= 4:
                regs = [[c for c in border if c[0] < W // 2 or (c[0] == W // 2 and c[1] == 0)], [c for c in border if not (c[0] < W // 2 or (c[0] == W // 2 and c[1] == 0))]]
            rng.shuffle(inner)
            k = rng.randint(1, max(1, len(inner)))
            groups = {}
            for c in inner:
                if rng.random() < 0.15 and len(inner) > 1:
                    continue                      # gap
                groups.setdefault(rng.randrange(k), []).append(c)
            for gcells in groups.values():
                # keep only edge-connected groups: split into connected components
                todo = set(gcells)
                while todo:
                    comp = [todo.pop()]; i = 0
                    while i < len(comp):
                        c = comp[i]; i += 1
                        for d in ((1, 0), (-1, 0), (0, 1), (0, -1)):
                            q = (c[0] + d[0], c[1] + d[1])
                            if q in todo:
                                todo.remove(q); comp.append(q)
                    regs.append(comp)
        elems = []
        ok = True
        for cells in regs:
            p = region_polygons(lat, cells)
            if p is None:
                ok = False; break
            if len(cells) == 1 and rng.random() < 0.3:       # triangulate a single cell along a diagonal
                (i, j) = cells[0]
                a, b, c, d = (i, j), (i + 1, j), (i + 1, j + 1), (i, j + 1)
                t1 = lat.edge(a, b) + lat.edge(b, c) + [lat.P[c]]
                t2 = lat.edge(c, d) + lat.edge(d, a) + [lat.P[a]]
                elems.append([[t1 + [t1[0]]]]); elems.append([[t2 + [t2[0]]]])
                continue
            elems.append(p)
        if ok and len(elems) >= 2:
            # merge some elements into MULTIPOLYGON members
            if rng.random() < 0.25 and len(elems) >= 3:
                a = elems.pop(rng.randrange(len(elems))); b = elems.pop(rng.randrange(len(elems)))
                if not shares_vertex(a, b):
                    elems.append(a + b)
                else:
                    elems += [a, b]
            return elems
    return None


def shares_vertex(a, b):
    va = set(p for pg in a for r in pg for p in r)
    return any(p in va for pg in b for r in pg for p in r)


def gen_polygon(rng, quick):
    """a valid polygon (list of rings), possibly with holes: lattice region or star with star holes"""
    if rng.random() < 0.5:
        for _ in range(30):
            W, H = rng.randint(2, 5), rng.randint(2, 5)
            S = rng.choice([6, 10, 20])
            lat = Lattice(rng, W, H, S, rng.choice([0, 1, S // 5]), rng.choice([0, 1, 2]))
            regs = grow_regions(rng, W, H, rng.randint(2, 5), 0)
            regs.sort(key=len, reverse=True)
            p = region_polygons(lat, regs[0])
            if p is not None:
                return 'lattice', p[0]
    R = rng.choice([20, 60, 200])
    shell = g_star(rng, rng.choice([4, 6, 10, 25] if quick else [4, 6, 10, 25, 60]), R, rmin=R // 2)
    holes = []
    for _ in range(rng.choice([0, 0, 1, 2])):
        a = rng.random() * 2 * math.pi; d = rng.uniform(0, R * 0.25)
        hr = max(2, int(R * rng.choice([0.05, 0.1, 0.15])))
        h = g_star(rng, rng.choice([3, 4, 6, 10]), hr, int(d * math.cos(a)), int(d * math.sin(a)), rmin=max(1, hr // 2))
        holes.append(h[::-1])
    return 'star', [shell] + holes


def g_bump_spike(rng):
    """a valid polygon whose Douglas-Peucker simplification self-intersects: a low bump on one side (dropped at the hinted tolerance)
    with a thin spike from the opposite side reaching into it"""
    w = rng.randint(8, 20); h = rng.randint(6, 20); b = rng.randint(2, 5); c = rng.randint(3, w - 3)
    top = [(w, h), (c + 1, h), (c, h + b), (c - 1, h), (0, h)]
    bottom = [(0, 0), (c - 1, 0), (c, h + b - 1), (c + 1, 0), (w, 0)]
    ring = bottom + top
    ring = lattice_map(rng, ring) if rng.random() < 0.5 else ring
    if area2(ring + [ring[0]]) < 0:
        ring = ring[::-1]
    k = rng.randrange(len(ring)); ring = ring[k:] + ring[:k]
    return [ring + [ring[0]]], b + rng.choice([0.5, 1, 0.25])


# ---- rings with an exact number of vertices around the node capacity (16) of the per-ring vertex index used by RingHull and
# TPVWSimplifier (VertexSequencePackedRtree): 16k distinct vertices (16k+1 coordinates) and +-1, with needles / notches so that
# corner triangles contain other vertices of the same ring (the removals that the index must block)
def pad_ring(rng, ring, target):
    """insert lattice points ON edges (collinear vertices) until the closed ring has `target` distinct vertices; ring scaled x4 first"""
    pts = [(4 * x, 4 * y) for x, y in ring[:-1]]
    guard = 0
    while len(pts) < target and guard < 2000:
        guard += 1
        i = rng.randrange(len(pts)); a = pts[i]; b = pts[(i + 1) % len(pts)]
        g = math.gcd(abs(b[0] - a[0]), abs(b[1] - a[1]))
        if g < 2:
            continue
        k = rng.randint(1, g - 1)
        q = (a[0] + (b[0] - a[0]) // g * k, a[1] + (b[1] - a[1]) // g * k)
        pts.insert(i + 1, q)
    return pts + [pts[0]]


def g_comb(rng, units):
    """rectangle with `units` bump-and-spike pairs: a low bump on the top side with a thin spike from the bottom side reaching into it
    (the bump's corner triangle contains the spike tip), and needles on the sides"""
    w = 6 * units + 4; h = rng.randint(6, 14)
    top = [(w, h)]; bottom = [(0, 0)]
    for u in range(units):
        c = 4 + 6 * u
        b = rng.randint(2, 4)
        bottom += [(c - 1, 0), (c, h + b - 1), (c + 1, 0)]
    bottom.append((w, 0))
    for u in reversed(range(units)):
        c = 4 + 6 * u
        b = bottom[1 + 3 * u + 1][1] - h + 1
        top += [(c + 1, h), (c, h + b), (c - 1, h)]
    top.append((0, h))
    return bottom + top + [(0, 0)]


def g_needle_ring(rng):
    kind = rng.choice(['comb', 'comb', 'star', 'star', 'lattice'])
    if kind == 'comb':
        ring = g_comb(rng, rng.randint(1, 4))
    elif kind == 'star':
        R = rng.choice([20, 40, 100])
        ring = g_star(rng, rng.choice([10, 14, 20, 30, 40]), R, rmin=max(2, R // rng.choice([3, 6, 12])))
    else:
        ring = None
        for _ in range(20):
            k, rings = gen_polygon(rng, True)
            if k == 'lattice':
                ring = rings[0]; break
        if ring is None:
            ring = g_comb(rng, 2)
    nd = len(ring) - 1
    base = next(t for t in (16, 32, 48, 64, 80, 96, 112, 128) if t + 1 >= nd)
    target = max(nd, base + rng.choice([0, 0, 0, 0, 1, -1]))
    ring = pad_ring(rng, ring, target)
    if rng.random() < 0.5:
        ring = lattice_map(rng, ring[:-1]); ring = ring + [ring[0]]
    if area2(ring) < 0:
        ring = ring[::-1]
    k = rng.randrange(len(ring) - 1); ring = ring[k:-1] + ring[:k] + [ring[k]]
    return kind, ring


def gen_needle_polygon(rng):
    """the needle ring as a shell, or as the hole of a box (hole hulls are computed with the opposite side)"""
    kind, ring = g_needle_ring(rng)
    if rng.random() < 0.6:
        return 'needle16:' + kind + ':shell', [ring]
    xs = [p[0] for p in ring]; ys = [p[1] for p in ring]; m = rng.randint(8, 40)
    box = [(min(xs) - m, min(ys) - m), (max(xs) + m, min(ys) - m), (max(xs) + m, max(ys) + m), (min(xs) - m, max(ys) + m), (min(xs) - m, min(ys) - m)]
    return 'needle16:' + kind + ':hole', [box, ring[::-1]]


def gen_geometry(rng, quick):
    """a geometry value + a label: lines, closed lines, polygons with holes, multi-geometries, collections"""
    r = rng.random()
    if r < 0.04:
        rings, hint = g_bump_spike(rng)
        return 'polygon:bumpspike', ('Polygon', rings), hint
    if r < 0.12:
        # rings whose origin is a spike tip beyond both neighbours: as shell, as hole, as LINEARRING / closed line, in a multipolygon
        ring, d = g_origin_spike(rng)
        hint = ospike_tol(rng, d)
        c = rng.random()
        if c < 0.35:
            return 'polygon:ospike-shell', ('Polygon', [ring]), hint
        xs = [p[0] for p in ring]; ys = [p[1] for p in ring]
        m = rng.randint(3, 20)
        box = [(min(xs) - m, min(ys) - m), (max(xs) + m, min(ys) - m), (max(xs) + m, max(ys) + m), (min(xs) - m, max(ys) + m), (min(xs) - m, min(ys) - m)]
        if c < 0.6:
            return 'polygon:ospike-hole', ('Polygon', [box, ring]), hint
        if c < 0.85:
            return 'line:ospike-ring', ('LineString', ring), hint
        ring2, _ = g_origin_spike(rng)
        return 'multipolygon:ospike', ('MultiPolygon', [('Polygon', [ring]), ('Polygon', [[(x + 2000, y) for x, y in ring2]])]), hint
    g = gen_geometry0(rng, quick, r)
    return g[0], g[1], None


def gen_geometry0(rng, quick, r):
    if r < 0.25:
        k, pts = gen_line(rng, quick)
        return 'line:' + k.split('@')[0], ('LineString', pts)
    if r < 0.55:
        k, rings = gen_polygon(rng, quick)
        return 'polygon:' + k, ('Polygon', rings)
    if r < 0.65:
        ls = [('LineString', gen_line(rng, quick)[1]) for _ in range(rng.randint(1, 4))]
        if rng.random() < 0.3: ls.insert(rng.randrange(len(ls) + 1), ('LineString', []))
        return 'multiline', ('MultiLineString', ls)
    if r < 0.85:
        elems = gen_coverage(rng, True)
        if elems:
            # disjoint polygons: every other region of a tiling, pulled apart
            ps = []
            for k, e in enumerate(elems[::2]):
                for pg in e:
                    ps.append(('Polygon', [[(x + 1000 * k, y) for x, y in rg] for rg in pg]))
            return 'multipolygon', ('MultiPolygon', ps)
    if r < 0.92:
        elems = gen_coverage(rng, True)
        if elems:
            return 'tiling', cov_geom(elems)
    parts = []
    for _ in range(rng.randint(1, 3)):
        parts.append(gen_geometry0(rng, quick, rng.random())[1] if rng.random() < 0.8 else ('Point', (rng.randint(0, 9), rng.randint(0, 9))))
    # shift members apart so that the collection's polygons do not overlap
    return 'collection', ('GeometryCollection', [shift(g, 5000 * i, 0) for i, g in enumerate(parts)])


def shift(g, dx, dy):
    t, b = g
    f = lambda pts: [(x + dx, y + dy) for x, y in pts]
    if t == 'Point': return (t, None if b is None else (b[0] + dx, b[1] + dy))
    if t == 'LineString': return (t, f(b))
    if t == 'Polygon': return (t, [f(r) for r in b])
    return (t, [shift(c, dx, dy) for c in b])


def to_double_grid(rng, g):
    """x -> x*s + o, correctly rounded: full-precision binary64 coordinates"""
    s = rng.choice([1e-3, 0.1, 1 / 3, 1.0, 7.3, 1e3, 1e6]); ox = rng.choice([0.0, 0.5, 1e3, 123456.789, 1e9]); oy = rng.choice([0.0, -7.25, 1e6])
    def m(g):
        t, b = g
        f = lambda pts: [(x * s + ox, y * s + oy) for x, y in pts]
        if t == 'Point': return (t, None if b is None else (b[0] * s + ox, b[1] * s + oy))
        if t == 'LineString': return (t, f(b))
        if t == 'Polygon': return (t, [f(r) for r in b])
        return (t, [m(c) for c in b])
    return m(g), s


# ------------------------------------------------------------------------------------------------ running things
class R:
    """paths + batch helpers"""
    def __init__(self, ctx, drv, hexe):
        self.ctx, self.drv, self.hexe = ctx, drv, hexe

    def impl(self, lines, timeout=900):
        return self.ctx.run_lines([self.hexe], lines, timeout=timeout) if lines else []

    def model(self, lines, timeout=1800):
        return self.ctx.run_lines([self.drv], lines, timeout=timeout) if lines else []


def parse_impl(o):
    """'OK t=.. v=.. <hex> k=v ...' -> dict ; anything else -> dict(err=...)"""
    w = o.split()
    if not w or w[0] != 'OK':
        d = dict(err=o[:300])
        for x in w[1:4]:
            if x.startswith(('vin=', 'gvin=')):
                k, v = x.split('=', 1); d[k] = v
        return d
    d = {}
    for x in w[1:]:
        if '=' in x:
            k, v = x.split('=', 1); d[k] = v
        else:
            d['hex'] = x
    if 'hex' in d:
        try:
            d['geom'] = from_hex(d['hex'])
        except Exception as e:
            return dict(err='unparsable WKB from implementation: %s' % e)
    return d


def parse_pts(tokens):
    n = int(tokens[0])
    return [(int(tokens[1 + 2 * i]), int(tokens[2 + 2 * i])) for i in range(n)]


def dropped_any(cin, cout):
    return len(all_pts(cin)) != len(all_pts(cout))


def find_known(ctx, fid):
    for k in ctx.known:
        if k.get('id') == fid and k.get('status') == 'known':
            return k
    return None


FAIL_CAP = 4


def want_shrink(ctx, stream, verdict):
    """shrink (and report in full) only the first few failures of a stream; the rest are counted"""
    n = ctx.notes.setdefault('failures_per_stream', {})
    key = stream + ':' + verdict['status']
    n[key] = n.get(key, 0) + 1
    return n[key] <= FAIL_CAP


def report(ctx, stream, idx, case, verdict, shrunk=None):
    """verdict: dict(status, why, ...). routes to violation / known finding / correspondence breakage"""
    st = verdict['status']
    if st in ('violation', 'corr') and ctx.notes.get('failures_per_stream', {}).get(stream + ':' + st, 0) > FAIL_CAP:
        return
    if st == 'known':
        k = find_known(ctx, verdict['fid'])
        if k is not None:
            ctx.known_hit(k)
            ctx.notes.setdefault('known_finding_cases', {}).setdefault(verdict['fid'], [])
            lst = ctx.notes['known_finding_cases'][verdict['fid']]
            if len(lst) < 3:
                lst.append(dict(call=case.get('call'), input=case.get('wkt'), output=verdict.get('out_wkt'), why=verdict['why']))
            return
        st = 'violation'       # the finding is not (or no longer) listed as known: it is a violation
    if st == 'violation':
        if len(ctx.violations) < 8:
            ctx.violation('%s_%d' % (stream, idx), dict(stream=stream, call=case.get('call'), input_wkt=case.get('wkt'), tolerance=repr(case.get('tol')),
                                                        implementation_returned=verdict.get('out_wkt'), expected=verdict.get('expected'), why=verdict['why'],
                                                        shrunk=shrunk, seed=ctx.seed,
                                                        replay="echo '%s' | %s" % ((shrunk or case)['line'], os.path.join(BUILD, 'bin', 'c18'))),
                          msg='%s: %s' % (stream, verdict['why']))
    elif st == 'corr':
        if sum(1 for b in ctx.broken if b['kind'] == 'correspondence') < 5:
            ctx.broken.append(dict(kind='correspondence', name='%s case %d' % (stream, idx),
                                   detail='%s\ncall: %s\ninput: %s\nmodel: %s\nimplementation: %s\nline: %s' %
                                   (verdict['why'], case.get('call'), case.get('wkt'), verdict.get('expected'), verdict.get('out_wkt'), case.get('line'))))


# ------------------------------------------------------------------------------------------------ stream A: coordinate level, model M vs DouglasPeuckerLineSimplifier
def judge_dpl(rr, cases):
    """cases: dict(pts, tol, preserve). model DP vs implementation DPL; property clauses on the implementation's output"""
    il, ml = [], []
    for c in cases:
        c['line'] = 'DPL %s %d %s' % (num(c['tol']), c['preserve'], hexwkb(('LineString', c['pts'])))
        c['call'] = 'DouglasPeuckerLineSimplifier::simplify(pts, %s, preserveClosedEndpoint=%d)' % (num(c['tol']), c['preserve'])
        c['wkt'] = wkt(('LineString', c['pts']))
        il.append(c['line'])
        ml.append('DP %d %s %s' % (c['preserve'], rat_s(t2_of(c['tol'], slack=False)), pts_s(c['pts'])))
    io, mo = rr.impl(il), rr.model(ml)
    rel = []
    parsed = []
    for c, o, m in zip(cases, io, mo):
        w = o.split()
        if not w or w[0] != 'OK':
            parsed.append(None); rel.append('LINE 0 1 0 0'); continue
        vals = w[2:]
        out = []
        for i in range(0, len(vals), 2):
            x, y = float(vals[i]), float(vals[i + 1])
            out.append((int(x), int(y)))
        parsed.append(out)
        pts = c['pts']
        ringvar = (not c['preserve']) and len(pts) >= 4 and pts[0] == pts[-1]
        c['ringvar'] = ringvar
        if ringvar:
            rel.append('RING %s %s %s' % (rat_s(t2_of(c['tol'], 2)), pts_s(pts), pts_s(out)))
        else:
            rel.append('LINE %s %s %s' % (rat_s(t2_of(c['tol'])), pts_s(pts), pts_s(out)))
    ro = rr.model(rel)
    res = []
    for c, o, m, out, r in zip(cases, io, mo, parsed, ro):
        if out is None:
            res.append(dict(status='violation', why='implementation failed: ' + o[:200])); continue
        mw = m.split()
        if mw[0] not in ('0', '1'):
            res.append(dict(status='corr', why='model driver failed: ' + m[:200])); continue
        tie = mw[0] == '1'
        mout = parse_pts(mw[1:])
        v = dict(status='ok', tie=tie, out=out, mout=mout, out_wkt=wkt(('LineString', out)), expected=wkt(('LineString', mout)))
        rw = r.split()
        if rw[0] != '1':
            v.update(status='violation', why='property clause fails on the implementation output (%s): %s' % ('closed ring, 2*tol' if c['ringvar'] else 'line, tol', r))
        elif not tie and out != mout:
            v.update(status='corr', why='model M and DouglasPeuckerLineSimplifier disagree on a tie-free input')
        elif c['tol'] == 0 and out != c['pts']:
            # zero tolerance did not return the input unchanged.  the relational clause above (T2 = 0, exact) has shown that every
            # dropped vertex is at distance 0 from the output line: this is exactly the key of finding F6
            v.update(status='known', fid='F6', why='tolerance 0 dropped vertices that lie ON the simplified line (collinear / repeated)')
        res.append(v)
    return res


def shrink_pts(rr, case, judge, bad_status, budget=60):
    """delete vertices while the same kind of failure persists"""
    cur = list(case['pts'])
    step = max(1, len(cur) // 2)
    while step >= 1 and budget > 0:
        i = 0
        while i < len(cur) and budget > 0:
            cand = cur[:i] + cur[i + step:]
            budget -= 1
            ok = False
            if len(cand) >= 2:
                c2 = dict(case); c2['pts'] = cand
                try:
                    ok = judge(rr, [c2])[0]['status'] == bad_status
                except Exception:
                    ok = False
                if ok:
                    cur = cand; last = c2
            if not ok:
                i += step
        step //= 2
    c2 = dict(case); c2['pts'] = cur
    judge(rr, [c2])
    return dict(line=c2['line'], wkt=c2['wkt'])


def stream_dpl(ctx, rr, n):
    rng = ctx.rng
    cases = []
    for _ in range(n):
        kind, pts = gen_line(rng, ctx.quick)
        hint = None
        if kind.startswith('zigzag'):
            hint = int(kind[6:]); kind = 'zigzag'
        if '@' in kind:
            kind, t = kind.split('@'); tol = float(t) if rng.random() < 0.8 else gen_tol(rng, pts)
        else:
            tol = gen_tol(rng, pts, hint)
        closed = len(pts) >= 4 and pts[0] == pts[-1]
        cases.append(dict(kind=kind, pts=pts, tol=tol, preserve=rng.choice([0, 0, 1]) if closed else rng.choice([0, 1])))
    # corpus of hand-made boundary cases (DESIGN C18 witnesses)
    for pts, tol, pres in [([(0, 0), (1, 0), (2, 0)], 0, 1), ([(0, 0), (1, 0), (1, 0), (2, 1)], 0, 1), ([(0, 0), (3, 2), (6, -2), (10, 0)], 1, 1),
                           ([(9, 0), (10, 5), (10, -5), (9, 0)], 1.5, 0), ([(0, 0), (10, 0), (10, 10), (5, 11), (0, 10), (0, 0)], 100, 0),
                           ([(0, 0), (4, 0), (4, 4), (0, 4), (0, 0)], 0, 0), ([(2, 0), (4, 0), (4, 4), (0, 4), (0, 0), (2, 0)], 0, 0),
                           ([(0, 0), (0, 0)], 1, 1), ([(0, 0), (5, 0), (5, 0), (0, 0)], 0, 0)]:
        cases.append(dict(kind='corpus', pts=pts, tol=tol, preserve=pres))
    res = judge_dpl(rr, cases)
    dist = {}
    for i, (c, v) in enumerate(zip(cases, res)):
        nontriv = v.get('out') is not None and 2 < len(v['out']) < len(c['pts'])
        ctx.count(('dpl', c['line']), nontriv)
        d = dist.setdefault(c['kind'], dict(n=0, ties=0, ringvar=0, origin_removed=0, exact_equal=0, tol0=0))
        d['n'] += 1; d['ties'] += 1 if v.get('tie') else 0; d['ringvar'] += 1 if c.get('ringvar') else 0
        d['tol0'] += 1 if c['tol'] == 0 else 0
        if v.get('out') and c.get('ringvar') and v['out'][0] != c['pts'][0]: d['origin_removed'] += 1
        if v.get('out') is not None and v.get('out') == v.get('mout'): d['exact_equal'] += 1
        if v['status'] in ('violation', 'corr'):
            sh = None
            if want_shrink(ctx, 'dpl', v):
                try:
                    sh = shrink_pts(rr, c, judge_dpl, v['status'])
                except Exception:
                    pass
            report(ctx, 'dpl', i, c, v, sh)
        elif v['status'] == 'known':
            report(ctx, 'dpl', i, c, v)
    ctx.notes.setdefault('distribution', {})['dpl'] = dist
    tot = lambda k: sum(d[k] for d in dist.values())
    for need in ('ties', 'ringvar', 'origin_removed', 'tol0'):
        if tot(need) == 0:
            ctx.broken.append(dict(kind='generator', name='dpl distribution', detail='no case with %s generated' % need))
    if tot('exact_equal') < tot('n') // 2:
        ctx.broken.append(dict(kind='generator', name='dpl distribution', detail='fewer than half of the cases compared equal with the model'))
    if cases:
        ctx.sample(cases[0]['line'][:300])


# ------------------------------------------------------------------------------------------------ streams B, C: geometry level
def units_of(g):
    """top-level units the DP transformer repairs separately: every polygonal geometry that is not inside a MultiPolygon"""
    t, b = g
    if t == 'GeometryCollection':
        out = []
        for c in b:
            out += units_of(c)
        return out
    return [g]


def judge_simpl(rr, cases):
    """cases: dict(op in DP|DPR|TP|TPR, tol, geom [, scaled])."""
    il = []
    for c in cases:
        c['line'] = '%s %s %s' % (c['op'], num(c['tol']), hexwkb(c['geom']))
        c['call'] = {'D': 'GEOSSimplify_r', 'T': 'GEOSTopologyPreserveSimplify_r'}[c['op'][0]] + '(g, %s)%s' % (num(c['tol']), ' on a LINEARRING' if c['op'].endswith('R') else '')
        c['wkt'] = wkt(c['geom'])
        il.append(c['line'])
    io = [parse_impl(o) for o in rr.impl(il)]
    # pass 1: model prediction per ring / line (DP only), relational clauses for everything
    ml = []; mref = []
    for ci, (c, o) in enumerate(zip(cases, io)):
        if 'err' in o or o.get('vin') != '1':
            continue
        ring_in = c['op'].endswith('R')
        cin = flatten(c['geom'], ring_in); cout = flatten(o['geom'], ring_in)
        tol = c['tol']; M = 0
        cin0 = cin
        c['in_int'] = is_int_geom(cin)
        if not (is_int_geom(cin) and is_int_geom(cout)):
            (cin, cout), tolq, den = scale_to_int([cin, cout], tol)
            c['exact_int'] = False
            M = max([abs(v) for p in all_pts(cin) for v in p] + [1])
            teff = tolq * (1 + Fraction(1, 2 ** 30)) + Fraction(M, 2 ** 38)
        else:
            c['exact_int'] = True
            tolq = frac(tol); teff = None
        c['unscale'] = dict(zip(all_pts(cin), all_pts(cin0)))
        c['cin'], c['cout'], c['tolq'] = cin, cout, tolq
        T2l = t2_of(tolq) if teff is None else teff * teff
        T2r = 4 * T2l
        c['T2l'], c['T2r'] = T2l, T2r
        # the relational clause at geometry level (structure + line / ring checks)
        ml.append('GEOM %s %s %s %s' % (rat_s(T2l), rat_s(T2r), comps_s(cin), comps_s(cout))); mref.append((ci, 'geom'))
        ml.append('SUBSET %s %s' % (pts_s(all_pts(cout)), pts_s(all_pts(cin)))); mref.append((ci, 'subset'))
        outs = lines_of(cout)
        lin = [p for k, b in cin if k == 'L' for p in b]; rin = [p for k, b in cin if k == 'P' for r in b for p in r]
        ml.append('NEARANY %s %s %d %s' % (rat_s(T2l), pts_s(lin), len(outs), ' '.join(pts_s(x) for x in outs))); mref.append((ci, 'nearL'))
        ml.append('NEARANY %s %s %d %s' % (rat_s(T2r), pts_s(rin), len(outs), ' '.join(pts_s(x) for x in outs))); mref.append((ci, 'nearR'))
        if c['op'][0] == 'D':
            T2m = t2_of(tolq, slack=False)
            for ki, (k, b) in enumerate(cin):
                if k == 'L':
                    ml.append('DP 1 %s %s' % (rat_s(T2m), pts_s(b))); mref.append((ci, ('dp', ki, 0)))
                else:
                    for ri, rg in enumerate(b):
                        ml.append('DP 0 %s %s' % (rat_s(T2m), pts_s(rg))); mref.append((ci, ('dp', ki, ri)))
    mo = rr.model(ml)
    got = {}
    for (ci, key), m in zip(mref, mo):
        got.setdefault(ci, {})[key] = m
    # pass 2 (DP): validity of the model's rough result, unit by unit
    vl = []; vref = []
    for ci, (c, o) in enumerate(zip(cases, io)):
        if ci not in got or c['op'][0] != 'D':
            continue
        g = got[ci]
        cin = c['cin']
        tie = False; pred = []; collapse = False
        for ki, (k, b) in enumerate(cin):
            if k == 'L':
                w = g[('dp', ki, 0)].split(); tie |= w[0] == '1'
                pred.append(('L', parse_pts(w[1:])))
            else:
                rings = []
                for ri in range(len(b)):
                    w = g[('dp', ki, ri)].split(); tie |= w[0] == '1'
                    ro = parse_pts(w[1:])
                    if len(ro) >= 4 or c['op'] == 'DPR':
                        rings.append(ro)
                    else:
                        collapse = True
                        if ri == 0:
                            rings = None; break
                pred.append(('P', rings))
        c['tie'], c['pred'], c['collapse'] = tie, pred, collapse
        # polygonal units: the DP transformer repairs an invalid rough area with buffer(0)
        if c['op'] == 'DP':
            k0 = 0
            c['unit_valid'] = []
            for u in units_of(c['geom']):
                nk = len(flatten(u))
                if u[0] in ('Polygon', 'MultiPolygon') and nk:
                    un = c['unscale']
                    ps = [('Polygon', [[un[q] for q in rg] for rg in p[1]]) for p in pred[k0:k0 + nk] if p[1] is not None]
                    vl.append('VAL ' + hexwkb(('MultiPolygon', ps))); vref.append(ci)
                k0 += nk
    vo = rr.impl(vl)
    for ci, o in zip(vref, vo):
        d = parse_impl(o)
        cases[ci].setdefault('unit_valid', []).append(d.get('v') == '1')
    # verdicts
    res = []
    for ci, (c, o) in enumerate(zip(cases, io)):
        if o.get('vin') != '1' and ('err' not in o or 'vin' in o):
            res.append(dict(status='skip', why='generated input is not valid (GEOSisValid_r)')); continue
        if 'err' in o:
            res.append(dict(status='violation', why='implementation returned no geometry: ' + o['err'])); continue
        g = got[ci]
        v = dict(status='ok', out_wkt=wkt(o['geom']), valid_out=o.get('v'))
        cin, cout = c['cin'], c['cout']
        geom_ok = g['geom'].strip() == '1'; sub_ok = g['subset'].split()[0] == '1'
        near_ok = g['nearL'].split()[0] == '1' and g['nearR'].split()[0] == '1'
        istp = c['op'][0] == 'T'
        v['dropped'] = dropped_any(cin, cout)
        if istp:
            if o.get('v') != '1':
                v.update(status='violation', why='topology-preserving simplification of a valid input returned an INVALID geometry (GEOSisValid_r)')
            elif not geom_ok:
                why = 'element / ring count changed' if [(k, len(b) if k == 'P' else 0) for k, b in cin] != [(k, len(b) if k == 'P' else 0) for k, b in cout] \
                    else 'vertex subset / order / end point / tolerance clause fails (subset=%s near=%s %s)' % (sub_ok, g['nearL'][:80], g['nearR'][:80])
                v.update(status='violation', why='topology-preserving simplification: ' + why)
            elif c['tol'] == 0 and cin != cout:
                v.update(status='known', fid='F6', why='tolerance 0 dropped vertices that lie ON the simplified line (collinear / repeated)')
        else:
            exact = c.get('in_int') and not c.get('tie')
            units_ok = all(c.get('unit_valid', [])) and not c.get('collapse')
            pred = [p for p in c.get('pred', []) if p[1] is not None]
            if c.get('in_int') and not c['exact_int'] and units_ok:
                v['nonint'] = True     # a valid rough result must come back unchanged, hence with integer coordinates
            v['expected'] = str(pred)[:600] if pred is not None else None
            v['class'] = 'collapse' if c.get('collapse') else ('repair' if not all(c.get('unit_valid', [])) else 'plain')
            if not sub_ok:
                if v['class'] == 'repair' or (v['class'] == 'collapse' and not all(c.get('unit_valid', []))):
                    v.update(status='known', fid='C18-K1', why='GEOSSimplify_r repaired a self-intersecting simplified polygon with buffer(0): output vertices %s are not input vertices' % g['subset'][2:120])
                else:
                    v.update(status='violation', why='output vertices are not a subset of the input vertices: ' + g['subset'][:200])
            elif not near_ok:
                if v['class'] in ('collapse', 'repair'):
                    v.update(status='known', fid='C18-K2', why='GEOSSimplify_r removed a collapsed ring / repaired area: input vertices %s %s are farther than the tolerance from the result' % (g['nearL'][2:80], g['nearR'][2:80]))
                else:
                    v.update(status='violation', why='input vertices farther than the tolerance (2*tol for rings) from the simplified geometry: %s %s' % (g['nearL'][:120], g['nearR'][:120]))
            elif all(k == 'L' for k, b in cin) and not geom_ok:
                v.update(status='violation', why='line simplification: subsequence / end points / tolerance clause fails')
            elif v.get('nonint') and not c.get('tie'):
                v.update(status='corr', why='the model predicts a valid rough result (returned as is), the implementation returned non-integer coordinates')
            elif exact and units_ok and pred != cout:
                v.update(status='corr', why='model M (ring by ring, degenerate rings dropped) and GEOSSimplify_r disagree on a tie-free input whose rough result is valid')
            elif c['tol'] == 0 and cin != cout and v['class'] == 'plain':
                v.update(status='known', fid='F6', why='tolerance 0 dropped vertices that lie ON the simplified line (collinear / repeated)')
                v['model_equal'] = bool(exact and units_ok)
            elif exact and units_ok:
                v['model_equal'] = True
        res.append(v)
    return res


def shrink_geom(rr, case, judge, bad_status, budget=40):
    """delete components / rings / vertices while the same kind of failure persists"""
    def variants(g):
        t, b = g
        if t == 'LineString':
            for i in range(len(b)):
                if len(b) > 2: yield (t, b[:i] + b[i + 1:])
        elif t == 'Polygon':
            for i in range(1, len(b)):
                yield (t, b[:i] + b[i + 1:])
            for ri, r in enumerate(b):
                for i in range(1, len(r) - 1):
                    if len(r) > 4: yield (t, b[:ri] + [r[:i] + r[i + 1:]] + b[ri + 1:])
        elif t != 'Point':
            for i in range(len(b)):
                if len(b) > 1: yield (t, b[:i] + b[i + 1:])
            for i, c in enumerate(b):
                for vv in variants(c):
                    yield (t, b[:i] + [vv] + b[i + 1:])
    cur = case
    progress = True
    while progress and budget > 0:
        progress = False
        for vg in variants(cur['geom']):
            budget -= 1
            if budget <= 0:
                break
            c2 = dict(cur); c2['geom'] = vg
            for k in ('cin', 'cout', 'pred', 'tie', 'collapse', 'unit_valid'):
                c2.pop(k, None)
            try:
                if judge(rr, [c2])[0]['status'] == bad_status:
                    cur = c2; progress = True
                    break
            except Exception:
                pass
    return dict(line=cur['line'], wkt=cur['wkt'])


def stream_simpl(ctx, rr, n, name, ops, doubles=False):
    rng = ctx.rng
    cases = []
    for _ in range(n):
        label, g, hint = gen_geometry(rng, ctx.quick)
        comps = flatten(g)
        tol = gen_tol(rng, all_pts(comps)) if hint is None or rng.random() < 0.3 else hint
        op = rng.choice(ops)
        if g[0] == 'LineString' and len(g[1]) >= 4 and g[1][0] == g[1][-1] and (rng.random() < 0.5 or label.endswith('ospike-ring')):
            op = op + 'R'
        if doubles:
            g, s = to_double_grid(rng, g)
            tol = tol * s if tol < 1e200 else tol
        cases.append(dict(label=label, op=op, tol=tol, geom=g))
    if not doubles:
        for g, tol in [(('LineString', [(0, 0), (1, 0), (2, 0)]), 0), (('Polygon', [[(0, 0), (4, 0), (4, 4), (0, 4), (0, 0)]]), 10),
                       (('Polygon', [[(0, 0), (2, 0), (4, 0), (4, 4), (0, 4), (0, 0)]]), 0),
                       (('Polygon', [[(0, 0), (10, 0), (10, 10), (0, 10), (0, 0)], [(4, 4), (4, 6), (6, 6), (6, 4), (4, 4)]]), 3)]:
            for op in ops:
                cases.append(dict(label='corpus', op=op, tol=tol, geom=g))
    res = judge_simpl(rr, cases)
    dist = {}
    for i, (c, v) in enumerate(zip(cases, res)):
        d = dist.setdefault(c['label'] + '/' + c['op'], dict(n=0, skipped_invalid_input=0, dropped=0, model_equal=0, ties=0, collapse=0, repair=0, tol0=0))
        d['n'] += 1
        if v['status'] == 'skip':
            d['skipped_invalid_input'] += 1; continue
        ctx.count((name, c['line']), bool(v.get('dropped')))
        d['dropped'] += 1 if v.get('dropped') else 0; d['model_equal'] += 1 if v.get('model_equal') else 0
        d['ties'] += 1 if c.get('tie') else 0; d['tol0'] += 1 if c['tol'] == 0 else 0
        d['collapse'] += 1 if v.get('class') == 'collapse' else 0; d['repair'] += 1 if v.get('class') == 'repair' else 0
        if v['status'] in ('violation', 'corr'):
            sh = None
            if want_shrink(ctx, name, v):
                try:
                    sh = shrink_geom(rr, c, judge_simpl, v['status'])
                except Exception:
                    pass
            report(ctx, name, i, c, v, sh)
        elif v['status'] == 'known':
            report(ctx, name, i, c, v)
    ctx.notes.setdefault('distribution', {})[name] = dist
    if cases:
        ctx.sample(cases[0]['line'][:300])
    return dist


# ------------------------------------------------------------------------------------------------ stream D: polygon hull
def polys_of(g):
    return [b for k, b in flatten(g) if k == 'P']


def judge_hull(rr, cases):
    il = []
    for c in cases:
        if c['mode'] == 0:
            c['line'] = 'HULL %d %s %s' % (c['outer'], num(c['param']), hexwkb(c['geom']))
            c['call'] = 'GEOSPolygonHullSimplify_r(g, isOuter=%d, vertexNumFraction=%s)' % (c['outer'], num(c['param']))
        else:
            c['line'] = 'HULLM %d %d %s %s' % (c['outer'], c['mode'], num(c['param']), hexwkb(c['geom']))
            c['call'] = 'GEOSPolygonHullSimplifyMode_r(g, isOuter=%d, mode=%d, %s)' % (c['outer'], c['mode'], num(c['param']))
        c['wkt'] = wkt(c['geom'])
        il.append(c['line'])
    io = [parse_impl(o) for o in rr.impl(il)]
    ml, ref = [], []
    for ci, (c, o) in enumerate(zip(cases, io)):
        if 'err' in o or o.get('vin') != '1':
            continue
        pin, pout = polys_of(c['geom']), polys_of(o['geom'])
        if not is_int_geom([('P', p) for p in pin + pout]):
            continue
        ml.append('HULL %d %s %s' % (c['outer'], mpoly_s(pin), mpoly_s(pout))); ref.append(ci)
    mo = dict(zip(ref, rr.model(ml)))
    res = []
    for ci, (c, o) in enumerate(zip(cases, io)):
        if o.get('vin') != '1' and ('err' not in o or 'vin' in o):
            res.append(dict(status='skip', why='input not valid')); continue
        if 'err' in o:
            res.append(dict(status='violation', why='implementation returned no geometry: ' + o['err'])); continue
        v = dict(status='ok', out_wkt=wkt(o['geom']))
        pin, pout = polys_of(c['geom']), polys_of(o['geom'])
        v['dropped'] = len(all_pts([('P', p) for p in pin])) != len(all_pts([('P', p) for p in pout]))
        if o.get('v') != '1':
            v.update(status='violation', why='polygon hull of a valid polygon is INVALID (GEOSisValid_r)')
        elif ci not in mo:
            v.update(status='violation', why='polygon hull has vertices with non-integer coordinates (not input vertices)')
        elif mo[ci].strip() != '1':
            v.update(status='violation', why='%s hull: structure / vertex subset / containment (vertices + edge midpoints, exact) / area clause fails' % ('outer' if c['outer'] else 'inner'))
        res.append(v)
    return res


def stream_hull(ctx, rr, n):
    rng = ctx.rng
    cases = []
    for _ in range(n):
        r0 = rng.random()
        if r0 < 0.25:
            label, rings = gen_needle_polygon(rng)
            g = ('Polygon', rings)
        elif r0 < 0.75:
            label, rings = gen_polygon(rng, ctx.quick)
            g = ('Polygon', rings)
        else:
            label = 'multipolygon'
            g = None
            elems = gen_coverage(rng, True)
            if elems:
                ps = []
                apart = rng.random() < 0.5           # adjacent members (touching along edges is invalid for a MULTIPOLYGON): pull them apart, or keep every other one
                for k, e in enumerate(elems[::2]):
                    for pg in e:
                        ps.append(('Polygon', [[(x + (1000 * k if apart else 0), y) for x, y in rg] for rg in pg]))
                g = ('MultiPolygon', ps)
            if g is None:
                label, rings = gen_polygon(rng, ctx.quick); g = ('Polygon', rings)
        mode = rng.choice([0, 1, 2])
        param = rng.choice([0, 1, 0.5, 0.1, 0.9, 0.25, round(rng.random(), 3), rng.random()])
        if label.startswith('needle16') and rng.random() < 0.7:
            param = rng.choice([0, 0.1, 0.2, 0.3, 0.5]) if mode != 2 else rng.choice([0.05, 0.2, 0.5, 1])
        cases.append(dict(label=label, geom=g, outer=rng.choice([0, 1]), mode=mode, param=param))
    res = judge_hull(rr, cases)
    dist = {}
    for i, (c, v) in enumerate(zip(cases, res)):
        d = dist.setdefault('%s/outer=%d/mode=%d' % (c['label'], c['outer'], c['mode']), dict(n=0, skipped_invalid_input=0, dropped=0))
        d['n'] += 1
        if v['status'] == 'skip':
            d['skipped_invalid_input'] += 1; continue
        ctx.count(('hull', c['line']), bool(v.get('dropped')))
        d['dropped'] += 1 if v.get('dropped') else 0
        if v['status'] == 'violation':
            sh = None
            if want_shrink(ctx, 'hull', v):
                try:
                    sh = shrink_geom(rr, c, judge_hull, 'violation')
                except Exception:
                    pass
            report(ctx, 'hull', i, c, v, sh)
    ctx.notes.setdefault('distribution', {})['hull'] = dist
    if cases:
        ctx.sample(cases[0]['line'][:300])


# ------------------------------------------------------------------------------------------------ stream E: coverage simplification
def cov_geom(elems):
    return ('GeometryCollection', [('Polygon', e[0]) if len(e) == 1 else ('MultiPolygon', [('Polygon', p) for p in e]) for e in elems])


def elems_of(g):
    """GeometryCollection -> list of elements, each a list of polygons (ring lists)"""
    out = []
    for c in g[1]:
        out.append([b for k, b in flatten(c) if k == 'P'])
    return out


def segset(polys):
    s = set()
    for pg in polys:
        for r in pg:
            for i in range(len(r) - 1):
                a, b = r[i], r[i + 1]
                s.add((a, b) if a <= b else (b, a))
    return s


def judge_cov(rr, cases):
    il = []
    for c in cases:
        c['geom'] = cov_geom(c['elems'])
        c['line'] = 'COV %s %d %s' % (num(c['tol']), c['preserve'], hexwkb(c['geom']))
        c['call'] = 'GEOSCoverageSimplifyVW_r(coverage, %s, preserveBoundary=%d)' % (num(c['tol']), c['preserve'])
        c['wkt'] = wkt(c['geom'])
        il.append(c['line'])
    io = [parse_impl(o) for o in rr.impl(il)]
    ml, ref = [], []
    for ci, (c, o) in enumerate(zip(cases, io)):
        if 'err' in o or o.get('vin') != '1' or o.get('gvin') != '1':
            continue
        eo = elems_of(o['geom'])
        if not is_int_geom([('P', p) for e in eo for p in e]):
            continue
        ml.append('COV %d %s %d %s %d %s' % (c['preserve'], rat_s(t2_of(c['tol'])), len(c['elems']), ' '.join(mpoly_s(e) for e in c['elems']),
                                              len(eo), ' '.join(mpoly_s(e) for e in eo))); ref.append(ci)
        ml.append('NODES %d %s' % (len(c['elems']), ' '.join(mpoly_s(e) for e in c['elems']))); ref.append((ci, 'nodes'))
    mo = dict(zip(ref, rr.model(ml)))
    res = []
    for ci, (c, o) in enumerate(zip(cases, io)):
        if 'err' in o and o.get('vin') == '1' and o.get('gvin') == '1':
            res.append(dict(status='violation', why='implementation returned no geometry: ' + o['err'])); continue
        if o.get('vin') != '1' or o.get('gvin') != '1':
            res.append(dict(status='skip', why='generated coverage is not valid (GEOSCoverageIsValid_r / GEOSisValid_r)')); continue
        v = dict(status='ok', out_wkt=wkt(o['geom']))
        ein, eout = c['elems'], elems_of(o['geom'])
        nin = len(all_pts([('P', p) for e in ein for p in e])); nout = len(all_pts([('P', p) for e in eout for p in e]))
        v['dropped'] = nin != nout
        v['nodes'] = mo.get((ci, 'nodes'), '0 0')
        why = None
        if o.get('vout') != '1':
            why = 'result is not a valid coverage (GEOSCoverageIsValid_r = %s)' % o.get('vout')
        elif o.get('v') != '1':
            why = 'a polygon of the result is invalid (GEOSisValid_r)'
        elif sum(len(e) for e in ein) != sum(len(e) for e in eout) or len(ein) != len(eout):
            why = 'number of polygons changed: %d -> %d' % (sum(len(e) for e in ein), sum(len(e) for e in eout))
        elif ci not in mo:
            why = 'result has vertices with non-integer coordinates (not input vertices)'
        elif mo[ci].strip() != '1':
            why = 'coverage clause fails (extracted checker): ring structure / vertex subset / nodes kept / boundary kept / area within removed*tol^2'
        else:
            # same union up to tolerance: exact areas of the unions computed by GEOSCoverageUnion_r, and GEOS' own symmetric difference
            try:
                ui = polys_of(from_hex(o['uin'])); uo = polys_of(from_hex(o['uout']))
                a_in = sum(abs(area2(p[0])) - sum(abs(area2(h)) for h in p[1:]) for p in ui)
                a_out = sum(abs(area2(p[0])) - sum(abs(area2(h)) for h in p[1:]) for p in uo)
                s_in = sum(abs(area2(p[0])) - sum(abs(area2(h)) for h in p[1:]) for e in ein for p in e)
                s_out = sum(abs(area2(p[0])) - sum(abs(area2(h)) for h in p[1:]) for e in eout for p in e)
                # number of removed vertices (counted per polygon, so never below the number removed from the union's boundary;
                # GEOSCoverageUnion_r may start / split the boundary rings differently, its own vertex counts are not comparable)
                nb_in, nb_out = nin, min(nin, nout)
                T2 = t2_of(c['tol'])
                if a_in != s_in:
                    why = 'input: area of GEOSCoverageUnion_r differs from the sum of polygon areas (%s vs %s, doubled)' % (a_in, s_in)
                elif a_out != s_out:
                    why = 'result polygons overlap or leave gaps: area of their GEOSCoverageUnion_r %s != sum of their areas %s (doubled, exact)' % (a_out, s_out)
                elif c['preserve'] and segset(ui) != segset(uo):
                    why = 'preserveBoundary=1 but the boundary of the union changed'
                elif abs(a_out - a_in) > 2 * max(0, nb_in - nb_out) * T2:
                    why = 'area of the union changed by %s/2 with %d boundary vertices removed, tolerance^2 = %s' % (abs(a_out - a_in), nb_in - nb_out, float(T2))
                elif float(o.get('symdiff', '0')) > float((nb_in - nb_out) * T2) * (1 + 1e-9) + 1e-9:
                    why = 'symmetric difference of the unions (GEOSSymDifference_r) %s exceeds removed*tol^2' % o.get('symdiff')
            except Exception as e:
                why = 'union of the result could not be evaluated: %s' % e
        if why:
            v.update(status='violation', why='coverage simplification: ' + why)
        res.append(v)
    return res


def shrink_cov(rr, case, budget=30):
    cur = case
    progress = True
    while progress and budget > 0 and len(cur['elems']) > 2:
        progress = False
        for i in range(len(cur['elems'])):
            budget -= 1
            c2 = dict(cur); c2['elems'] = cur['elems'][:i] + cur['elems'][i + 1:]
            try:
                if judge_cov(rr, [c2])[0]['status'] == 'violation':
                    cur = c2; progress = True; break
            except Exception:
                pass
    return dict(line=cur['line'], wkt=cur['wkt'])


def stream_cov(ctx, rr, n):
    rng = ctx.rng
    cases = []
    for _ in range(n):
        if rng.random() < 0.2:
            # free rings (no nodes) with 16k / 16k+-1 vertices: an island filling the hole of a box, isolated polygons
            kind, ring = g_needle_ring(rng)
            xs = [p[0] for p in ring]; ys = [p[1] for p in ring]; m = rng.randint(8, 40)
            box = [(min(xs) - m, min(ys) - m), (max(xs) + m, min(ys) - m), (max(xs) + m, max(ys) + m), (min(xs) - m, max(ys) + m), (min(xs) - m, min(ys) - m)]
            c = rng.random()
            if c < 0.5:
                elems = [[[box, ring[::-1]]], [[ring]]]
            elif c < 0.75:
                elems = [[[ring]], [[[(x + 3 * (max(xs) - min(xs)) + 50, y) for x, y in box]]]]
            else:
                elems = [[[box, ring[::-1]]], [[[(x + 3 * (max(xs) - min(xs)) + 200, y) for x, y in ring]]]]
            tol = rng.choice([2, 4, 8, 12, 20, 40, 100])
            cases.append(dict(elems=elems, tol=tol, preserve=rng.choice([0, 1]), needle=True))
            continue
        elems = gen_coverage(rng, ctx.quick)
        if not elems:
            continue
        pts = [p for e in elems for pg in e for r in pg for p in r]
        tol = rng.choice([0, 0.5, 1, 1.5, 2, 3, 5, 8, 20, 1e3, round(rng.uniform(0, 10), 2)])
        cases.append(dict(elems=elems, tol=tol, preserve=rng.choice([0, 1])))
    # hand-made: two squares sharing an edge with a wiggle; island in a hole
    sq = lambda x0, y0, x1, y1: [(x0, y0), (x1, y0), (x1, y1), (x0, y1), (x0, y0)]
    cases.append(dict(elems=[[[[(0, 0), (10, 0), (10, 4), (11, 5), (10, 6), (10, 10), (0, 10), (0, 0)]]],
                             [[[(10, 0), (20, 0), (20, 10), (10, 10), (10, 6), (11, 5), (10, 4), (10, 0)]]]], tol=2, preserve=1))
    cases.append(dict(elems=[[[sq(0, 0, 30, 30), [(10, 10), (10, 20), (15, 21), (20, 20), (20, 10), (10, 10)]]],
                             [[[(10, 10), (20, 10), (20, 20), (15, 21), (10, 20), (10, 10)]]]], tol=3, preserve=0))
    res = judge_cov(rr, cases)
    dist = dict(n=0, skipped_invalid_input=0, dropped=0, preserve=0, with_nodes3=0, multipolygon_members=0, holes=0, tol0=0, free_ring_16k=0)
    for i, (c, v) in enumerate(zip(cases, res)):
        dist['n'] += 1
        if v['status'] == 'skip':
            dist['skipped_invalid_input'] += 1; continue
        ctx.count(('cov', c['line']), bool(v.get('dropped')))
        dist['dropped'] += 1 if v.get('dropped') else 0; dist['preserve'] += c['preserve']; dist['tol0'] += 1 if c['tol'] == 0 else 0
        dist['free_ring_16k'] += 1 if c.get('needle') else 0
        dist['with_nodes3'] += 1 if int(v.get('nodes', '0 0').split()[0]) > 0 else 0
        dist['multipolygon_members'] += 1 if any(len(e) > 1 for e in c['elems']) else 0
        dist['holes'] += 1 if any(len(p) > 1 for e in c['elems'] for p in e) else 0
        if v['status'] == 'violation':
            sh = None
            if want_shrink(ctx, 'cov', v):
                try:
                    sh = shrink_cov(rr, c)
                except Exception:
                    pass
            report(ctx, 'cov', i, c, v, sh)
    ctx.notes.setdefault('distribution', {})['cov'] = dist
    for need in ('dropped', 'preserve', 'with_nodes3', 'holes'):
        if cases and dist[need] == 0:
            ctx.broken.append(dict(kind='generator', name='coverage distribution', detail='no coverage case with %s' % need))
    if cases:
        ctx.sample(cases[0]['line'][:300])


# ------------------------------------------------------------------------------------------------ stream G: derived inputs
def stream_derived(ctx, rr, n):
    """inputs derived with GEOSDensify_r (inserts vertices ON the segments: the distance-0 case) and GEOSRemoveRepeatedPoints_r"""
    rng = ctx.rng
    base = []
    for _ in range(n):
        label, g, _h = gen_geometry(rng, ctx.quick)
        ext = max([abs(v) for p in all_pts(flatten(g)) for v in p] + [4])
        if rng.random() < 0.6:
            base.append(('DENS', rng.choice([ext / 3, ext / 6, ext / 12, max(1, ext // 8), ext / 7.3]), g, label))
        else:
            base.append(('RRP', rng.choice([0, 0, 1, 2]), g, label))
    outs = [parse_impl(o) for o in rr.impl(['%s %s %s' % (op, num(t), hexwkb(g)) for op, t, g, _ in base])]
    cases = []
    for (op, t, g, label), o in zip(base, outs):
        if 'geom' not in o or o.get('v') != '1':
            continue
        comps = flatten(o['geom'])
        if not comps or len(all_pts(comps)) > 250:
            continue
        tol = rng.choice([0, 0, 1e-9, 0.5, 1, 2])
        cases.append(dict(label='%s(%s)' % (op.lower(), label.split(':')[0]), op=rng.choice(['DP', 'TP']), tol=tol, geom=o['geom']))
    res = judge_simpl(rr, cases)
    dist = {}
    for i, (c, v) in enumerate(zip(cases, res)):
        d = dist.setdefault(c['label'] + '/' + c['op'], dict(n=0, skipped_invalid_input=0, dropped=0, tol0=0))
        d['n'] += 1
        if v['status'] == 'skip':
            d['skipped_invalid_input'] += 1; continue
        ctx.count(('derived', c['line']), bool(v.get('dropped')))
        d['dropped'] += 1 if v.get('dropped') else 0; d['tol0'] += 1 if c['tol'] == 0 else 0
        if v['status'] in ('violation', 'corr'):
            sh = None
            if want_shrink(ctx, 'derived', v):
                try:
                    sh = shrink_geom(rr, c, judge_simpl, v['status'])
                except Exception:
                    pass
            report(ctx, 'derived', i, c, v, sh)
        elif v['status'] == 'known':
            report(ctx, 'derived', i, c, v)
    ctx.notes.setdefault('distribution', {})['derived'] = dist


# ------------------------------------------------------------------------------------------------ entry point
def run(ctx):
    ctx.cov['rule'] = ('inputs: open / closed lines (random walks, zigzags at the tolerance, collinear runs and repeated points, exactly tied '
                       'distances, vertices projecting beyond the chord, stars, thin triangles, rectilinear rings, rings whose origin is a spike beyond both neighbours, needle rings with exactly 16k / 16k+-1 vertices), polygons with holes (lattice '
                       'regions with shared wiggly edges, stars, bump-and-spike), multi-geometries, collections, edge-matched tilings with 3- and '
                       '4-way nodes, holes, islands and gaps; integer coordinates and the same mapped to full-precision binary64; tolerances 0 .. '
                       '> extent; hull parameters 0..1, both modes and sides; boundary preservation on / off. non-trivial = the call removed at '
                       'least one vertex (coordinate level: and kept an interior one); distinct by call text')
    ctx.assumptions += [
        'model M works on exact integers (binary64 inputs are scaled by one power of two): the implementation compares ROUNDED distances, so '
        'model and implementation are compared for equality only where no two compared quantities are within 2^-30 (relative, squared) of '
        'each other - those cases, and all binary64 cases, are judged by the relational clauses only',
        'relational clauses allow for the rounding of the implementation: tolerance^2 * (1 + 2^-40) on integer inputs; '
        '(tol * (1 + 2^-30) + 2^-38 * max|ordinate|)^2 on full-precision inputs',
        'validity of inputs and outputs is GEOSisValid_r / GEOSCoverageIsValid_r (not an exact model); the union is GEOSCoverageUnion_r, '
        'its area evaluated exactly; "same union up to tolerance" is read as: area change <= (removed boundary vertices) * tol^2 '
        '(each Visvalingam-Whyatt removal cuts a corner of area <= tol^2) and GEOS\' own symmetric difference within the same bound',
        'polygon-hull containment is checked exactly at all vertices and edge midpoints (even-odd location) and by the area order, not on the continuum',
        'distances over the reals: theorems depend on the standard library\'s real-number axioms only',
        'correspondence is sampled (generator quality bounds it)']
    ok_build = ctx.build_repo('rel')
    # tie G: DouglasPeuckerLineSimplifier::simplifySection is regenerated from /repo's current source (Gen/DP_simplifySection.v);
    # C18/DPGen.v proves it equal to the hand model `kept` - a unit that no longer translates or a proof that no longer goes
    # through is recorded in ctx.broken (reported as VIOLATION ... no-failing-input-found unless a stream finds an input)
    from translator.units import BY_PROPERTY
    ctx.translate(BY_PROPERTY.get('C18', []))
    ok_coq, ax = ctx.coq_build('Properties_C18')
    if not ok_coq:
        # vlib/core.py parses the header line "Axioms:" of Print Assumptions as an axiom called 'Axioms' (only visible for theorems
        # that do depend on axioms).  Redo the whitelist test without that pseudo entry; everything else is left as the framework does it.
        from vlib.core import AXIOM_WHITELIST, AXIOM_PREFIX_WHITELIST
        real = set(a for a in ax if a != 'Axioms')
        bad = [a for a in real if not (a in AXIOM_WHITELIST or a.startswith(AXIOM_PREFIX_WHITELIST))]
        for b in list(ctx.broken):
            if b['kind'] == 'proof' and b['name'] == 'Print Assumptions' and 'Axioms' in ax and not bad:
                ctx.broken.remove(b)
                ctx.cov['trusted_base'] = sorted(set(ctx.cov['trusted_base']) - {'Axioms'})
                g = ctx.hygiene()
                if g:
                    ctx.broken.append(dict(kind='proof', name='hygiene gate', detail=g))
                else:
                    ok_coq = True
                    ctx.log('coq ok; axioms: %s' % sorted(real))
    ctx.log('proofs %s' % ('ok' if ok_coq else 'BROKEN'))
    drv = ctx.ocaml_driver('C18')
    ctx.log('driver built')
    hexe = os.path.join(BUILD, 'bin', 'c18')
    if not ok_build or not ctx.cxx(os.path.join(ROOT, 'harness/c18.cpp'), hexe, 'rel'):
        return
    if not drv:
        return
    rr = R(ctx, drv, hexe)
    q = ctx.quick
    for name, f in [('dpl', lambda: stream_dpl(ctx, rr, 4000 if q else 60000)),
                    ('dp', lambda: stream_simpl(ctx, rr, 2000 if q else 12000, 'dp', ['DP'])),
                    ('tp', lambda: stream_simpl(ctx, rr, 2000 if q else 12000, 'tp', ['TP'])),
                    ('dbl', lambda: stream_simpl(ctx, rr, 800 if q else 4000, 'dbl', ['DP', 'TP'], doubles=True)),
                    ('derived', lambda: stream_derived(ctx, rr, 200 if q else 1500)),
                    ('hull', lambda: stream_hull(ctx, rr, 1500 if q else 30000)),
                    ('cov', lambda: stream_cov(ctx, rr, 800 if q else 15000))]:
        f()
        ctx.log('stream %s done: %d evaluations so far, %d violations' % (name, ctx.cov['evaluations'], len(ctx.violations)))
    ctx.cov['traces_validated_against_impl'] = ctx.cov['evaluations']
    # self-check of the generators against the case splits of the proofs
    dist = ctx.notes.get('distribution', {})
    tot = lambda st, k: sum(d.get(k, 0) for d in dist.get(st, {}).values() if isinstance(d, dict))
    for st, k in [('dp', 'collapse'), ('dp', 'repair'), ('dp', 'model_equal'), ('dp', 'tol0'), ('tp', 'dropped'), ('tp', 'tol0'), ('dbl', 'dropped'), ('hull', 'dropped')]:
        if tot(st, k) == 0:
            ctx.broken.append(dict(kind='generator', name='%s distribution' % st, detail='no case with %s generated' % k))
