"""claimed checks (-> MANIFEST.json via tools/mkmanifest.py)"""
HOOK_COMMITS = []
CHECKS = {
 'C15': dict(
  text='Theorems (Coq, closed under the global context) about an executable model of TemplateSTRtree: build terminates and is well formed for capacity>=2 (and never terminates for capacity 1), bounding-box query = filter over live items up to permutation, remove replaces exactly one live leaf, best-first nearest neighbour returns a minimum for any admissible metric, every legal history refines the abstract multiset of live pairs, treeSize() equals the node count. The model is tied to the code by running its OCaml extraction beside the real tree (C API, C++ template, 1-D interval variant) on generated histories; other index classes are compared with the list-filter specification only.',
  note='Trusted: Coq kernel, extraction (ExtrOcamlBasic), OCaml/C++/Python glue, generators. Modelled not verified: flat node vector abstracted to a tree; std::sort as an arbitrary sorting permutation; double ceil/sqrt as exact integer ceilings; coordinates integer-valued. Axioms: none.',
  technique='Coq refinement proof of a hand model + differential correspondence of the extracted model against the implementation'),
}
_later = 'check not built yet in this round; planned per DESIGN.md section 7 (no claim made)'
NOT_YET = {('C%02d' % i): _later for i in range(1, 21)}
