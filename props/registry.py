"""claimed checks (-> MANIFEST.json via tools/mkmanifest.py). One JSON per claimed property in props/meta/<ID>.json:
{"text": ..., "note": ..., "technique": ..., "translated": bool, "hook_commits": [...]}"""
import json, os
HERE = os.path.dirname(os.path.abspath(__file__))
CHECKS = {}
HOOK_COMMITS = []
for f in sorted(os.listdir(os.path.join(HERE, 'meta'))):
    if f.endswith('.json'):
        d = json.load(open(os.path.join(HERE, 'meta', f)))
        CHECKS[f[:-5]] = d
        HOOK_COMMITS += d.get('hook_commits', [])
_later = 'check not built yet in this round; planned per DESIGN.md section 7 (no claim made)'
NOT_YET = {('C%02d' % i): _later for i in range(1, 21)}
