"""C19 — linework operations preserve the point set and their structural contracts.

proof:  coq/theories/C19/LinRefDefs.v (code-level model M of LengthLocationMap / LinearLocation / LinearIterator /
        ExtractLineByLocation / LengthIndexOfPoint over exact rationals), LinRefProofs.v, LinRefNearest.v (round trips, substring
        length, projected-then-interpolated point is the nearest one), CheckDefs.v / CheckProofs.v / MergeLength.v (relational
        specifications R with certified checkers for merging, noding, polygonizing, shared paths), Properties_C19.v.
tie:    M is extracted to OCaml and run beside GEOSProject(Normalized)_r / GEOSInterpolate(Normalized)_r / GEOSLineSubstring_r and
        the C++ classes LengthLocationMap / LinearLocation themselves (exact equality on polylines with integer segment lengths
        and dyadic fractions, exact-rational tolerance elsewhere); the certified checkers are run on the outputs of GEOSNode_r,
        GEOSUnaryUnion_r, GEOSLineMerge(Directed)_r, GEOSPolygonize_full_r (+ _r, _valid_r, getCutEdges, BuildArea),
        GEOSSharedPaths_r.  The property clauses on linear referencing are also decided directly (Fractions) on the outputs.
"""
import json, math, os, random, sys
if hasattr(sys, 'set_int_max_str_digits'):
    sys.set_int_max_str_digits(0)          # the model's rationals are printed unreduced
from fractions import Fraction as Fr
from vlib.core import ROOT, BUILD

HEXE = os.path.join(BUILD, 'bin', 'c19')
TOL_REL = Fr(1, 10 ** 9)


# ====================================================================== small exact geometry (Python side, for generators / S-level)
def cross(o, a, b):
    return (a[0] - o[0]) * (b[1] - o[1]) - (a[1] - o[1]) * (b[0] - o[0])


def seg_meet(s, t):
    """exact: do two non-degenerate grid segments share a point?"""
    a, b = s; c, d = t
    d1 = cross(a, b, c); d2 = cross(a, b, d); d3 = cross(c, d, a); d4 = cross(c, d, b)
    if d1 == 0 and d2 == 0 and d3 == 0 and d4 == 0:
        return max(min(a[0], b[0]), min(c[0], d[0])) <= min(max(a[0], b[0]), max(c[0], d[0])) and \
               max(min(a[1], b[1]), min(c[1], d[1])) <= min(max(a[1], b[1]), max(c[1], d[1]))
    return ((d1 >= 0 and d2 <= 0) or (d1 <= 0 and d2 >= 0)) and ((d3 >= 0 and d4 <= 0) or (d3 <= 0 and d4 >= 0))


def dotv(o, a, b):
    return (a[0] - o[0]) * (b[0] - o[0]) + (a[1] - o[1]) * (b[1] - o[1])


def path_simple(pts):
    """consecutive segments share only their common vertex, the first and last segment of a closed path only the closing
    point, all other pairs nothing"""
    ss = [(pts[i], pts[i + 1]) for i in range(len(pts) - 1) if pts[i] != pts[i + 1]]
    n = len(ss)
    if n == 0:
        return False
    closed = ss[0][0] == ss[-1][1]
    for i in range(n):
        for j in range(i + 1, n):
            a, b = ss[i]; c, d = ss[j]
            if j == i + 1:
                if cross(a, b, d) == 0 and dotv(b, d, a) > 0:
                    return False
                if closed and n == 2:
                    return False
                continue
            if closed and i == 0 and j == n - 1:
                if cross(a, b, c) == 0 and dotv(a, c, b) > 0:
                    return False
                if cross(a, b, c) == 0 and cross(a, b, d) == 0:
                    continue
                # distinct carrier lines: the closing point is the only common point
                continue
            if seg_meet(ss[i], ss[j]):
                return False
    return True


def d2_pt_seg(p, a, b):
    """exact squared distance (Fractions) from p to segment ab"""
    px, py = Fr(p[0]), Fr(p[1]); ax, ay = Fr(a[0]), Fr(a[1]); bx, by = Fr(b[0]), Fr(b[1])
    ux, uy = bx - ax, by - ay; vx, vy = px - ax, py - ay
    L = ux * ux + uy * uy
    if L == 0:
        return vx * vx + vy * vy
    dot = vx * ux + vy * uy
    if dot <= 0:
        return vx * vx + vy * vy
    if dot >= L:
        return (px - bx) ** 2 + (py - by) ** 2
    c = vx * uy - vy * ux
    return c * c / L


# ====================================================================== token format of the harness / driver
def parse_geom(toks, i=0):
    t = toks[i]
    if t == 'PT':
        if toks[i + 1] == 'E':
            return ('PT', None), i + 2
        return ('PT', (float(toks[i + 1]), float(toks[i + 2]))), i + 3
    if t in ('LS', 'LR'):
        n = int(toks[i + 1]); p = i + 2
        pts = [(float(toks[p + 2 * k]), float(toks[p + 2 * k + 1])) for k in range(n)]
        return ('LS', pts), p + 2 * n
    if t == 'PG':
        k = int(toks[i + 1]); p = i + 2; rings = []
        for _ in range(k):
            n = int(toks[p]); p += 1
            rings.append([(float(toks[p + 2 * j]), float(toks[p + 2 * j + 1])) for j in range(n)]); p += 2 * n
        return ('PG', rings), p
    if t in ('MPT', 'MLS', 'MPG', 'GC'):
        m = int(toks[i + 1]); p = i + 2; parts = []
        for _ in range(m):
            g, p = parse_geom(toks, p); parts.append(g)
        return (t, parts), p
    raise ValueError('token ' + t)


def parse_out(s):
    """harness result -> list of geometries (fields separated by ' | '), or None on ERR"""
    if s.startswith(('ERR', 'CRASH', 'TIMEOUT', 'NULL')) or s == 'MISSING':
        return None
    res = []
    for f in s.split(' | '):
        g, _ = parse_geom(f.split())
        res.append(g)
    return res


def lines_of(g):
    t, d = g
    if t == 'LS':
        return [d] if d else []
    if t in ('MLS', 'GC'):
        out = []
        for x in d:
            out += lines_of(x)
        return out
    return []


def polys_of(g):
    t, d = g
    if t == 'PG':
        return [d] if d else []
    if t in ('MPG', 'GC'):
        out = []
        for x in d:
            out += polys_of(x)
        return out
    return []


def fnum(v):
    if isinstance(v, int):
        return str(v)
    if isinstance(v, Fr):
        v = float(v)
    if v == int(v) and abs(v) < 2 ** 53:
        return str(int(v))
    return repr(float(v))


def wkt_line(pts):
    return '(' + ', '.join('%s %s' % (fnum(x), fnum(y)) for x, y in pts) + ')'


def wkt_lines(lines):
    if len(lines) == 1:
        return 'LINESTRING ' + wkt_line(lines[0])
    return 'MULTILINESTRING (' + ', '.join(wkt_line(l) for l in lines) + ')'


def wkt_mls(lines):
    return 'MULTILINESTRING (' + ', '.join(wkt_line(l) for l in lines) + ')'


def scale_of(vals):
    """smallest power of two K such that v*K is an integer for every float / int v"""
    K = 1
    for v in vals:
        if isinstance(v, float):
            d = v.as_integer_ratio()[1]
            if d > K:
                K = d
    return K


def to_int(v, K):
    if isinstance(v, int):
        return v * K
    n, d = v.as_integer_ratio()
    return n * (K // d)


def all_vals(list_of_lines):
    return [v for ls in list_of_lines for l in ls for p in l for v in p]


def ilines(lines, K):
    return [[(to_int(x, K), to_int(y, K)) for x, y in l] for l in lines]


def tok_lines(lines):
    return ' '.join([str(len(lines))] + [' '.join([str(len(l))] + ['%d %d' % p for p in l]) for l in lines])


def tok_polys(polys):
    return ' '.join([str(len(polys))] + [' '.join([str(len(rs))] + [' '.join([str(len(r))] + ['%d %d' % p for p in r]) for r in rs]) for rs in polys])


def frs(q):
    q = Fr(q)
    return str(q.numerator) if q.denominator == 1 else '%d/%d' % (q.numerator, q.denominator)


def tok_lens(comps):
    return ' '.join([str(len(comps))] + [' '.join([str(len(c))] + [frs(s) for s in c]) for c in comps])


def parse_q(s):
    return Fr(s)


# ====================================================================== generators
DIRS8 = [(1, 0), (1, 1), (0, 1), (-1, 1), (-1, 0), (-1, -1), (0, -1), (1, -1)]
PYTH = [(3, 4, 5), (5, 12, 13), (8, 15, 17), (7, 24, 25), (20, 21, 29), (1, 0, 1), (0, 1, 1), (4, 3, 5), (12, 5, 13)]


def fp_map(rng):
    """grid -> full-precision doubles (one map for the whole case, so equal grid points stay equal)"""
    s = rng.choice([1e-3, 0.1, 0.7, 1.3, 7.3, 1e3, 123456.789]) * (1 + rng.random() * rng.choice([0, 1e-9, 0.3]))
    ox = rng.choice([0.0, 0.0, 1e3, 1e6, -5e5]) * (1 + rng.random() * 1e-3)
    oy = rng.choice([0.0, 0.0, 1e3, 1e6, -5e5]) * (1 + rng.random() * 1e-3)
    return lambda p: (p[0] * s + ox, p[1] * s + oy)


def int_map(rng):
    k = rng.choice([1, 1, 1, 2, 3, 7, 64, 1000, 2 ** 16])
    tx = rng.choice([0, 0, 5, -17, 10 ** 4, -(2 ** 20)]); ty = rng.choice([0, 0, -3, 11, 10 ** 5, 2 ** 20])
    return lambda p: (p[0] * k + tx, p[1] * k + ty)


def rand_walk(rng, n, R, start=None, steps=None):
    p = start or (rng.randint(0, R), rng.randint(0, R))
    pts = [p]
    for _ in range(n):
        dx, dy = rng.choice(steps or DIRS8)
        k = rng.randint(1, 3)
        p = (p[0] + dx * k, p[1] + dy * k); pts.append(p)
    return pts


def gen_merge(rng):
    """-> (lines, label). pieces of paths cut at vertices, branches, isolated loops, duplicates, degenerate lines"""
    lines = []; R = rng.choice([4, 8, 20])
    mode = rng.random()
    if mode < 0.6:
        for _ in range(rng.randint(1, 3)):
            base = rand_walk(rng, rng.randint(2, 9), R)
            if rng.random() < 0.3:
                base.append(base[0])                      # closed: an isolated loop once cut up
            cuts = sorted(set([0, len(base) - 1] + [rng.randint(1, len(base) - 2) for _ in range(rng.randint(0, 4))] if len(base) > 2 else [0, len(base) - 1]))
            for a, b in zip(cuts, cuts[1:]):
                piece = base[a:b + 1]
                if rng.random() < 0.4:
                    piece = piece[::-1]
                lines.append(piece)
            if rng.random() < 0.5:                        # branches: degree-3 (or 4) nodes
                for _ in range(rng.randint(1, 2)):
                    v = rng.choice(base)
                    lines.append(rand_walk(rng, rng.randint(1, 3), R, start=v))
        label = 'cut-paths'
    else:
        nodes = [(rng.randint(0, R), rng.randint(0, R)) for _ in range(rng.randint(2, 7))]
        for _ in range(rng.randint(1, 9)):
            a, b = rng.choice(nodes), rng.choice(nodes)
            mid = [(rng.randint(0, R), rng.randint(0, R)) for _ in range(rng.randint(0, 2))]
            lines.append([a] + mid + [b])
        label = 'random-graph'
    if rng.random() < 0.15 and lines:
        lines.append(list(rng.choice(lines)))             # duplicate line
    if rng.random() < 0.15:
        p = (rng.randint(0, R), rng.randint(0, R)); lines.append([p, p])       # zero-length line
    if rng.random() < 0.2 and lines:
        l = rng.choice(lines); i = rng.randint(0, len(l) - 1); l.insert(i, l[i])   # repeated point
    rng.shuffle(lines)
    return lines, label


def gen_node(rng):
    R = rng.choice([3, 6, 12, 40, 1000]); lines = []
    mode = rng.random()
    if mode < 0.45:
        for _ in range(rng.randint(1, 7)):
            n = rng.randint(2, 4)
            lines.append([(rng.randint(0, R), rng.randint(0, R)) for _ in range(n)]); label = 'random'
    elif mode < 0.6:                                       # several lines through one lattice point
        c = (rng.randint(0, R), rng.randint(0, R))
        for _ in range(rng.randint(2, 6)):
            dx, dy = rng.randint(-5, 5), rng.randint(-5, 5)
            if (dx, dy) == (0, 0):
                dx = 1
            k1, k2 = rng.randint(0, 3), rng.randint(1, 3)
            lines.append([(c[0] - k1 * dx, c[1] - k1 * dy), (c[0] + k2 * dx, c[1] + k2 * dy)])
        label = 'star'
    elif mode < 0.8:                                       # collinear overlaps, T junctions on one carrier line
        dx, dy = rng.choice([(1, 0), (0, 1), (1, 1), (2, 1), (3, -1)])
        o = (rng.randint(0, R), rng.randint(0, R))
        for _ in range(rng.randint(2, 5)):
            a, b = rng.randint(-6, 6), rng.randint(-6, 6)
            if a == b:
                b += 1
            lines.append([(o[0] + a * dx, o[1] + a * dy), (o[0] + b * dx, o[1] + b * dy)])
        for _ in range(rng.randint(0, 3)):
            a = rng.randint(-6, 6)
            lines.append([(o[0] + a * dx, o[1] + a * dy), (rng.randint(0, R), rng.randint(0, R))])
        label = 'collinear'
    else:                                                  # self-crossing lines and rings
        for _ in range(rng.randint(1, 3)):
            l = [(rng.randint(0, R), rng.randint(0, R)) for _ in range(rng.randint(3, 7))]
            if rng.random() < 0.5:
                l.append(l[0])
            lines.append(l)
        label = 'self-crossing'
    lines = [l for l in lines if len(l) >= 2]
    if rng.random() < 0.1 and lines:
        l = rng.choice(lines); i = rng.randint(0, len(l) - 1); l.insert(i, l[i])
    return lines, label


def chain_edges(rng, edges):
    """merge unit edges into longer lines through vertices of degree exactly two (so lines still meet only at end points)"""
    deg = {}
    for a, b in edges:
        deg[a] = deg.get(a, 0) + 1; deg[b] = deg.get(b, 0) + 1
    adj = {}
    for e in edges:
        adj.setdefault(e[0], []).append(e); adj.setdefault(e[1], []).append(e)
    used = set(); lines = []
    order = list(edges); rng.shuffle(order)
    for e in order:
        if e in used:
            continue
        used.add(e); path = [e[0], e[1]]
        for end in (1, 0):
            while True:
                v = path[-1] if end else path[0]
                if deg[v] != 2 or rng.random() < 0.25:
                    break
                nxt = [f for f in adj[v] if f not in used]
                if not nxt:
                    break
                f = nxt[0]; used.add(f)
                w = f[1] if f[0] == v else f[0]
                if end:
                    path.append(w)
                else:
                    path.insert(0, w)
                if w == (path[0] if end else path[-1]):
                    break
        lines.append(path)
    return lines


def fan_directions():
    import functools
    ds = [(x, y) for x in range(-3, 4) for y in range(-3, 4) if (x, y) != (0, 0) and math.gcd(abs(x), abs(y)) == 1]
    def half(d): return 0 if (d[1] > 0 or (d[1] == 0 and d[0] > 0)) else 1
    def cmp(u, v):
        if half(u) != half(v): return half(u) - half(v)
        c = u[0] * v[1] - u[1] * v[0]
        return -1 if c > 0 else (1 if c < 0 else 0)
    return sorted(ds, key=functools.cmp_to_key(cmp))


FAN_DIRS = fan_directions()


def gen_fan(rng):
    """correctly noded linework with a node of high degree: several rings (petals) that meet only in one node c, free or
    inside a box with c in its interior / at its corner / on its edge; plus dangles at c and nested boxes"""
    D = FAN_DIRS; n = len(D)
    where = rng.choice(['free', 'interior', 'corner', 'edge', 'interior'])
    ok = {'free': lambda d: True, 'interior': lambda d: True,
          'corner': lambda d: d[0] > 0 and d[1] > 0, 'edge': lambda d: d[1] > 0}[where]
    slots = [j for j in range(n) if ok(D[j]) and ok(D[(j + 1) % n])]
    rng.shuffle(slots)
    used = set(); petals = []
    for j in slots:
        if len(petals) >= rng.choice([2, 3, 3, 4, 5]):
            break
        if j in used or (j + 1) % n in used or (j - 1) % n in used and False:
            continue
        if {j, (j + 1) % n} & used:
            continue
        used |= {j, (j + 1) % n}
        k = rng.randint(1, 3)
        a = (D[j][0] * k, D[j][1] * k); b = (D[(j + 1) % n][0] * k, D[(j + 1) % n][1] * k)
        petals.append(((0, 0), a, b))
    lines = []
    for c, a, b in petals:
        r = rng.random()
        if r < 0.5: lines.append([c, a, b, c] if rng.random() < 0.5 else [c, b, a, c])
        elif r < 0.8: lines += [[c, a], [a, b], [b, c]]
        else: lines += [[c, a, b], [b, c]]
    free = [j for j in range(n) if j not in used and ok(D[j])]
    for j in rng.sample(free, min(len(free), rng.choice([0, 0, 1, 2]))):
        lines.append([(0, 0), D[j]])                                        # dangle at the hub
    B = 12
    if where == 'interior':
        lines.append([(-B, -B), (B, -B), (B, B), (-B, B), (-B, -B)])
        if rng.random() < 0.3:
            lines.append([(-B - 3, -B - 3), (B + 3, -B - 3), (B + 3, B + 3), (-B - 3, B + 3), (-B - 3, -B - 3)])
    elif where == 'corner':
        lines.append([(0, 0), (B, 0), (B, B), (0, B), (0, 0)])
    elif where == 'edge':
        lines += [[(-B, 0), (0, 0)], [(0, 0), (B, 0)], [(B, 0), (B, B), (-B, B), (-B, 0)]]
    lines = [l[::-1] if rng.random() < 0.3 else l for l in lines]
    rng.shuffle(lines)
    return lines, 'fan-' + where


def gen_nest(rng):
    """correctly noded linework with deep disjoint nesting: islands in lakes in islands (3..6 levels), one or two siblings per
    level, rings as rectangles / diamonds / triangles given as one closed line (any start vertex, either direction) or as two
    lines, in a random input order"""
    depth = rng.randint(3, 6)
    rings = []
    def ring_in(x0, y0, x1, y1):
        k = rng.random()
        if k < 0.6 or x1 - x0 < 4 or y1 - y0 < 4 or (x1 - x0) % 2 or (y1 - y0) % 2:
            return [(x0, y0), (x1, y0), (x1, y1), (x0, y1)]
        mx, my = (x0 + x1) // 2, (y0 + y1) // 2
        if k < 0.8:
            return [(mx, y0), (x1, my), (mx, y1), (x0, my)]
        return [(x0, y0), (x1, y0), (mx, y1)]
    def place(x0, y0, x1, y1, level):
        r = ring_in(x0, y0, x1, y1); rings.append(r)
        if level >= depth:
            return
        # the children live in a box strictly inside every ring shape used above
        w, h = x1 - x0, y1 - y0
        if len(r) == 4 and r[0] == (x0, y0):
            bx0, by0, bx1, by1 = x0 + rng.randint(1, 2), y0 + rng.randint(1, 2), x1 - rng.randint(1, 2), y1 - rng.randint(1, 2)
        else:       # diamond / triangle: the middle box of a quarter of the size is inside both
            bx0, by0, bx1, by1 = x0 + w // 2 - w // 8, y0 + h // 4, x0 + w // 2 + w // 8, y0 + h // 2
        if bx1 - bx0 < 2 or by1 - by0 < 2:
            return
        if rng.random() < 0.35 and bx1 - bx0 >= 7:
            m = (bx0 + bx1) // 2
            place(bx0, by0, m - 1, by1, level + 1); place(m + 1, by0, bx1, by1, level + 1)
        else:
            place(bx0, by0, bx1, by1, level + 1)
    S = rng.choice([64, 96, 128])
    place(0, 0, S, S, 1)
    if rng.random() < 0.3:
        place(S + 4, 0, S + 4 + S // 2, S // 2, rng.randint(2, depth))
    lines = []
    for r in rings:
        i = rng.randint(0, len(r) - 1); c = r[i:] + r[:i]
        if rng.random() < 0.5:
            c = c[::-1]
        c = c + [c[0]]
        if rng.random() < 0.25 and len(c) >= 4:
            j = rng.randint(1, len(c) - 2); lines += [c[:j + 1], c[j:]]
        else:
            lines.append(c)
    rng.shuffle(lines)
    return lines, 'nest-%d' % min(depth, 6)


def noded_exact(lines):
    """exact (Fractions): the segments of the lines meet only in common end points"""
    segs = [((Fr(a[0]), Fr(a[1])), (Fr(b[0]), Fr(b[1]))) for l in lines for a, b in zip(l, l[1:])]
    for i in range(len(segs)):
        for j in range(i + 1, len(segs)):
            if seg_meet(segs[i], segs[j]):
                sh = set(segs[i]) & set(segs[j])
                if len(sh) != 1:
                    return False
                a, b = segs[i]; c, d = segs[j]; o = sh.pop()
                u = b if a == o else a; v = d if c == o else c
                if cross(o, u, v) == 0 and dotv(o, u, v) > 0:
                    return False
    return True


def gen_sliver(rng):
    for _ in range(20):
        lines, label = gen_sliver1(rng)
        if noded_exact(lines):
            return lines, label
    return [[(0.0, 0.0), (1.0, 1.0)], [(1.0, 1.0), (1.0, 0.0)], [(1.0, 0.0), (0.0, 0.0)]], 'sliver'


def gen_sliver1(rng):
    """full-precision noded linework: a wheel round a hub in which two spokes of one quadrant differ in direction by less than
    the resolution of atan2 (a sliver face of area about 2^-54), rotated by multiples of 90 degrees, mirrored, every line order"""
    eps = rng.choice([2.0 ** -53, 2.0 ** -53, 2.0 ** -53, 2.0 ** -52, 2.0 ** -52, 2.0 ** -50, 2.0 ** -45])
    a = rng.choice([1.0, 1.0, 2.0, 0.5, 3.0])
    p = (a, a); q = (a, a - a * eps) if rng.random() < 0.5 else (a - a * eps, a)
    base = rng.choice([(1.0, 1.0), (2.0, 1.0), (1.0, 3.0)])
    if base != (1.0, 1.0):
        p = (base[0] * a, base[1] * a); q = (base[0] * a, base[1] * a - a * eps)
    others = rng.sample([(-1.0, 2.0), (-2.0, -1.0), (1.0, -2.0), (-3.0, 0.5), (0.5, -3.0), (-1.0, -1.0)], rng.randint(1, 3))
    pts = [p, q] + others
    pts.sort(key=lambda v: math.atan2(v[1], v[0]) if v not in (p, q) else (math.atan2(p[1], p[0]) + (1e-9 if v == (q if (p[0] * q[1] - p[1] * q[0]) > 0 else p) else 0)))
    hub = (0.0, 0.0)
    lines = [[hub, v] for v in pts] + [[pts[i], pts[(i + 1) % len(pts)]] for i in range(len(pts))]
    if len(pts) == 3 and rng.random() < 0.5:
        lines = lines[:-1]                                  # open wheel: the last rim edge missing (a larger outer face)
    k = rng.randint(0, 3); mir = rng.random() < 0.5
    def tr(v):
        x, y = v
        if mir: x = -x
        for _ in range(k): x, y = -y, x
        return (x, y)
    lines = [[tr(v) for v in l] for l in lines]
    lines = [l[::-1] if rng.random() < 0.5 else l for l in lines]
    rng.shuffle(lines)
    return lines, 'sliver'


def gen_poly(rng):
    """correctly noded linework: subsets of the edges of a triangulated grid (lines meet only at their end points)"""
    r0 = rng.random()
    if r0 > 0.85:
        return gen_sliver(rng)
    if r0 < 0.25:
        return gen_fan(rng)
    if r0 < 0.5:
        return gen_nest(rng)
    W, H = rng.randint(1, 5), rng.randint(1, 4)
    p = rng.choice([0.35, 0.5, 0.65, 0.8, 0.95])
    edges = set()
    for i in range(W + 1):
        for j in range(H + 1):
            if i < W and rng.random() < p:
                edges.add(((i, j), (i + 1, j)))
            if j < H and rng.random() < p:
                edges.add(((i, j), (i, j + 1)))
            if i < W and j < H and rng.random() < p * 0.5:
                edges.add(((i, j), (i + 1, j + 1)) if rng.random() < 0.5 else ((i + 1, j), (i, j + 1)))
    label = 'grid'
    k = rng.random()
    if k < 0.15:            # nested squares: holes, and a bridge / dangle between them
        edges = set()
        def sq(x0, y0, x1, y1):
            return [((x0, y0), (x1, y0)), ((x1, y0), (x1, y1)), ((x1, y1), (x0, y1)), ((x0, y1), (x0, y0))]
        edges |= set(sq(0, 0, 9, 9)) | set(sq(3, 3, 6, 6))
        if rng.random() < 0.5:
            edges.add(((0, 0), (3, 3)))                   # bridge between outer and inner ring
        if rng.random() < 0.5:
            edges.add(((6, 6), (7, 7)))                   # dangle inside the face
        if rng.random() < 0.5:
            edges |= set(sq(4, 4, 5, 5))
        label = 'nested'
    elif k < 0.25:          # two cycles joined by a path, lollipops
        edges = set([((0, 0), (2, 0)), ((2, 0), (2, 2)), ((2, 2), (0, 0)), ((2, 2), (4, 4)), ((4, 4), (6, 4)), ((6, 4), (6, 6)), ((6, 6), (4, 4))])
        if rng.random() < 0.5:
            edges.add(((4, 4), (3, 6))); edges.add(((3, 6), (2, 7)))
        label = 'bridged'
    edges = sorted(edges)
    if not edges:
        edges = [((0, 0), (1, 0))]
    lines = chain_edges(rng, edges)
    lines = [l[::-1] if rng.random() < 0.5 else l for l in lines]
    rng.shuffle(lines)
    return lines, label


def gen_simple_path(rng, R, n):
    for _ in range(30):
        pts = rand_walk(rng, n, R)
        if rng.random() < 0.2 and len(pts) > 3:
            pts.append(pts[0])
        if path_simple(pts):
            return pts
    return [(0, 0), (3, 0)]


def lattice_points(a, b):
    g = math.gcd(abs(b[0] - a[0]), abs(b[1] - a[1]))
    return [(a[0] + (b[0] - a[0]) // g * k, a[1] + (b[1] - a[1]) // g * k) for k in range(g + 1)] if g else [a]


def gen_shared(rng):
    R = rng.choice([6, 12])
    g1 = gen_simple_path(rng, R, rng.randint(2, 7))
    # all lattice points along g1, in order
    dense = []
    for a, b in zip(g1, g1[1:]):
        lp = lattice_points(a, b)
        dense += lp if not dense else lp[1:]
    for _ in range(30):
        g2 = []
        pos = rng.randint(0, len(dense) - 1)
        g2.append(dense[pos])
        for _ in range(rng.randint(1, 4)):
            if rng.random() < 0.65:       # run along g1, forward or backward
                step = rng.choice([-1, 1]); k = rng.randint(1, 6)
                for _ in range(k):
                    if 0 <= pos + step < len(dense):
                        pos += step; g2.append(dense[pos])
            else:                         # detour
                w = rand_walk(rng, rng.randint(1, 2), R, start=g2[-1])
                g2 += w[1:]
                # come back to g1 somewhere
                pos = rng.randint(0, len(dense) - 1); g2.append(dense[pos])
        # drop repeated points, then collinear interior points stay (they are legal vertices)
        h = [g2[0]]
        for p in g2[1:]:
            if p != h[-1]:
                h.append(p)
        if len(h) >= 2 and path_simple(h):
            lines2 = [h]
            if rng.random() < 0.3 and len(h) > 3:
                k = rng.randint(1, len(h) - 2); lines2 = [h[:k + 1], h[k:]]
            return [g1], lines2, 'walk'
    return [g1], [g1[::-1]], 'reverse'


def gen_linref_geom(rng, exact):
    """-> components (lists of grid points). exact: every segment has integer length (Pythagorean / axis steps)"""
    comps = []
    for _ in range(1 if rng.random() < 0.6 else rng.randint(2, 3)):
        p = (rng.randint(-20, 20), rng.randint(-20, 20)); pts = [p]
        for _ in range(rng.randint(1, 6)):
            if exact:
                a, b, _c = rng.choice(PYTH); k = rng.choice([1, 1, 2, 4])
                dx, dy = rng.choice([1, -1]) * a * k, rng.choice([1, -1]) * b * k
            else:
                dx, dy = rng.randint(-9, 9), rng.randint(-9, 9)
                if (dx, dy) == (0, 0):
                    dx = 1
            p = (p[0] + dx, p[1] + dy); pts.append(p)
        comps.append(pts)
    return comps


def seg_len_exact(a, b):
    d = (b[0] - a[0]) ** 2 + (b[1] - a[1]) ** 2
    r = math.isqrt(d) if isinstance(d, int) else None
    return r if r is not None and r * r == d else None


def comp_lens(comps, exact):
    """segment lengths as Fractions: exact integers, or the doubles the library computes (sqrt(dx*dx+dy*dy), correctly rounded)"""
    out = []
    for c in comps:
        ls = []
        for a, b in zip(c, c[1:]):
            if exact:
                ls.append(Fr(seg_len_exact(a, b)))
            else:
                dx = float(b[0]) - float(a[0]); dy = float(b[1]) - float(a[1])
                ls.append(Fr(math.sqrt(dx * dx + dy * dy)))
        out.append(ls)
    return out


# ====================================================================== the check
# translated units (tie G), regenerated from /repo on every run; the C08_* units are callees of the LR_* units
LR_UNITS = ['LR_compareLocationValues', 'C08_equals2D', 'C08_coordEq', 'C08_coordDist', 'C08_ptSeg',
            'LR_projectionFactor', 'LR_segLength', 'LR_segDistance', 'LR_segmentNearestMeasure',
            'LR_compareTo', 'LR_isOnSameSegment', 'LR_isVertex', 'LR_normalize', 'LR_positiveIndex', 'LR_clampIndex']


def par_run_lines(ctx, argv, lines, timeout, nproc=14, chunk=None):
    """ctx.run_lines over contiguous chunks in parallel (the driver / harness are pure line-in line-out filters).
    `chunk`: lines per process; `timeout` applies to each such process, so a hanging request costs one timeout and is
    attributed to its line"""
    import concurrent.futures
    if len(lines) < 40:
        return ctx.run_lines(argv, lines, timeout=timeout, chunk=chunk)
    n = min(nproc, max(1, len(lines) // 20))
    # round robin, so that a run of expensive requests (one stream of the generators) is spread over all workers
    parts_in = [lines[w::n] for w in range(n)]
    with concurrent.futures.ThreadPoolExecutor(max_workers=n) as ex:
        parts = list(ex.map(lambda ch: ctx.run_lines(argv, ch, timeout=timeout, chunk=chunk), parts_in))
    out = [None] * len(lines)
    for w in range(n):
        out[w::n] = parts[w]
    return out


def harness_run(ctx, hl, kinds):
    """run the harness; a first slice of every kind goes first, and a kind whose slice hangs three times is not pursued
    (the hangs found are reported, the rest of that stream is answered MISSING-SKIPPED)"""
    first = {}; canary = []; rest = []
    for j, k in enumerate(kinds):
        first[k] = first.get(k, 0) + 1
        (canary if first[k] <= 60 else rest).append(j)
    outs = [None] * len(hl)
    T = 25 if ctx.quick else 60
    res = par_run_lines(ctx, [HEXE], [hl[j] for j in canary], T, chunk=20)
    for j, o in zip(canary, res):
        outs[j] = o
    hung = {}
    for j in canary:
        if outs[j] == 'TIMEOUT':
            hung[kinds[j]] = hung.get(kinds[j], 0) + 1
    skip = {k for k, n in hung.items() if n >= 3}
    if skip:
        ctx.log('implementation hangs on %s requests: the rest of these streams is skipped' % sorted(skip))
        ctx.notes['streams_cut_short_after_hangs'] = sorted(skip)
    todo = [j for j in rest if kinds[j] not in skip]
    res = par_run_lines(ctx, [HEXE], [hl[j] for j in todo], T, chunk=40)
    for j, o in zip(todo, res):
        outs[j] = o
    return [o if o is not None else 'SKIPPED' for o in outs]


def run(ctx):
    ctx.cov['rule'] = ('one evaluation = one call of an observed API function judged by its clause; non-trivial: noding inputs with >= 1 '
                       'intersection / overlap between different segments, merge inputs with >= 1 degree-2 node, polygonize inputs with >= 1 '
                       'polygon and (dangle or cut edge or >= 2 polygons), shared-path pairs with a non-empty result, linear-referencing '
                       'queries other than 0 / total on lines with >= 2 segments; distinct by request text')
    ctx.assumptions += [
        'segment lengths enter the linear-referencing model as given positive rationals: the true lengths on Pythagorean polylines, '
        'the correctly rounded doubles elsewhere (then compared within a relative 1e-12 of the total length)',
        'the implementation\'s doubles are read back exactly (%.17g) and scaled by one power of two to integers for the exact checkers',
        'polygon validity is decided by Lib/ValidDefs.valid_geom (C05); seg_class of Lib/KernelDefs is executed beside the proved '
        'segment test and must agree', 'correspondence is sampled (generator quality bounds it)']
    ok_build = ctx.build_repo('rel')
    ctx.translate(LR_UNITS)
    ok_coq, ax = ctx.coq_build('Properties_C19')
    drv = ctx.ocaml_driver('C19')
    if not ok_build or not ctx.cxx(os.path.join(ROOT, 'harness/c19.cpp'), HEXE, 'rel'):
        return
    if drv is None:
        return
    if ctx.replay:
        return replay(ctx, drv)
    rng = ctx.rng
    q = ctx.quick
    N = dict(merge=250 if q else 2000, node=250 if q else 2000, poly=200 if q else 1600, shared=150 if q else 1200,
             lr=500 if q else 4000)
    cases = []
    corpus = os.path.join(ROOT, 'gen/corpus/C19.jsonl')
    if os.path.exists(corpus):
        for l in open(corpus):
            l = l.strip()
            if l and not l.startswith('#'):
                c = json.loads(l); c['label'] = 'corpus:' + c.get('label', ''); cases.append(fix_case(c))
    dist = {}
    def note(kind, label):
        dist.setdefault(kind, {}); dist[kind][label] = dist[kind].get(label, 0) + 1
    for _ in range(N['merge']):
        lines, label = gen_merge(rng)
        m = pick_map(rng)
        lines = [[m(p) for p in l] for l in lines]
        for directed in (False, True):
            cases.append(dict(kind='merge', directed=directed, lines=lines, label=label)); note('merge', label)
    for _ in range(N['node']):
        lines, label = gen_node(rng)
        m = pick_map(rng, fp=0.3)
        lines = [[m(p) for p in l] for l in lines]
        cases.append(dict(kind='node', op='NODE' if rng.random() < 0.7 else 'UU', lines=lines, label=label)); note('node', label)
    for _ in range(N['poly']):
        lines, label = gen_poly(rng)
        m = pick_map(rng, fp=0.0)
        if label == 'sliver':                   # full precision already: only an exact power-of-two scaling
            _k = rng.choice([1.0, 2.0, 0.25, 1024.0]); m = lambda p, _k=_k: (p[0] * _k, p[1] * _k)
        lines = [[m(p) for p in l] for l in lines]
        cases.append(dict(kind='poly', lines=lines, label=label)); note('poly', label)
    for _ in range(N['shared']):
        g1, g2, label = gen_shared(rng)
        m = pick_map(rng, fp=0.0)
        g1 = [[m(p) for p in l] for l in g1]; g2 = [[m(p) for p in l] for l in g2]
        if rng.random() < 0.3:
            g1, g2 = g2, g1
        cases.append(dict(kind='shared', g1=g1, g2=g2, label=label)); note('shared', label)
    for _ in range(N['lr']):
        for c in gen_lr_cases(rng):
            cases.append(c); note('lr', c['label'])
    ctx.notes['distribution'] = dist
    judge_all(ctx, drv, cases, shrink=True)
    # self-check of the generators: every stream must have produced its degenerate classes
    st = ctx.notes.get('stats', {})
    for need in ['node:with_intersection', 'merge:with_degree2', 'poly:with_dangle', 'poly:with_cut', 'poly:with_hole', 'poly:node-degree>=6', 'poly:nesting>=4', 'poly:sliver-face', 'shared:forward', 'shared:backward',
                 'lr:exact', 'lr:multi', 'lr:negative', 'lr:beyond_end', 'lr:at_vertex', 'lr:fold-model-compared']:
        if st.get(need, 0) == 0:
            ctx.broken.append(dict(kind='generator', name='distribution ' + need, detail='no case of class %s was generated' % need))
    for c in cases[:4]:
        ctx.sample(json.dumps({k: v for k, v in c.items() if k in ('kind', 'lines', 'g1', 'g2', 'q', 'comps')})[:300])


def pick_map(rng, fp=0.15):
    r = rng.random()
    if r < fp:
        return fp_map(rng)
    return int_map(rng)


def fix_case(c):
    def tup(x):
        if isinstance(x, list) and x and not isinstance(x[0], list):
            return tuple(x)
        if isinstance(x, list):
            return [tup(y) for y in x]
        return x
    for k in ('lines', 'g1', 'g2', 'comps'):
        if k in c:
            c[k] = [[tuple(p) for p in l] for l in c[k]]
    if 'pt' in c:
        c['pt'] = tuple(c['pt'])
    for k in ('d', 's', 'e'):
        if k in c and isinstance(c[k], str):
            c[k] = Fr(c[k])
    return c


# ---------------------------------------------------------------------- linear referencing cases
def gen_lr_cases(rng):
    exact = rng.random() < 0.6
    comps = gen_linref_geom(rng, exact)
    fpm = None
    if not exact and rng.random() < 0.4:
        fpm = fp_map(rng); comps = [[fpm(p) for p in c] for c in comps]
    lens = comp_lens(comps, exact)
    total = sum(sum(c) for c in lens)
    cum = [Fr(0)]
    for c in lens:
        for s in c:
            cum.append(cum[-1] + s)
    label = ('exact' if exact else 'fp' if fpm else 'grid') + ('-multi' if len(comps) > 1 else '')
    out = []
    base = dict(kind='lr', comps=comps, exact=exact, label=label)
    def dy(den=8):
        return Fr(rng.randint(0, den), den)
    # lengths
    for _ in range(3):
        r = rng.random()
        i = rng.randint(0, len(cum) - 1)
        dyadic = True        # every intermediate of the implementation's computation is then exact in binary64
        if r < 0.25: d = cum[i]
        elif r < 0.55:
            j = rng.randint(0, len(cum) - 2); d = cum[j] + (cum[j + 1] - cum[j]) * dy()
        elif r < 0.7:
            if rng.random() < 0.5: d = cum[i] - total
            else: d = -(total * dy()); dyadic = False
        elif r < 0.8: d = total + rng.choice([0, 1, Fr(1, 2), 100])
        elif r < 0.85: d = -(total + rng.choice([0, 1, 7]))
        else: d = Fr(rng.randint(-5, 5 + int(total)) * 8 + rng.randint(0, 7), 8); dyadic = False
        if not exact:
            d = Fr(float(d))
        out.append(dict(base, q='interp', d=d, dyadic=dyadic and exact))
        out.append(dict(base, q='loc', d=d, mode=rng.choice([0, 1, 2]), dyadic=dyadic and exact))
    # fractions for substring / normalized
    for _ in range(2):
        s, e = dy(16), dy(16)
        if rng.random() < 0.25: e = s
        if rng.random() < 0.2: s, e = Fr(0), Fr(1)
        out.append(dict(base, q='substr', s=s, e=e))
    out.append(dict(base, q='interpn', d=dy(16)))
    # points to project
    flat = [(a, b) for c in comps for a, b in zip(c, c[1:])]
    for _ in range(3):
        r = rng.random()
        a, b = rng.choice(flat)
        dyadic = exact
        if r < 0.3:
            p = rng.choice([a, b])
        elif r < 0.75 and not fpm:
            t = dy(4); k = Fr(rng.randint(-8, 8), rng.choice([1, 2, 4]))
            p = (a[0] + (b[0] - a[0]) * t - (b[1] - a[1]) * k, a[1] + (b[1] - a[1]) * t + (b[0] - a[0]) * k)
            p = (float(p[0]), float(p[1])) if p[0].denominator != 1 or p[1].denominator != 1 else (int(p[0]), int(p[1]))
        else:
            dyadic = False
            xs = [q[0] for c in comps for q in c]; ys = [q[1] for c in comps for q in c]
            p = (rng.uniform(min(xs) - 5, max(xs) + 5), rng.uniform(min(ys) - 5, max(ys) + 5)) if fpm or rng.random() < 0.3 else \
                (rng.randint(int(min(xs)) - 5, int(max(xs)) + 5), rng.randint(int(min(ys)) - 5, int(max(ys)) + 5))
        out.append(dict(base, q='proj', pt=p, dyadic=dyadic))
    return out


# ---------------------------------------------------------------------- judging
def harness_line(c):
    k = c['kind']
    if k == 'merge':
        return ('MERGED ' if c['directed'] else 'MERGE ') + wkt_mls(c['lines'])
    if k == 'node':
        return c['op'] + ' ' + wkt_lines(c['lines'])
    if k == 'poly':
        return 'POLYFULL ' + wkt_mls(c['lines'])
    if k == 'shared':
        return 'SHARED ' + wkt_lines(c['g1']) + ' ; ' + wkt_lines(c['g2'])
    if k == 'lr':
        g = wkt_lines(c['comps'])
        qn = c['q']
        if qn == 'interp': return 'INTERP %s ; %s' % (g, fnum(c['d']))
        if qn == 'interpn': return 'INTERPN %s ; %s' % (g, fnum(c['d']))
        if qn == 'loc': return 'LOC %s ; %s ; %d' % (g, fnum(c['d']), c['mode'])
        if qn == 'substr': return 'SUBSTR %s ; %s %s' % (g, fnum(c['s']), fnum(c['e']))
        if qn == 'proj': return 'PROJ %s ; %s %s' % (g, fnum(c['pt'][0]), fnum(c['pt'][1]))
    raise ValueError(k)


def extra_lines(c):
    """further API functions observed on the same input (judged by cheaper clauses)"""
    k = c['kind']
    if k == 'poly':
        w = wkt_mls(c['lines'])
        return ['POLY ' + w, 'POLYVALID ' + w, 'CUTS ' + w, 'BUILDAREA ' + w]
    if k == 'lr' and c['q'] == 'proj':
        g = wkt_lines(c['comps'])
        return ['PROJN %s ; %s %s' % (g, fnum(c['pt'][0]), fnum(c['pt'][1])), 'LENGTH ' + g]
    if k == 'shared':
        return ['SNAP %s ; %s ; %s' % (wkt_lines(c['g1']), wkt_lines(c['g2']), '0.5')]
    return []


def model_line(c, out):
    """request for the extracted checker / model, given the parsed implementation output; None = nothing to ask"""
    k = c['kind']
    if k == 'merge':
        outs = lines_of(out[0])
        K = scale_of(all_vals([c['lines'], outs]))
        return 'MERGE %d | %s | %s' % (1 if c['directed'] else 0, tok_lines(ilines(c['lines'], K)), tok_lines(ilines(outs, K)))
    if k == 'node':
        outs = lines_of(out[0])
        K = scale_of(all_vals([c['lines'], outs]))
        if K > 2 ** 80 or sum(len(l) - 1 for l in outs) > 90:
            return None
        ii = ilines(c['lines'], K); oo = ilines(outs, K)
        M = max([abs(v) for l in ii for p in l for v in p] + [1])
        return 'NODE %d %d | %s | %s' % (M * M, 10 ** 18, tok_lines(ii), tok_lines(oo))
    if k == 'poly':
        polys = polys_of(out[0]); dang = lines_of(out[1]); cuts = lines_of(out[2]); inv = lines_of(out[3])
        K = scale_of(all_vals([c['lines'], dang, cuts, inv] + polys))
        ip = [[[(to_int(x, K), to_int(y, K)) for x, y in r] for r in rs] for rs in polys]
        return 'POLY | %s | %s | %s | %s | %s' % (tok_lines(ilines(c['lines'], K)), tok_polys(ip), tok_lines(ilines(dang, K)),
                                                  tok_lines(ilines(cuts, K)), tok_lines(ilines(inv, K)))
    if k == 'shared':
        parts = out[0][1] if out[0][0] == 'GC' else []
        fw = lines_of(parts[0]) if len(parts) > 0 else []
        bw = lines_of(parts[1]) if len(parts) > 1 else []
        K = scale_of(all_vals([c['g1'], c['g2'], fw, bw]))
        return 'SHARED | %s | %s | %s | %s' % (tok_lines(ilines(c['g1'], K)), tok_lines(ilines(c['g2'], K)), tok_lines(ilines(fw, K)), tok_lines(ilines(bw, K)))
    if k == 'lr':
        comps = c['comps']; lens = comp_lens(comps, c['exact'])
        K = scale_of(all_vals([comps]))
        gl = tok_lens(lens); gz = tok_lines(ilines(comps, K))
        qn = c['q']
        if qn == 'interp': return 'INTERP %s | %s | %s' % (frs(c['d']), gl, gz)
        if qn == 'interpn':
            total = sum(sum(x) for x in lens)
            d = Fr(float(Fr(float(c['d'])) * total)) if not c['exact'] else c['d'] * total
            return 'INTERP %s | %s | %s' % (frs(d), gl, gz)
        if qn == 'loc': return 'LOC %d %s | %s' % (c['mode'], frs(c['d']), gl)
        if qn == 'substr': return 'SUBSTR %s %s | %s | %s' % (frs(c['s']), frs(c['e']), gl, gz)
        if qn == 'proj':
            p = c['pt']
            Kp = scale_of(all_vals([comps]) + list(p))
            gz = tok_lines(ilines(comps, Kp))
            return 'PROJ %d %d | %s | %s' % (to_int(p[0], Kp), to_int(p[1], Kp), gl, gz)
    return None


def cid(c):
    return json.dumps({k: (str(v) if isinstance(v, Fr) else v) for k, v in c.items() if k not in ('label',)}, sort_keys=True, default=str)


def judge_all(ctx, drv, cases, shrink=False):
    stats = ctx.notes.setdefault('stats', {})
    def st(k, n=1):
        stats[k] = stats.get(k, 0) + n
    hl = []; idx = []; kinds = []
    for i, c in enumerate(cases):
        hl.append(harness_line(c)); idx.append((i, 'main')); kinds.append(c['kind'] + ('d' if c.get('directed') else ''))
        for e in extra_lines(c):
            hl.append(e); idx.append((i, e.split(' ', 1)[0])); kinds.append(c['kind'] + ':' + e.split(' ', 1)[0])
    outs = harness_run(ctx, hl, kinds)
    import time as _t
    for attempt in range(3):
        again = [j for j, o in enumerate(outs) if o.startswith('CRASH') or o in ('MISSING', '')]
        if not again or len(again) > 2000:
            break
        _t.sleep(2 + 5 * attempt)
        for j in again:
            outs[j] = ctx.run_lines([HEXE], [hl[j]], timeout=60)[0]
    ctx.notes['harness_retries'] = ctx.notes.get('harness_retries', 0)
    ctx.log('harness: %d requests' % len(hl))
    res = {}
    for (i, tag), line, o in zip(idx, hl, outs):
        res.setdefault(i, {})[tag] = (line, o)
    ml = []; mi = []
    parsed = {}
    for i, c in enumerate(cases):
        line, o = res[i]['main']
        po = None
        try:
            po = parse_out(o) if c['kind'] != 'lr' or c['q'] in ('interp', 'interpn', 'substr') else o
        except Exception:
            po = None
        parsed[i] = po
        if po is None:
            continue
        try:
            m = model_line(c, po)
        except Exception as e:
            m = None
        if m is not None:
            ml.append(m); mi.append(i)
    mouts = par_run_lines(ctx, [drv], ml, 600 if not ctx.quick else 300, chunk=150)
    unfinished = [j for j, o_ in enumerate(mouts) if o_.startswith(('CRASH', 'TIMEOUT')) or o_ in ('MISSING', '')]
    for j in unfinished[:200]:            # once more, alone (a loaded machine can starve a whole batch)
        mouts[j] = ctx.run_lines([drv], [ml[j]], timeout=300)[0]
    unfinished = [j for j, o_ in enumerate(mouts) if o_.startswith(('CRASH', 'TIMEOUT')) or o_ in ('MISSING', '')]
    ctx.notes['checker_requests_unfinished'] = len(unfinished)
    if len(unfinished) > max(3, len(ml) // 200):
        ctx.broken.append(dict(kind='checker', name='drv_C19 unfinished', detail='%d of %d checker requests did not finish, e.g. %s' % (len(unfinished), len(ml), ml[unfinished[0]][:800])))
    ctx.log('checker / model: %d requests' % len(ml))
    mres = {i: (l, o) for i, l, o in zip(mi, ml, mouts)}
    nviol = 0
    for i, c in enumerate(cases):
        line, o = res[i]['main']
        verdicts = judge_case(ctx, c, line, o, parsed[i], mres.get(i), res[i], st)
        for name, why, known in verdicts:
            if known is not None:
                ctx.known_hit(known, what='%s: %s' % (known['id'], known['what'][:160]))
                st('known:' + known['id'])
                continue
            nviol += 1
            if nviol > 6:
                continue
            shr = None
            if shrink:
                try:
                    shr = shrink_case(ctx, drv, c, name)
                except Exception as e:
                    shr = None
            rc = shr or c
            rl = harness_line(rc)
            ctx.violation('%s_%d_%s' % (c['kind'], i, name.replace('-', '_')),
                          dict(clause=name, why=why, case=json.loads(cid(c)), shrunk=json.loads(cid(shr)) if shr else None,
                               request=rl, implementation=ctx.run_lines([HEXE], [rl], timeout=60)[0][:2000],
                               checker_request=(mres.get(i) or ('', ''))[0][:3000], checker_answer=(mres.get(i) or ('', ''))[1][:300],
                               replay="echo '%s' | %s" % (rl, HEXE), seed=ctx.seed),
                          msg='%s: %s' % (name, why))
    ctx.cov['traces_validated_against_impl'] = ctx.cov['evaluations']


def find_known(ctx, fid):
    for k in ctx.known:
        if k.get('id') == fid and k.get('status') == 'known':
            return k
    return None


def judge_case(ctx, c, line, o, po, mres, allres, st):
    """returns a list of (clause, why, known_finding_or_None)"""
    bad = []
    k = c['kind']
    def crash(o):
        return o.startswith('CRASH') or o in ('TIMEOUT', 'MISSING', '')
    if o == 'SKIPPED':
        return []
    if crash(o):
        ctx.count(line, True)
        return [('no-crash', 'implementation %s on %s' % (o[:200] or 'died', line[:200]), None)]
    for tag, (l2, o2) in allres.items():
        if tag != 'main' and crash(o2):
            bad.append(('no-crash', 'implementation %s on %s' % (o2[:200], l2[:200]), None))
    if k in ('merge', 'node', 'poly', 'shared'):
        if po is None:
            ctx.count(line, True)
            kf = None
            if k == 'node' and c['op'] == 'NODE' and 'Iterated noding failed to converge' in o and \
                    any(isinstance(v, float) and v != int(v) for l in c['lines'] for p in l for v in p):
                kf = find_known(ctx, 'C19-F2')
            return bad + [('returns-a-result', 'implementation answered %s' % o[:300], kf)]
        if mres is None:
            st(k + ':unjudged'); ctx.count(line, False); return bad
        ml, mo = mres
        if mo.startswith(('CRASH', 'TIMEOUT')) or mo in ('MISSING', ''):
            st(k + ':checker-unfinished'); return bad      # not judged; the share of such requests is limited in judge_all
        if mo.startswith(('PARSE', 'ERROR', '?')):
            ctx.broken.append(dict(kind='checker', name='drv_C19 ' + k, detail='%s\n%s' % (ml[:1500], mo[:500])))
            return bad
        bits = mo.split()
    if k == 'merge':
        ein = {}
        for l in c['lines']:
            d = [p for j, p in enumerate(l) if j == 0 or p != l[j - 1]]
            if len(d) >= 2:
                ein[d[0]] = ein.get(d[0], 0) + 1; ein[d[-1]] = ein.get(d[-1], 0) + 1
        nontriv = any(v == 2 for v in ein.values())
        if nontriv: st('merge:with_degree2')
        ctx.count(line, nontriv)
        if bits[0] != '1':
            bad.append(('merge-units', 'the multiset of %s unit sub-segments of the merged lines differs from that of the input' % ('directed' if c['directed'] else 'undirected'), None))
        if bits[1] != '1':
            bad.append(('merge-degree-two', 'two different output lines end at a node through which the merger must continue', None))
        if len(bits) > 2 and bits[2] != '1':
            outs = lines_of(po[0])
            kf = find_known(ctx, 'C19-F5') if lost_only_isolated_points(c['lines'], outs) and not lost_only_isolated_points(outs, c['lines']) \
                and all(on_lines_exact(p, c['lines']) for l in outs for p in l) else None
            bad.append(('merge-point-set', 'a vertex of the input (output) linework does not lie on the output (input) linework', kf))
    elif k == 'node':
        ii = c['lines']
        segs = [(l[j], l[j + 1]) for l in ii for j in range(len(l) - 1) if l[j] != l[j + 1]]
        outsegs = sum(len(l) - 1 for l in lines_of(po[0]))
        nontriv = outsegs > len(segs) or outsegs < len(segs)
        if nontriv: st('node:with_intersection')
        ctx.count(line, nontriv)
        names = ['node-disjoint', 'kernel-agrees', 'node-input-vertex-on-output', 'node-output-vertex-near-input', 'node-input-covered', 'node-output-covered']
        whys = ['two output segments meet elsewhere than at a common end point', 'seg_class (Lib/KernelDefs) and the proved segment test disagree',
                'an input vertex does not lie on the output linework', 'an output vertex is farther than 1e-9 x magnitude from the input linework',
                'a sample point of the input linework is farther than 2e-9 x magnitude from the output', 'an output segment midpoint is farther than 2e-9 x magnitude from the input']
        for b, n, w in zip(bits, names, whys):
            if b != '1':
                if n == 'kernel-agrees':
                    ctx.broken.append(dict(kind='correspondence', name='seg_ok vs KernelDefs.seg_class', detail=ml[:2000]))
                else:
                    kf = None
                    if n == 'node-disjoint' and c['op'] == 'UU' and only_collinear_overlaps(lines_of(po[0])) and \
                            any(isinstance(v, float) and v != int(v) for l in c['lines'] for p in l for v in p):
                        kf = find_known(ctx, 'C19-F4')
                    if n == 'node-input-vertex-on-output' and c['op'] == 'UU' and lost_only_isolated_points(c['lines'], lines_of(po[0])):
                        kf = find_known(ctx, 'C19-F3')
                    bad.append((n, w, kf))
    elif k == 'poly':
        polys = polys_of(po[0]); dang = lines_of(po[1]); cuts = lines_of(po[2])
        if dang: st('poly:with_dangle')
        if cuts: st('poly:with_cut')
        if any(len(rs) > 1 for rs in polys): st('poly:with_hole')
        _deg = {}
        for _l in c['lines']:
            for _a, _b in zip(_l, _l[1:]):
                if _a != _b: _deg[_a] = _deg.get(_a, 0) + 1; _deg[_b] = _deg.get(_b, 0) + 1
        if _deg and max(_deg.values()) >= 6: st('poly:node-degree>=6')
        if c.get('label') == 'sliver' and polys: st('poly:sliver-face')
        if str(c.get('label', '')).startswith('nest-') and max([len(rs) for rs in polys] + [0]) >= 2 and len(polys) >= 4: st('poly:nesting>=4')
        ctx.count(line, bool(polys) and (bool(dang) or bool(cuts) or len(polys) > 1))
        names = ['input-noded-no-duplicates', 'polygon-valid', 'edge-once-per-side', 'polygon-edges-are-input-edges', 'edge-accounting', 'dangles-are-the-pruned-edges', 'cut-edges-are-the-bridges', 'polygon-interiors-disjoint']
        if bits[0] != '1':
            st('poly:input-rejected')
        else:
            for b, n in zip(bits[1:], names[1:]):
                if b != '1':
                    bad.append((n, 'polygonizer output breaks clause %s' % n, None))
            # the other entry points return the same polygons / cut edges
            def segset(lines):
                s = set()
                for l in lines:
                    for a, b in zip(l, l[1:]):
                        if a != b: s.add((min(a, b), max(a, b)))
                return s
            def polykey(ps):
                return sorted(sorted(tuple(sorted(segset([r]))) for r in rs) for rs in ps)
            for tag in ('POLY', 'POLYVALID', 'CUTS', 'BUILDAREA'):
                if tag not in allres: continue
                l2, o2 = allres[tag]
                try:
                    p2 = parse_out(o2)
                except Exception:
                    p2 = None
                ctx.count(l2, False)
                if p2 is None:
                    bad.append((tag.lower() + '-returns', 'implementation answered %s' % o2[:200], None)); continue
                if tag == 'POLY' and polykey(polys_of(p2[0])) != polykey(polys):
                    bad.append(('polygonize-entry-points-agree', 'GEOSPolygonize_r and GEOSPolygonize_full_r return different polygons', None))
                if tag == 'CUTS' and segset(lines_of(p2[0])) != segset(cuts):
                    bad.append(('cut-edges-entry-points-agree', 'GEOSPolygonizer_getCutEdges_r differs from the cut edges of GEOSPolygonize_full_r', None))
                if tag in ('POLYVALID', 'BUILDAREA'):
                    # polygonal results built from the same rings: every boundary segment is an input segment
                    ins = segset(c['lines'])
                    bs = set()
                    for rs in polys_of(p2[0]):
                        bs |= segset(rs)
                    if not bs <= ins:
                        bad.append((tag.lower() + '-edges-are-input-edges', 'a boundary segment of the result is not an input segment', None))
    elif k == 'shared':
        parts = po[0][1] if po[0][0] == 'GC' else []
        if len(parts) > 0 and lines_of(parts[0]): st('shared:forward')
        if len(parts) > 1 and lines_of(parts[1]): st('shared:backward')
        ctx.count(line, any(lines_of(p) for p in parts))
        if bits[0] != '1':
            bad.append(('shared-paths', 'forward / backward paths are not exactly the common sub-lines split by relative direction', None))
        if 'SNAP' in allres:
            ctx.count(allres['SNAP'][0], False)
    elif k == 'lr':
        bad += judge_lr(ctx, c, line, o, po, mres, allres, st)
    return bad


def only_collinear_overlaps(outs):
    """key of C19-F4: the output segment pairs that meet elsewhere than at a common end point are all exactly collinear"""
    segs = [((Fr(a[0]), Fr(a[1])), (Fr(b[0]), Fr(b[1]))) for l in outs for a, b in zip(l, l[1:]) if a != b]
    sg = lambda x: (x > 0) - (x < 0)
    found = False
    for i in range(len(segs)):
        for j in range(i + 1, len(segs)):
            a, b = segs[i]; c, d = segs[j]
            d1, d2, d3, d4 = cross(a, b, c), cross(a, b, d), cross(c, d, a), cross(c, d, b)
            if sg(d1) * sg(d2) <= 0 and sg(d3) * sg(d4) <= 0:
                if d1 == 0 and d2 == 0 and d3 == 0 and d4 == 0:
                    t = lambda q: (q[0] - a[0]) * (b[0] - a[0]) + (q[1] - a[1]) * (b[1] - a[1])
                    lo, hi = sorted([t(c), t(d)])
                    if hi <= 0 or lo >= t(b):
                        continue
                    found = True; continue
                shared = [p for p in (a, b) if p in (c, d)]
                if len(shared) == 1:
                    continue
                if d1 != 0 and d2 != 0 and d3 != 0 and d4 != 0:
                    return False          # a proper crossing: not this finding
                found = True
    return found


def on_lines_exact(p, lines):
    return any(d2_pt_seg(p, a, b) == 0 for l in lines for a, b in zip(l, l[1:]))


def lost_only_isolated_points(ins, outs):
    """key of C19-F3: every input vertex missing from the output belongs to a zero-length input line and lies on no other input line"""
    osegs = [(a, b) for l in outs for a, b in zip(l, l[1:])]
    def on_out(p):
        return any(d2_pt_seg(p, a, b) == 0 for a, b in osegs) or any(p == q for l in outs for q in l)
    lost = [p for l in ins for p in l if not on_out(p)]
    if not lost:
        return False
    for p in lost:
        zero = [l for l in ins if all(q == l[0] for q in l) and l[0] == p]
        others = [(a, b) for l in ins if not all(q == l[0] for q in l) for a, b in zip(l, l[1:])]
        if not zero or any(d2_pt_seg(p, a, b) == 0 for a, b in others):
            return False
    return True


def qpt_of(s, K=1):
    x, y = s.split(',')
    return (Fr(x) / K, Fr(y) / K)


def judge_lr(ctx, c, line, o, po, mres, allres, st):
    bad = []
    comps = c['comps']; exact = c['exact']
    lens = comp_lens(comps, exact)
    total = sum(sum(x) for x in lens)
    multi = len(comps) > 1
    dyadic = bool(c.get('dyadic')) and exact
    tol = Fr(0) if dyadic else (total + 1) * Fr(1, 10 ** 11)
    ptol = tol + (0 if dyadic else Fr(max(abs(float(v)) for cc in comps for p in cc for v in p) + 1) * Fr(1, 10 ** 12))
    st('lr:exact' if dyadic else 'lr:tolerance')
    if multi: st('lr:multi')
    qn = c['q']
    nontriv = sum(len(x) for x in lens) >= 2
    if mres is None:
        ctx.count(line, False); return bad
    ml, mo = mres
    if mo.startswith(('CRASH', 'TIMEOUT')) or mo in ('MISSING', ''):
        st('lr:checker-unfinished'); return bad
    if mo.startswith(('PARSE', 'ERROR', '?')):
        ctx.broken.append(dict(kind='checker', name='drv_C19 lr', detail='%s\n%s' % (ml[:1500], mo[:500])))
        return bad
    KS = scale_of(all_vals([comps]))
    flat = [(a, b) for cc in comps for a, b in zip(cc, cc[1:])]
    def near_line(p, t):
        return min(d2_pt_seg(p, a, b) for a, b in flat) <= t * t
    if qn in ('interp', 'interpn'):
        d = c['d']
        if d < 0: st('lr:negative')
        if abs(d) > total: st('lr:beyond_end')
        ctx.count(line, nontriv and d != 0)
        if po is None or po[0][0] != 'PT' or po[0][1] is None:
            return bad + [('interpolate-returns-point', 'implementation answered %s' % o[:200], None)]
        ip = (Fr(po[0][1][0]), Fr(po[0][1][1])); mp = qpt_of(mo, KS)
        if abs(ip[0] - mp[0]) > ptol or abs(ip[1] - mp[1]) > ptol:
            # near a component boundary the rounded running totals may resolve to the other side: accept a point at the same length
            if dyadic or not multi or not near_line(ip, ptol):
                bad.append(('interpolate-equals-model', 'GEOSInterpolate%s_r = (%s, %s), model (%s, %s)' % ('Normalized' if qn == 'interpn' else '', float(ip[0]), float(ip[1]), float(mp[0]), float(mp[1])), None))
    elif qn == 'loc':
        ctx.count(line, nontriv)
        w = o.split(); mw = mo.split()
        if len(w) != 3:
            return bad + [('location-returns', 'implementation answered %s' % o[:200], None)]
        if c['d'] in [sum(sum(x) for x in lens[:i]) + sum(lens[i][:j]) for i in range(len(lens)) for j in range(len(lens[i]) + 1)]:
            st('lr:at_vertex')
        same = w[0] == mw[0] and w[1] == mw[1] and abs(Fr(float(w[2])) - Fr(mw[2])) <= (0 if dyadic else Fr(1, 10 ** 9))
        if not same:
            if dyadic:
                bad.append(('location-equals-model', 'LengthLocationMap::getLocation = %s, model %s' % (o, mo), None))
            else:
                # compare the positions instead of the indices (rounded totals may put the location on the neighbouring segment)
                def pos(cw):
                    ci, si, f = int(cw[0]), int(cw[1]), Fr(float(Fr(cw[2])))
                    if ci >= len(lens): return None
                    return sum(sum(x) for x in lens[:ci]) + sum(lens[ci][:si]) + (lens[ci][si] * f if si < len(lens[ci]) else 0)
                a, b = pos(w), pos(mw)
                if a is None or b is None or abs(a - b) > tol:
                    bad.append(('location-equals-model', 'LengthLocationMap::getLocation = %s, model %s' % (o, mo), None))
    elif qn == 'substr':
        s, e = c['s'], c['e']
        ctx.count(line, nontriv and s != e)
        if po is None:
            return bad + [('substring-returns', 'implementation answered %s' % o[:200], None)]
        ls = lines_of(po[0])
        mf = mo.split(' ; ')
        mlines = [[qpt_of(t, KS) for t in f.split()] for f in mf[1:]]
        # property clause: the requested length fraction
        def flen(ls):
            return sum(math.hypot(float(b[0]) - float(a[0]), float(b[1]) - float(a[1])) for l in ls for a, b in zip(l, l[1:]))
        want = abs(e - s) * total
        got = flen(ls)
        if abs(got - float(want)) > 1e-9 * float(total + 1):
            bad.append(('substring-length', 'GEOSLineSubstring_r(%s, %s) has length %r, requested %r' % (float(s), float(e), got, float(want)), None))
        if Fr(mf[0]) != want and exact:
            ctx.broken.append(dict(kind='correspondence', name='substring_length on the model', detail='%s -> %s, expected %s' % (ml[:500], mf[0], want)))
        il = [[(Fr(x), Fr(y)) for x, y in l] for l in ls]
        okm = len(il) == len(mlines) and all(len(a) == len(b) and all(abs(p[0] - q[0]) <= ptol and abs(p[1] - q[1]) <= ptol for p, q in zip(a, b)) for a, b in zip(il, mlines))
        if not okm and not multi:
            bad.append(('substring-equals-model', 'GEOSLineSubstring_r(%s, %s) = %s, model %s' % (float(s), float(e), o[:300], mo[:300]), None))
    elif qn == 'proj':
        p = c['pt']
        ctx.count(line, nontriv)
        try:
            d = float(o.split()[0])
        except Exception:
            return bad + [('project-returns', 'implementation answered %s' % o[:200], None)]
        mw = mo.split()
        mlen = Fr(mw[0]); md2 = Fr(mw[4])
        fden = Fr(mw[3]).denominator
        if dyadic and (fden & (fden - 1)) != 0:      # the nearest segment is not the one the point was constructed for
            dyadic = False; tol = (total + 1) * Fr(1, 10 ** 11)
        K = scale_of(all_vals([comps]) + list(p))
        dmin2 = min(d2_pt_seg(p, a, b) for a, b in flat)
        if Fr(md2) / (K * K) != dmin2:
            ctx.broken.append(dict(kind='correspondence', name='model projection distance vs brute force', detail='%s -> %s, brute force %s' % (ml[:800], mo, dmin2)))
        # model vs implementation: the same measure unless another segment is (nearly) equally near
        def second_best():
            ds = sorted(d2_pt_seg(p, a, b) for a, b in flat)
            return ds[1] if len(ds) > 1 else None
        # the fold model of indexOfFromStart (LRFoldDefs.index_of_q: running (minDistance, ptMeasure, segmentStartMeasure)) is run
        # on the same input: it must give the measure of the location model, and both are compared with GEOSProject_r
        mfold = Fr(mw[5]) if len(mw) > 5 else None
        if mfold is None or mfold != mlen:
            ctx.broken.append(dict(kind='correspondence', name='fold model index_of_q vs location model project', detail='%s -> %s' % (ml[:800], mo)))
        else:
            st('lr:fold-model-compared')
        if abs(Fr(d) - mlen) > tol or (mfold is not None and abs(Fr(d) - mfold) > tol):
            sb = second_best()
            tie = sb is not None and (sb == dmin2 if dyadic else abs(math.sqrt(float(sb)) - math.sqrt(float(dmin2))) <= 1e-9 * (1 + math.sqrt(float(dmin2))))
            if not tie:
                bad.append(('project-equals-model', 'GEOSProject_r = %r, model %s, fold model %s' % (d, float(mlen), None if mfold is None else float(mfold)), None))
        # the property clause itself: the point interpolated at the projected distance is the nearest location on the line
        o2 = ctx_interp(ctx, comps, d)
        if o2 is None:
            bad.append(('interpolate-returns-point', 'GEOSInterpolate_r failed at the projected distance %r' % d, None))
        else:
            q = (Fr(o2[0]), Fr(o2[1]))
            dq = math.sqrt(float((Fr(p[0]) - q[0]) ** 2 + (Fr(p[1]) - q[1]) ** 2)); dm = math.sqrt(float(dmin2))
            slack = 1e-9 * (1 + dm + float(total))
            if dq > dm + slack:
                # key of the known finding: MultiLineString, the nearest location is the start of a component other than the first
                key = False
                if multi:
                    for ci in range(1, len(comps)):
                        s0 = comps[ci][0]
                        if abs(math.sqrt(float((Fr(p[0]) - Fr(s0[0])) ** 2 + (Fr(p[1]) - Fr(s0[1])) ** 2)) - dm) <= slack and comps[ci - 1][-1] != s0:
                            key = True
                kf = find_known(ctx, 'C19-F1') if key else None
                bad.append(('project-interpolate-nearest', 'p = %s: GEOSInterpolate_r(GEOSProject_r(p)) = (%s, %s) at distance %r, the nearest location is at %r'
                            % (p, float(q[0]), float(q[1]), dq, dm), kf))
        if 'PROJN' in allres and 'LENGTH' in allres:
            try:
                dn = float(allres['PROJN'][1].split()[0]); tl = float(allres['LENGTH'][1].split()[0])
                ctx.count(allres['PROJN'][0], False)
                if tl > 0 and abs(dn - d / tl) > 1e-12:
                    bad.append(('project-normalized', 'GEOSProjectNormalized_r = %r, GEOSProject_r / length = %r' % (dn, d / tl), None))
            except Exception:
                pass
    return bad


_interp_cache = {}


def ctx_interp(ctx, comps, d):
    o = ctx.run_lines([HEXE], ['INTERP %s ; %s' % (wkt_lines(comps), repr(float(d)))], timeout=30)[0]
    try:
        po = parse_out(o)
        return po[0][1] if po and po[0][0] == 'PT' else None
    except Exception:
        return None


# ---------------------------------------------------------------------- shrinking, replay
def fails(ctx, drv, c, clause):
    line = harness_line(c)
    extras = extra_lines(c)
    outs = ctx.run_lines([HEXE], [line] + extras, timeout=20, chunk=1)
    o = outs[0]
    allres = {'main': (line, o)}
    for e, oo in zip(extras, outs[1:]):
        allres[e.split(' ', 1)[0]] = (e, oo)
    try:
        po = parse_out(o) if c['kind'] != 'lr' or c['q'] in ('interp', 'interpn', 'substr') else o
    except Exception:
        po = None
    mres = None
    if po is not None:
        try:
            m = model_line(c, po)
        except Exception:
            m = None
        if m is not None:
            mres = (m, ctx.run_lines([drv], [m], timeout=120)[0])
    class Dummy:
        pass
    sink = {}
    save = (ctx.cov['evaluations'], ctx.cov['distinct_nontrivial'], set(ctx._distinct), list(ctx.broken))
    v = judge_case(ctx, c, line, o, po, mres, allres, lambda k, n=1: None)
    ctx.cov['evaluations'], ctx.cov['distinct_nontrivial'] = save[0], save[1]; ctx._distinct = save[2]; ctx.broken[:] = save[3]
    return any(n == clause and kf is None for n, _, kf in v)


def shrink_case(ctx, drv, c, clause):
    key = 'lines' if 'lines' in c else ('comps' if 'comps' in c else None)
    keys = [key] if key else ['g1', 'g2']
    cur = dict(c); budget = 10 if clause == 'no-crash' else 120
    changed = True
    while changed and budget > 0:
        changed = False
        for k in keys:
            ls = cur[k]
            i = 0
            while i < len(ls) and budget > 0 and len(ls) > 1:
                cand = dict(cur); cand[k] = ls[:i] + ls[i + 1:]; budget -= 1
                if fails(ctx, drv, cand, clause):
                    cur = cand; ls = cur[k]; changed = True
                else:
                    i += 1
            for i in range(len(ls)):
                j = 0
                while j < len(ls[i]) and len(ls[i]) > 2 and budget > 0:
                    cand = dict(cur); nl = [list(l) for l in ls]; del nl[i][j]; cand[k] = nl; budget -= 1
                    if fails(ctx, drv, cand, clause):
                        cur = cand; ls = cur[k]; changed = True
                    else:
                        j += 1
    return cur if cur != c else None


def replay(ctx, drv):
    r = json.load(open(ctx.replay))
    c = r.get('shrunk') or r.get('case')
    if not c:
        ctx.log('replay file has no case'); return
    def unstr(c):
        for k in ('d', 's', 'e'):
            if k in c and isinstance(c[k], str):
                c[k] = Fr(c[k])
        return fix_case(c)
    c = unstr(c)
    judge_all(ctx, drv, [c], shrink=False)
