"""C17 — MakeValid always returns a valid geometry and preserves valid input.

proof:  coq/theories/C17/FixDefs.v (M: the collapse table of GeometryFixer; R: FixSpec clauses with an executable checker over
        exact integer coordinates: validity by Lib/ValidDefs, dimension, envelope, same point set for valid input, no input vertex
        lost (linework), area = nonzero-winding shells minus holes and collapses kept iff requested (structure)), FixProofs.v,
        Properties_C17.v.
tie:    the checker and the table are extracted to OCaml and run on the results of GEOSMakeValid_r / GEOSMakeValidWithParams_r
        (both methods, keep-collapsed on and off) for generated valid and invalid grid geometries; GEOSisValid_r, GEOSEquals_r and
        idempotence (fix(fix g) = fix g) are executed on the implementation; non-finite ordinates go through the Boolean clauses.
"""
import json, math, os, sys
from fractions import Fraction as Fr
from vlib.core import ROOT, BUILD
from props.C19 import par_run_lines, scale_of, to_int, path_simple

if hasattr(sys, 'set_int_max_str_digits'):
    sys.set_int_max_str_digits(0)
HEXE = os.path.join(BUILD, 'bin', 'c17')
NAN = float('nan'); INF = float('inf')


# ====================================================================== geometry values: nested tuples
# ('PT', None | (x, y))  ('LS', pts)  ('LR', pts)  ('PG', rings)  ('MPT', [PT..])  ('MLS', [LS..])  ('MPG', [PG..])  ('GC', [geom..])
def fnum(v):
    if isinstance(v, float):
        if math.isnan(v): return 'NaN'
        if math.isinf(v): return 'Infinity' if v > 0 else '-Infinity'
        if v == int(v) and abs(v) < 2 ** 53: return str(int(v))
        return repr(v)
    return str(v)


def pts_txt(pts):
    return ', '.join('%s %s' % (fnum(x), fnum(y)) for x, y in pts)


def wkt(g, tag=True):
    t, d = g
    name = {'PT': 'POINT', 'LS': 'LINESTRING', 'LR': 'LINEARRING', 'PG': 'POLYGON', 'MPT': 'MULTIPOINT', 'MLS': 'MULTILINESTRING',
            'MPG': 'MULTIPOLYGON', 'GC': 'GEOMETRYCOLLECTION'}[t]
    pre = name + ' ' if tag else ''
    if t == 'PT':
        return pre + ('EMPTY' if d is None else '(%s %s)' % (fnum(d[0]), fnum(d[1])))
    if t in ('LS', 'LR'):
        return pre + ('EMPTY' if not d else '(%s)' % pts_txt(d))
    if t == 'PG':
        return pre + ('EMPTY' if not d else '(%s)' % ', '.join('(%s)' % pts_txt(r) for r in d))
    if t in ('MPT', 'MLS', 'MPG'):
        return pre + ('EMPTY' if not d else '(%s)' % ', '.join(wkt(x, False) for x in d))
    return pre + ('EMPTY' if not d else '(%s)' % ', '.join(wkt(x) for x in d))


def all_vals(g):
    t, d = g
    if t == 'PT':
        return list(d) if d else []
    if t in ('LS', 'LR'):
        return [v for p in d for v in p]
    if t == 'PG':
        return [v for r in d for p in r for v in p]
    return [v for x in d for v in all_vals(x)]


def finite(g):
    return all(not (isinstance(v, float) and (math.isnan(v) or math.isinf(v))) for v in all_vals(g))


def tokens(g, K):
    t, d = g
    I = lambda v: str(to_int(v, K))
    seq = lambda s: [str(len(s))] + [I(v) for p in s for v in p]
    if t == 'PT':
        return ['PT'] + (['E'] if d is None else [I(d[0]), I(d[1])])
    if t in ('LS', 'LR'):
        return [t] + seq(d)
    if t == 'PG':
        return ['PG', str(len(d))] + [x for r in d for x in seq(r)]
    if t == 'MPT':
        return ['MPT', str(len(d))] + [x for p in d for x in (['E'] if p[1] is None else [I(p[1][0]), I(p[1][1])])]
    if t == 'MLS':
        return ['MLS', str(len(d))] + [x for l in d for x in seq(l[1])]
    if t == 'MPG':
        return ['MPG', str(len(d))] + [x for p in d for x in [str(len(p[1]))] + [y for r in p[1] for y in seq(r)]]
    return ['GC', str(len(d))] + [x for h in d for x in tokens(h, K)]


def parse_geom(toks, i=0):
    """harness tokens -> tuples (members of multi geometries keep their own tags; LR stays LR)"""
    t = toks[i]
    if t == 'PT':
        if toks[i + 1] == 'E':
            return ('PT', None), i + 2
        return ('PT', (float(toks[i + 1]), float(toks[i + 2]))), i + 3
    if t in ('LS', 'LR'):
        n = int(toks[i + 1]); p = i + 2
        return (t, [(float(toks[p + 2 * k]), float(toks[p + 2 * k + 1])) for k in range(n)]), p + 2 * n
    if t == 'PG':
        k = int(toks[i + 1]); p = i + 2; rings = []
        for _ in range(k):
            n = int(toks[p]); p += 1
            rings.append([(float(toks[p + 2 * j]), float(toks[p + 2 * j + 1])) for j in range(n)]); p += 2 * n
        return ('PG', rings), p
    if t in ('MPT', 'MLS', 'MPG', 'GC'):
        m = int(toks[i + 1]); p = i + 2; parts = []
        for _ in range(m):
            g, p = parse_geom(toks, p); parts.append(g)
        return (t, parts), p
    raise ValueError('token ' + t)


def kind_code(g):
    """observed kind of a result: 0 empty, 1 point, 2 line, 3 ring, 4 area, 5 mixed"""
    t, d = g
    if t == 'PT': return 0 if d is None else 1
    if t == 'LS': return 0 if not d else 2
    if t == 'LR': return 0 if not d else 3
    if t == 'PG': return 0 if not d else 4
    ks = {kind_code(x) for x in d} - {0}
    if not ks: return 0
    return ks.pop() if len(ks) == 1 else 5


def has_kind(g, kind):
    t, d = g
    if t == kind: return True
    if t in ('MPT', 'MLS', 'MPG', 'GC'): return any(has_kind(x, kind) for x in d)
    return False


def has_collection(g):
    return g[0] == 'GC'


# ====================================================================== generators
def close(pts):
    return list(pts) + [pts[0]]


def rect(x0, y0, x1, y1):
    return [(x0, y0), (x1, y0), (x1, y1), (x0, y1), (x0, y0)]


def rand_ring(rng, k, R, ox=0, oy=0):
    pts = []
    while len(pts) < k:
        p = (ox + rng.randint(0, R), oy + rng.randint(0, R))
        if not pts or p != pts[-1] or rng.random() < 0.15:
            pts.append(p)
    return close(pts)


def gen_valid_polygon(rng, R, ox=0, oy=0):
    k = rng.random()
    if k < 0.4:
        w, h = rng.randint(1, R), rng.randint(1, R)
        rings = [rect(ox, oy, ox + w, oy + h)]
        if w >= 3 and h >= 3 and rng.random() < 0.4:
            rings.append(rect(ox + 1, oy + 1, ox + w - 1, oy + h - 1)[::-1] if rng.random() < 0.5 else rect(ox + 1, oy + 1, ox + 2, oy + 2))
        return ('PG', rings)
    if k < 0.7:     # triangle / convex quad
        a = (ox, oy); b = (ox + rng.randint(1, R), oy); c = (ox + rng.randint(0, R), oy + rng.randint(1, R))
        return ('PG', [[a, b, c, a]])
    # staircase
    n = rng.randint(1, 3); pts = [(ox, oy)]
    for i in range(n):
        pts += [(ox + 2 * i + 2, oy + 2 * i), (ox + 2 * i + 2, oy + 2 * i + 2)]
    pts += [(ox, oy + 2 * n)]
    return ('PG', [close(pts)])


def gen_invalid_hole(rng):
    """a shell of some shape with a hole that is itself an invalid ring (bow-tie, spike, ring run twice, fold-back), placed
    around / inside / across the shell"""
    S = rng.choice([8, 10, 12])
    shells = {'triangle': [(0, 0), (S, 0), (0, S), (0, 0)], 'rect': rect(0, 0, S, S - 2),
              'diamond': [(S // 2, 0), (S, S // 2), (S // 2, S), (0, S // 2), (S // 2, 0)],
              'ell': [(0, 0), (S, 0), (S, 3), (3, 3), (3, S), (0, S), (0, 0)],
              'pentagon': [(0, 0), (S, 0), (S, S // 2), (S // 2, S), (0, S // 2), (0, 0)]}
    shape = rng.choice(sorted(shells)); shell = shells[shape]
    if rng.random() < 0.3:
        shell = shell[::-1]
    kind = rng.choice(['bowtie', 'bowtie', 'spike', 'double', 'foldback'])
    place = rng.choice(['around', 'around', 'inside', 'across'])
    if kind == 'bowtie':
        if place == 'around':           # the big lobe (crossing point X, U, V) encloses the shell without touching it
            a = rng.randint(2, 5); m = rng.randint(1, 6); X = (-a, -a); U = (3 * S + a, -a); V = (-a, 3 * S + a)
            hole = [U, (-a - m, -a), (-a, -a - m), V, U]
        else:
            hole = [(1, 1), (3, 3), (3, 1), (1, 3), (1, 1)]
    elif kind == 'spike':
        hole = [(1, 1), (3, 1), (3, 2), (5, 2), (3, 2), (3, 3), (1, 3), (1, 1)] if place != 'around' else \
               [(-2, -2), (S + 2, -2), (S + 2, S + 2), (S + 5, S + 5), (S + 2, S + 2), (-2, S + 2), (-2, -2)]
    elif kind == 'double':
        r = rect(1, 1, 3, 3) if place != 'around' else rect(-2, -2, S + 2, S + 2)
        hole = r + r[1:]
    else:
        hole = [(1, 1), (3, 1), (3, 3), (3, 1), (1, 1)] if place != 'around' else [(-2, -2), (S + 2, -2), (S + 2, S + 2), (S + 2, -2), (-2, -2)]
    if place == 'across':
        dx = rng.choice([S - 2, -2]); hole = [(x + dx, y) for x, y in hole]
    if rng.random() < 0.3:
        hole = hole[::-1]
    rings = [shell, hole]
    if rng.random() < 0.2:
        rings.append(rect(1, 1, 2, 2) if shape != 'diamond' else rect(S // 2, S // 2, S // 2 + 1, S // 2 + 1))
    return ('PG', rings), 'invalid-hole-%s-%s' % (kind, place)


def gen_invalid_polygon(rng, R):
    if rng.random() < 0.2:
        return gen_invalid_hole(rng)
    k = rng.randint(0, 13)
    if k == 0:                                  # random (mostly self-crossing) ring
        return ('PG', [rand_ring(rng, rng.randint(3, 7), R)]), 'random-ring'
    if k == 1:                                  # bow-tie
        s = rng.randint(2, R)
        return ('PG', [[(0, 0), (s, s), (s, 0), (0, s), (0, 0)]]), 'bow-tie'
    if k == 2:                                  # self-touching at a vertex (figure 8) / ring touching itself on an edge
        s = rng.randint(1, 4)
        return ('PG', [[(0, 0), (2 * s, 0), (2 * s, 2 * s), (s, s), (0, 2 * s), (0, 4 * s), (4 * s, 4 * s), (s, s), (0, 0)]]), 'self-touch'
    if k == 3:                                  # spike
        s = rng.randint(2, R)
        return ('PG', [[(0, 0), (s, 0), (s, s), (2 * s, 2 * s), (s, s), (0, s), (0, 0)]]), 'spike'
    if k == 4:                                  # repeated points
        g = gen_valid_polygon(rng, R); r = list(g[1][0]); i = rng.randint(0, len(r) - 1); r.insert(i, r[i])
        return ('PG', [r] + g[1][1:]), 'repeated-point'
    if k == 5:                                  # hole outside the shell  (F10)
        s = rng.randint(3, R)
        return ('PG', [rect(0, 0, s, s), rect(s + 2, 1, s + 4, 3)]), 'hole-outside'
    if k == 6:                                  # hole crossing the shell
        s = rng.randint(4, R + 3)
        return ('PG', [rect(0, 0, s, s), rect(s - 2, 1, s + 3, 3)]), 'hole-crossing'
    if k == 7:                                  # hole equal to the shell / hole touching along an edge
        s = rng.randint(3, R)
        if rng.random() < 0.5:
            return ('PG', [rect(0, 0, s, s), rect(0, 0, s, s)[::-1]]), 'hole-equal'
        return ('PG', [rect(0, 0, s, s), rect(0, 1, 2, s - 1)]), 'hole-on-edge'
    if k == 8:                                  # nested / overlapping holes
        s = rng.randint(8, 12)
        return ('PG', [rect(0, 0, s, s), rect(1, 1, 6, 6), rect(2, 2, 4, 4) if rng.random() < 0.5 else rect(4, 4, 7, 7)]), 'holes-nested-overlap'
    if k == 9:                                  # zero-area ring (collinear), all points equal
        if rng.random() < 0.5:
            a = rng.randint(1, R)
            return ('PG', [[(0, 0), (a, a), (2 * a, 2 * a), (0, 0)]]), 'zero-area'
        p = (rng.randint(0, R), rng.randint(0, R))
        return ('PG', [[p, p, p, p]]), 'point-ring'
    if k == 10:                                 # ring run through twice
        s = rng.randint(2, R); r = rect(0, 0, s, s)
        return ('PG', [r + r[1:]]), 'double-ring'
    if k == 11:                                 # back-and-forth ring with no area but not collinear
        return ('PG', [[(0, 0), (3, 0), (3, 3), (3, 0), (0, 0)]]), 'fold-back'
    if k == 12:                                 # shell with an inverted part (crossing quadrilateral with extra vertices)
        return ('PG', [[(0, 0), (6, 0), (6, 4), (2, -2), (0, 4), (0, 0)]]), 'inverted-part'
    g = gen_valid_polygon(rng, R)
    return ('PG', [g[1][0][::-1]] + g[1][1:]), 'cw-shell'


def gen_line(rng, R):
    k = rng.random()
    if k < 0.2:
        p = (rng.randint(0, R), rng.randint(0, R))
        return ('LS', [p] * rng.randint(2, 3)), 'zero-length-line'
    pts = [(rng.randint(0, R), rng.randint(0, R)) for _ in range(rng.randint(2, 6))]
    if k < 0.45:
        i = rng.randint(0, len(pts) - 1); pts.insert(i, pts[i]); return ('LS', pts), 'line-repeated'
    if k < 0.6:
        pts = pts + pts[::-1][1:]; return ('LS', pts), 'line-back'
    return ('LS', pts), 'line'


def translate_g(g, dx, dy):
    return map_geom(g, lambda p: (p[0] + dx, p[1] + dy))


def gen_related(rng, R, kind):
    """3..6 elements with mixed relations; every new element is related to a RANDOM earlier one (overlapping, equal, sharing an
    edge, touching in a point, contained, far away), then the element order is permuted: interacting elements end up separated
    by non-interacting ones.  kind: 'MPG' | 'MLS' | 'GC'"""
    n = rng.randint(3, 6)
    rels = []
    def base_poly():
        r = rng.random()
        if r < 0.6:
            w, h = rng.randint(2, R + 2), rng.randint(2, R + 2); return ('PG', [rect(0, 0, w, h)]), (w, h)
        if r < 0.8:
            w, h = rng.randint(2, R + 2), rng.randint(2, R + 2); return ('PG', [[(0, 0), (w, 0), (0, h), (0, 0)]]), (w, h)
        if r < 0.9:
            w = rng.randint(4, R + 4); return ('PG', [rect(0, 0, w, w), rect(1, 1, w - 1, w - 1)[::-1]]), (w, w)
        g, _ = gen_invalid_polygon(rng, R); vs = all_vals(g); return g, (max(1, int(max(vs[0::2]))), max(1, int(max(vs[1::2]))))
    def base_line():
        r = rng.random()
        if r < 0.5:
            w = rng.randint(2, R + 2); return ('LS', [(0, 0), (w, 0)]), (w, 1)
        if r < 0.8:
            w, h = rng.randint(2, R + 2), rng.randint(1, R); return ('LS', [(0, 0), (w, 0), (w, h)]), (w, h)
        g, _ = gen_line(rng, R); return g, (R, R)
    items = []          # (geometry, origin, size)
    far = 0
    for i in range(n):
        mk = base_poly if kind == 'MPG' or (kind == 'GC' and rng.random() < 0.6) else base_line
        g, (w, h) = mk()
        if not items:
            items.append((g, (0, 0), (w, h))); rels.append('first'); continue
        tg, (ox, oy), (tw, th) = rng.choice(items)
        rel = rng.choice(['overlap', 'overlap', 'equal', 'edge', 'point', 'inside', 'far', 'far', 'collinear-overlap'])
        rels.append(rel)
        if rel == 'equal':
            items.append((tg if rng.random() < 0.7 else map_geom(tg, lambda p: p), (ox, oy), (tw, th))); continue
        if rel == 'overlap':
            dx, dy = ox + rng.randint(1, max(1, tw - 1)), oy + rng.randint(0, max(0, th - 1))
        elif rel == 'collinear-overlap':
            dx, dy = ox + rng.randint(1, max(1, tw - 1)), oy
        elif rel == 'edge':
            dx, dy = ox + tw, oy + rng.randint(0, max(0, th - 1))
        elif rel == 'point':
            dx, dy = ox + tw, oy + th
        elif rel == 'inside':
            g, (w, h) = (('PG', [rect(0, 0, 1, 1)]), (1, 1)) if g[0] == 'PG' else (('LS', [(0, 0), (1, 0)]), (1, 1))
            dx, dy = ox + rng.randint(0, max(0, tw - 1)), oy + rng.randint(0, max(0, th - 1))
        else:
            far += 1; dx, dy = far * 40 + rng.randint(0, 5), 40 * rng.choice([-1, 0, 1, 2])
        items.append((translate_g(g, dx, dy), (dx, dy), (w, h)))
    els = [it[0] for it in items]
    r = rng.random()
    if r < 0.55:
        rng.shuffle(els)
    elif r < 0.8:
        # interacting elements as far apart in the list as possible: sort by relation, far-away fillers in the middle
        fars = [e for e, rl in zip(els, rels) if rl == 'far']; near = [e for e, rl in zip(els, rels) if rl != 'far']
        els = near[:1] + fars + near[1:]
    if kind == 'GC' and rng.random() < 0.5:
        # wrap runs of polygons into a MultiPolygon member, lines into a MultiLineString member
        ps = [e for e in els if e[0] == 'PG']; ls = [e for e in els if e[0] == 'LS']
        els = ([('MPG', ps)] if ps else []) + ([('MLS', ls)] if ls else [])
        rng.shuffle(els)
    label = 'related-%s-%s' % (kind.lower(), '+'.join(sorted(set(rels) - {'first'})))
    return (kind, els), 'related-' + kind.lower()


def gen_case_geom(rng):
    R = rng.choice([3, 6, 10])
    k = rng.random()
    if k < 0.10:
        return gen_related(rng, R, 'MPG')
    if k < 0.14:
        return gen_related(rng, R, 'MLS')
    if k < 0.18:
        return gen_related(rng, R, 'GC')
    k = rng.random()
    if k < 0.12:
        g = gen_valid_polygon(rng, R); return g, 'valid-polygon'
    if k < 0.42:
        return gen_invalid_polygon(rng, R)
    if k < 0.52:
        return gen_line(rng, R)
    if k < 0.55:
        return ('PT', (rng.randint(0, R), rng.randint(0, R))), 'point'
    if k < 0.58:        # LinearRing atoms: collapsed (a,a,a), (a,b,a), valid, self-crossing
        r = rng.random(); a = (rng.randint(0, R), rng.randint(0, R)); b = (a[0] + rng.randint(1, 4), a[1] + rng.randint(0, 3))
        if r < 0.2: return ('LR', [a, a, a]), 'ring-point'
        if r < 0.45: return ('LR', [a, b, a]), 'ring-spike'
        if r < 0.7: return ('LR', rect(a[0], a[1], a[0] + 3, a[1] + 2)), 'ring-valid'
        return ('LR', [(0, 0), (4, 4), (4, 0), (0, 4), (0, 0)]), 'ring-crossing'
    if k < 0.64:
        n = rng.randint(1, 3)
        return ('MLS', [gen_line(rng, R)[0] for _ in range(n)]), 'multiline'
    if k < 0.84:        # multipolygons: disjoint, overlapping, touching, with collapsed elements
        n = rng.randint(1, 3); els = []
        mode = rng.choice(['apart', 'overlap', 'touch', 'mixed'])
        for i in range(n):
            if mode == 'apart':
                els.append(gen_valid_polygon(rng, R, ox=i * (R + 3)))
            elif mode == 'overlap':
                els.append(gen_valid_polygon(rng, R, ox=i * max(1, R // 2), oy=rng.randint(0, 2)))
            elif mode == 'touch':
                els.append(('PG', [rect(i * R, 0, (i + 1) * R, R)]))
            else:
                els.append(gen_invalid_polygon(rng, R)[0] if rng.random() < 0.6 else gen_valid_polygon(rng, R, ox=rng.randint(0, R)))
        if rng.random() < 0.25:
            els.append(('PG', [[(20, 0), (21, 0), (22, 0), (20, 0)]]))
        return ('MPG', els), 'multipolygon-' + mode
    if k < 0.9:
        return ('MPT', [('PT', (rng.randint(0, R), rng.randint(0, R))) for _ in range(rng.randint(1, 3))]), 'multipoint'
    # nested collections
    def coll(depth):
        els = []
        for _ in range(rng.randint(1, 3)):
            r = rng.random()
            if r < 0.3: els.append(gen_invalid_polygon(rng, R)[0])
            elif r < 0.5: els.append(gen_valid_polygon(rng, R, ox=rng.randint(0, 20)))
            elif r < 0.7: els.append(gen_line(rng, R)[0])
            elif r < 0.8: els.append(('PT', (rng.randint(0, R), rng.randint(0, R))))
            elif depth < 2: els.append(coll(depth + 1))
            else: els.append(('MPT', [('PT', (1, 1))]))
        return ('GC', els)
    return coll(0), 'collection'


def poison(rng, g):
    """replace one ordinate by a non-finite value"""
    vals = all_vals(g)
    if not vals:
        return g
    target = rng.randint(0, len(vals) - 1); cnt = [0]
    bad = rng.choice([NAN, INF, -INF])
    def mp(p):
        out = []
        for v in p:
            out.append(bad if cnt[0] == target else v); cnt[0] += 1
        return tuple(out)
    def go(g):
        t, d = g
        if t == 'PT': return (t, None if d is None else mp(d))
        if t in ('LS', 'LR'): return (t, [mp(p) for p in d])
        if t == 'PG': return (t, [[mp(p) for p in r] for r in d])
        return (t, [go(x) for x in d])
    return go(g)


def map_geom(g, f):
    t, d = g
    if t == 'PT': return (t, None if d is None else f(d))
    if t in ('LS', 'LR'): return (t, [f(p) for p in d])
    if t == 'PG': return (t, [[f(p) for p in r] for r in d])
    return (t, [map_geom(x, f) for x in d])


# ====================================================================== the check
def run(ctx):
    ctx.cov['rule'] = ('one evaluation = one call of GEOSMakeValid_r / GEOSMakeValidWithParams_r (method, keep-collapsed) judged by all clauses '
                       'of FixSpec that apply; non-trivial: the input is invalid, or valid with at least 4 vertices; distinct by request text')
    ctx.assumptions += [
        'validity of results is decided by Lib/ValidDefs.valid_geom (C05) and by GEOSisValid_r; both must say valid',
        'the area of an invalid ring is its nonzero-winding region (what the zero-width buffer of both orientations keeps)',
        'point-set clauses are evaluated on a finite witness family (vertices, midpoints of vertex pairs, ear centroids)',
        'results are read back exactly (%.17g) and scaled by a power of two to integers', 'correspondence is sampled']
    ok_build = ctx.build_repo('rel')
    ok_coq, ax = ctx.coq_build('Properties_C17')
    drv = ctx.ocaml_driver('C17')
    if not ok_build or not ctx.cxx(os.path.join(ROOT, 'harness/c17.cpp'), HEXE, 'rel'):
        return
    if drv is None:
        return
    cases = []
    if ctx.replay:
        r = json.load(open(ctx.replay))
        c = r.get('shrunk') or r.get('case')
        cases = [fix_case(c)]
    else:
        corpus = os.path.join(ROOT, 'gen/corpus/C17.jsonl')
        if os.path.exists(corpus):
            for l in open(corpus):
                l = l.strip()
                if l and not l.startswith('#'):
                    cases.append(fix_case(json.loads(l)))
        rng = ctx.rng
        n = 1500 if ctx.quick else 14000
        dist = {}
        for _ in range(n):
            g, label = gen_case_geom(rng)
            if rng.random() < 0.5:
                k = rng.choice([1, 2, 3, 7, 100]); tx, ty = rng.choice([0, 0, 5, -11, 1000]), rng.choice([0, 0, -3, 17, 10 ** 5])
                g = map_geom(g, lambda p: (p[0] * k + tx, p[1] * k + ty))
            if rng.random() < 0.06:
                g = poison(rng, g); label += '+nonfinite'
            dist[label] = dist.get(label, 0) + 1
            for m, keep in (('L', 0), ('S', 0), ('S', 1)) + ((('D', 1),) if rng.random() < 0.15 else ()):
                cases.append(dict(method=m, keep=keep, geom=g, label=label))
            # the same request made through other histories of the params object (setter order, repeated setters,
            # one object reused for several calls): judged for the settings requested LAST
            collapsing = label.split('+')[0] in ('zero-area', 'point-ring', 'zero-length-line', 'ring-point', 'ring-spike', 'fold-back') or label.startswith(('related', 'collection', 'multiline', 'multipolygon-mixed'))
            for _ in range(2 if collapsing else (1 if rng.random() < 0.3 else 0)):
                hist = gen_history(rng)
                m, keep = history_settings(hist)
                cases.append(dict(method=m, keep=keep, hist=hist, geom=g, label=label))
        ctx.notes['distribution'] = dist
    judge_all(ctx, drv, cases, shrink=not ctx.replay)
    st = ctx.notes.get('stats', {})
    if not ctx.replay:
        for need in ['invalid-input', 'valid-input', 'nonfinite', 'collapse-kept', 'collapse-dropped', 'collection', 'table', 'related-multi', 'invalid-hole', 'history', 'history:keep-before-method', 'history:reused-object']:
            if st.get(need, 0) == 0:
                ctx.broken.append(dict(kind='generator', name='distribution ' + need, detail='no case of class %s was generated' % need))
    for c in cases[:4]:
        ctx.sample(('%s keep=%d ' % (c['method'], c['keep'])) + wkt(c['geom'])[:200])


def fix_case(c):
    def fg(g):
        t, d = g
        if t == 'PT': return (t, None if d is None else tuple(float(v) if isinstance(v, str) else v for v in d))
        if t in ('LS', 'LR'): return (t, [tuple(float(v) if isinstance(v, str) else v for v in p) for p in d])
        if t == 'PG': return (t, [[tuple(float(v) if isinstance(v, str) else v for v in p) for p in r] for r in d])
        return (t, [fg(x) for x in d])
    c = dict(c); c['geom'] = fg(c['geom']); return c


def jsonable(g):
    t, d = g
    f = lambda v: (str(v) if isinstance(v, float) and (math.isnan(v) or math.isinf(v)) else v)
    if t == 'PT': return [t, None if d is None else [f(v) for v in d]]
    if t in ('LS', 'LR'): return [t, [[f(v) for v in p] for p in d]]
    if t == 'PG': return [t, [[[f(v) for v in p] for p in r] for r in d]]
    return [t, [jsonable(x) for x in d]]


def fix_request(m, keep, iv, g, r, K):
    M = max([abs(to_int(v, K)) for v in all_vals(g) + all_vals(r)] + [1])
    return 'FIX %s %d %d %d %d | %s | %s' % (m, keep, iv, M * M, 10 ** 18, ' '.join(tokens(g, K)), ' '.join(tokens(r, K)))


def gen_history(rng):
    """a history of GEOSMakeValidParams setter calls on one object (K0/K1 keepCollapsed, ML/MS method, C an intermediate repair)"""
    K = lambda: 'K%d' % rng.randint(0, 1)
    M = lambda: rng.choice(['MS', 'MS', 'ML'])
    fam = rng.randint(0, 7)
    if fam == 0: h = [K(), M()]                       # keepCollapsed, then the method
    elif fam == 1: h = [M(), K()]                     # the method, then keepCollapsed
    elif fam == 2: h = [K(), K(), M()] if rng.random() < 0.5 else [M(), K(), K()]      # a setter twice
    elif fam == 3: h = [M(), K(), M()]                # the method selected again on a configured object
    elif fam == 4: h = [K(), M(), 'C', K()]           # reused: one repair, another keepCollapsed request, next repair
    elif fam == 5: h = [M(), K(), 'C', M()]           # reused: method selected again between two repairs
    elif fam == 6: h = [K(), 'C', M(), 'C', K(), M()]
    else: h = [rng.choice([K(), M(), 'C']) for _ in range(rng.randint(1, 6))]
    return ','.join(h)


def history_settings(hist):
    """the settings requested last: GEOSMakeValidParams_create_r starts with the linework method and keepCollapsed = 0"""
    m, keep = 'L', 0
    for it in hist.split(','):
        if it in ('K0', 'K1'): keep = int(it[1])
        elif it in ('ML', 'MS'): m = it[1]
    return m, keep


def harness_line(c):
    if c.get('hist'):
        return 'MV H:%s %d %s' % (c['hist'], c['keep'], wkt(c['geom']))
    return 'MV %s %d %s' % (c['method'], c['keep'], wkt(c['geom']))


def parse_res(o):
    """-> (result geom, flags dict, second geom) or None"""
    if o.startswith(('NULL', 'READFAIL', 'CRASH')) or o in ('TIMEOUT', 'MISSING', ''):
        return None
    f = o.split(' | ')
    g, _ = parse_geom(f[0].split())
    flags = dict(kv.split('=') for kv in f[1].split())
    g2 = None
    if len(f) > 2 and f[2] != 'NULL':
        g2, _ = parse_geom(f[2].split())
    return conv(g), {k: int(v) for k, v in flags.items()}, g2


def conv(g):
    return g


def find_known(ctx, fid):
    for k in ctx.known:
        if k.get('id') == fid and k.get('status') == 'known':
            return k
    return None


def polygonal_elements(g):
    """the Polygon / MultiPolygon elements of a geometry, at any depth of collections"""
    t, d = g
    if t in ('PG', 'MPG'): return [g]
    if t == 'GC': return [e for x in d for e in polygonal_elements(x)]
    return []


def rings_of(g):
    t, d = g
    if t == 'PG': return list(d)
    if t in ('MPG', 'GC'): return [r for x in d for r in rings_of(x)]
    return []


def ring_self_overlap(g):
    """key of C17-F2: a ring with two of its own segments overlapping collinearly over a positive length"""
    for r in rings_of(g):
        ss = [(a, b) for a, b in zip(r, r[1:]) if a != b]
        for i in range(len(ss)):
            for j in range(i + 1, len(ss)):
                (a, b), (c, d) = ss[i], ss[j]
                if (b[0] - a[0]) * (c[1] - a[1]) - (b[1] - a[1]) * (c[0] - a[0]) != 0 or (b[0] - a[0]) * (d[1] - a[1]) - (b[1] - a[1]) * (d[0] - a[0]) != 0:
                    continue
                t = lambda q: (q[0] - a[0]) * (b[0] - a[0]) + (q[1] - a[1]) * (b[1] - a[1])
                lo, hi = sorted([t(c), t(d)])
                if max(lo, 0) < min(hi, t(b)):
                    return True
    return False


def strip_nonfinite(g):
    """the geometry without its non-finite vertices (what removeRepeatedAndInvalidPoints leaves)"""
    ok = lambda p: all(not (isinstance(v, float) and (math.isnan(v) or math.isinf(v))) for v in p)
    t, d = g
    if t == 'PT': return (t, d if d is not None and ok(d) else None)
    if t in ('LS', 'LR'): return (t, [p for p in d if ok(p)])
    if t == 'PG': return (t, [[p for p in r if ok(p)] for r in d])
    return (t, [strip_nonfinite(x) for x in d])


def dedup(pts):
    out = []
    for p in pts:
        if not out or p != out[-1]:
            out.append(p)
    return out


def winding_nonzero_somewhere(ring):
    """exact: some sample point (ear centroids, pair midpoints) has nonzero winding number w.r.t. the closed ring"""
    def wn(px, py):
        w = 0
        for (x0, y0), (x1, y1) in zip(ring, ring[1:]):
            x0, y0, x1, y1 = Fr(x0), Fr(y0), Fr(x1), Fr(y1)
            cr = (x1 - x0) * (py - y0) - (px - x0) * (y1 - y0)
            if cr == 0 and min(x0, x1) <= px <= max(x0, x1) and min(y0, y1) <= py <= max(y0, y1):
                return None
            if y0 <= py:
                if y1 > py and cr > 0: w += 1
            elif y1 <= py and cr < 0: w -= 1
        return w
    vs = dedup(ring)
    samples = [((a[0] + b[0] + c[0]) / Fr(3), (a[1] + b[1] + c[1]) / Fr(3)) for a, b, c in zip(vs, vs[1:], vs[2:])]
    samples += [((a[0] + b[0]) / Fr(2), (a[1] + b[1]) / Fr(2)) for i, a in enumerate(vs) for b in vs[i + 1:]]
    for s in samples:
        w = wn(Fr(s[0]), Fr(s[1]))
        if w not in (None, 0):
            return True
    return False


def collinear_all(pts):
    u = []
    for p in pts:
        if p not in u: u.append(p)
    if len(u) < 3: return True
    a, b = u[0], u[1]
    return all((b[0] - a[0]) * (c[1] - a[1]) - (b[1] - a[1]) * (c[0] - a[0]) == 0 for c in u[2:])


def judge_all(ctx, drv, cases, shrink=False):
    stats = ctx.notes.setdefault('stats', {})
    def st(k, n=1):
        stats[k] = stats.get(k, 0) + n
    hl = [harness_line(c) for c in cases]
    outs = par_run_lines(ctx, [HEXE], hl, 40 if ctx.quick else 90, chunk=25)
    import time as _t
    for attempt in range(3):
        again = [j for j, o in enumerate(outs) if o.startswith('CRASH') or o in ('MISSING', '')]
        if not again or len(again) > 1000:
            break
        _t.sleep(2 + 5 * attempt)
        for j in again:
            outs[j] = ctx.run_lines([HEXE], [hl[j]], timeout=60)[0]
    ctx.log('harness: %d requests' % len(hl))
    ml = []; mi = []; tl = []; ti = []
    parsed = {}
    for i, (c, o) in enumerate(zip(cases, outs)):
        try:
            parsed[i] = parse_res(o)
        except Exception:
            parsed[i] = None
        pr = parsed[i]
        if pr is None or not finite(c['geom']) or not finite(pr[0]):
            continue
        r, fl, _ = pr
        K = scale_of(all_vals(c['geom']) + all_vals(r))
        if K > 2 ** 70:
            continue
        m = 'L' if c['method'] in ('L', 'D') else 'S'
        ml.append(fix_request(m, c['keep'], fl.get('IV', 0), c['geom'], r, K))
        mi.append(i)
        tb = table_request(c)
        if tb is not None:
            tl.append(tb[0]); ti.append((i, tb[1]))
    mouts = par_run_lines(ctx, [drv], ml + tl, 300 if ctx.quick else 600, chunk=200)
    allq = ml + tl
    unfinished = [j for j, o_ in enumerate(mouts) if o_.startswith(('CRASH', 'TIMEOUT')) or o_ in ('MISSING', '')]
    for j in unfinished[:200]:            # once more, alone (a loaded machine can starve a whole batch)
        mouts[j] = ctx.run_lines([drv], [allq[j]], timeout=300)[0]
    unfinished = [j for j, o_ in enumerate(mouts) if o_.startswith(('CRASH', 'TIMEOUT')) or o_ in ('MISSING', '')]
    ctx.notes['checker_requests_unfinished'] = len(unfinished)
    if len(unfinished) > max(3, len(allq) // 200):
        ctx.broken.append(dict(kind='checker', name='drv_C17 unfinished', detail='%d of %d checker requests did not finish, e.g. %s' % (len(unfinished), len(allq), allq[unfinished[0]][:800])))
    ctx.log('checker / model: %d requests' % (len(ml) + len(tl)))
    mres = {i: (l, o) for i, l, o in zip(mi, ml, mouts[:len(ml)])}
    tres = {i: (l, o, why) for (i, why), l, o in zip(ti, tl, mouts[len(ml):])}
    nviol = 0
    for i, (c, o) in enumerate(zip(cases, outs)):
        verdicts = judge_case(ctx, c, hl[i], o, parsed[i], mres.get(i), tres.get(i), st)
        for name, why, known in verdicts:
            if known is not None:
                ctx.known_hit(known, what='%s: %s' % (known['id'], known['what'][:160])); st('known:' + known['id']); continue
            nviol += 1
            if nviol > 6:
                continue
            shr = None
            if shrink:
                try:
                    shr = shrink_case(ctx, drv, c, name)
                except Exception:
                    shr = None
            rc = shr or c
            rl = harness_line(rc)
            ctx.violation('%s%d_%d_%s' % (c['method'], c['keep'], i, name.replace('-', '_')),
                          dict(clause=name, why=why, case=dict(method=c['method'], keep=c['keep'], hist=c.get('hist'), geom=jsonable(c['geom'])),
                               shrunk=dict(method=rc['method'], keep=rc['keep'], hist=rc.get('hist'), geom=jsonable(rc['geom'])) if shr else None,
                               request=rl, implementation=ctx.run_lines([HEXE], [rl], timeout=60)[0][:2500],
                               checker_request=(mres.get(i) or ('', ''))[0][:2500], checker_answer=(mres.get(i) or ('', ''))[1][:200],
                               replay="echo '%s' | %s" % (rl, HEXE), seed=ctx.seed),
                          msg='%s: %s' % (name, why))
    ctx.cov['traces_validated_against_impl'] = ctx.cov['evaluations']


def table_request(c):
    """collapse table (M) against the implementation, for single elements whose table inputs are decided exactly"""
    if c['method'] != 'S' or not finite(c['geom']):
        return None
    t, d = c['geom']
    if t == 'LS' and d:
        return 'TABLE %d L %d 0 0' % (c['keep'], len(dedup(d))), 'line'
    if t == 'LR' and d:
        dd = dedup(d)
        return 'TABLE %d R %d 0 %d' % (c['keep'], len(dd), 1 if (len(dd) >= 4 and path_simple(dd)) else 0), 'ring'
    if t == 'PG' and len(d) == 1 and d[0]:
        n = len(dedup(d[0]))
        if collinear_all(d[0]):
            return 'TABLE %d A %d 0 0' % (c['keep'], n), 'flat shell'
        if winding_nonzero_somewhere(d[0]):
            return 'TABLE %d A %d 1 0' % (c['keep'], n), 'shell with area'
    return None


def judge_case(ctx, c, line, o, pr, mres, tres, st):
    bad = []
    g = c['geom']; m = c['method']; lw = m in ('L', 'D')
    fin = finite(g)
    if not fin: st('nonfinite')
    if has_collection(g): st('collection')
    if c.get('hist'):
        st('history'); hh = c['hist'].split(',')
        if any(a[0] == 'K' and any(b[0] == 'M' for b in hh[i + 1:]) for i, a in enumerate(hh)): st('history:keep-before-method')
        if 'C' in hh: st('history:reused-object')
    if str(c.get('label', '')).startswith('related-'): st('related-multi')
    if str(c.get('label', '')).startswith('invalid-hole'): st('invalid-hole')
    f9 = find_known(ctx, 'F9') if (lw and not fin) else None
    f2 = find_known(ctx, 'C17-F2') if (m == 'S' and ring_self_overlap(strip_nonfinite(g))) else None
    if o.startswith('READFAIL'):
        return []
    if o.startswith('CRASH') or o in ('TIMEOUT', 'MISSING', ''):
        ctx.count(line, True)
        return [('no-crash', 'implementation %s' % (o[:200] or 'died'), f9 if o == 'TIMEOUT' else None)]
    if pr is None:
        ctx.count(line, True)
        kf = f9
        if kf is None and lw and fin and 'mixed-dimension' in o and any(
                len(rings_of(e)) >= 2 and rings_of(e)[0] and len(set(rings_of(e)[0])) == 1 for e in polygonal_elements(g)):
            kf = find_known(ctx, 'C17-F3')
        if kf is None and lw and fin and 'UnsupportedOperationException' in o and has_kind(g, 'LR'):
            kf = find_known(ctx, 'C17-F4')
        return [('returns-a-geometry', 'implementation answered %s' % o[:200], kf)]
    r, fl, r2 = pr
    nontriv = fl.get('IV') == 0 or len(all_vals(g)) >= 8
    ctx.count(line, nontriv)
    st('invalid-input' if fl.get('IV') == 0 else 'valid-input')
    if fl.get('V') != 1:
        bad.append(('result-valid', 'GEOSisValid_r(result) = %s for %s' % (fl.get('V'), wkt(r)[:200]), f9 or f2))
    if fl.get('DO', 9) > fl.get('DI', -1):
        bad.append(('dimension', 'result dimension %s > input dimension %s' % (fl.get('DO'), fl.get('DI')), f9))
    if fl.get('IV') == 1 and fl.get('EQ') == 0 and not (kind_code(g) == 0 and kind_code(r) == 0):
        bad.append(('valid-input-equal', 'GEOSEquals_r(input, result) = %s for a valid input' % fl.get('EQ'), None))
    # empty atoms are compared without their type (fixing POLYGON EMPTY with keepCollapsed gives LINESTRING EMPTY: the same, empty, point set)
    def cring(rr):
        c = list(map(tuple, rr[:-1])) if len(rr) > 1 and tuple(rr[0]) == tuple(rr[-1]) else list(map(tuple, rr))
        if not c: return ()
        best = None
        for seq_ in (c, c[::-1]):
            i = seq_.index(min(seq_)); rot = tuple(seq_[i:] + seq_[:i])
            best = rot if best is None or rot < best else best
        return best
    def canon(x):
        t, d = x
        if t == 'PT': return ('E',) if d is None else ('PT', tuple(d))
        if t in ('LS', 'LR'):
            if not d: return ('E',)
            a = tuple(map(tuple, d)); return (t, min(a, a[::-1]))
        if t == 'PG':
            return ('E',) if not d else ('PG', cring(d[0]), tuple(sorted(cring(h) for h in d[1:])))
        parts = [canon(y) for y in d]
        return (t, tuple(parts if t == 'GC' else sorted(parts)))
    same_up_to_empties = r2 is not None and (canon(r) == canon(r2) or (kind_code(r) == 0 and kind_code(r2) == 0))
    if (fl.get('IDEM') != 1 and not same_up_to_empties) or fl.get('IDEMV') != 1:
        bad.append(('idempotent', 'fix(fix(g)) differs from fix(g) (IDEM=%s, valid=%s): %s' % (fl.get('IDEM'), fl.get('IDEMV'), wkt(r2)[:150] if r2 else 'NULL'), f9 or (f2 if fl.get('V') != 1 else None)))
    if mres is not None:
        ml, mo = mres
        if mo.startswith(('CRASH', 'TIMEOUT')) or mo in ('MISSING', ''):
            st('checker-unfinished')         # not judged; the share of such requests is limited in judge_all
            return bad
        if mo.startswith(('PARSE', 'ERROR', '?')):
            ctx.broken.append(dict(kind='checker', name='drv_C17', detail='%s\n%s' % (ml[:1500], mo[:300])))
            return bad
        bits = mo.split()
        names = ['result-valid-exact', 'dimension-exact', 'envelope', 'valid-input-same-point-set', 'no-input-vertex-lost', 'area-shells-minus-holes', 'collapses-kept-iff-requested']
        f10key = bits[7] == '1'
        for b, nme in zip(bits[:7], names):
            if b != '0':
                continue
            kf = None
            if nme == 'result-valid-exact':
                if fl.get('V') == 1:
                    ctx.broken.append(dict(kind='correspondence', name='valid_geom vs GEOSisValid_r on a MakeValid result',
                                           detail='%s\nresult %s\nmodel: %s' % (line[:600], wkt(r)[:600], mo)))
                continue
            if nme == 'area-shells-minus-holes' and f10key:
                kf = find_known(ctx, 'F10')
            if nme == 'collapses-kept-iff-requested' and has_collection(g) and c['keep'] == 1:
                kf = find_known(ctx, 'C17-F1')
            bad.append((nme, 'clause %s fails: input %s result %s' % (nme, wkt(g)[:200], wkt(r)[:200]), kf))
        if m == 'S' and not has_collection(g):
            coll = [l for l in ([g[1]] if g[0] == 'LS' else []) if len(set(l)) <= 1] or \
                   [p for p in ([g] if g[0] == 'PG' else (g[1] if g[0] == 'MPG' else [])) if p[1] and collinear_all(p[1][0])]
            if coll:
                st('collapse-kept' if c['keep'] else 'collapse-dropped')
    if tres is not None:
        tl, to, why = tres
        if not to.strip().isdigit():
            return bad
        st('table')
        want = to.strip(); got = kind_code(r)
        okk = str(got) == want or (want == '4' and got == 4)
        if not okk:
            ctx.broken.append(dict(kind='correspondence', name='collapse table (M) vs GeometryFixer',
                                   detail='%s: %s -> model kind %s, implementation %s (kind %d)' % (why, line[:400], want, wkt(r)[:200], got)))
    return bad


# ---------------------------------------------------------------------- shrinking
def fails(ctx, drv, c, clause):
    line = harness_line(c)
    o = ctx.run_lines([HEXE], [line], timeout=30)[0]
    try:
        pr = parse_res(o)
    except Exception:
        pr = None
    mres = None
    if pr is not None and finite(c['geom']) and finite(pr[0]):
        K = scale_of(all_vals(c['geom']) + all_vals(pr[0]))
        m = 'L' if c['method'] in ('L', 'D') else 'S'
        q = fix_request(m, c['keep'], pr[1].get('IV', 0), c['geom'], pr[0], K)
        mres = (q, ctx.run_lines([drv], [q], timeout=120)[0])
    save = (ctx.cov['evaluations'], ctx.cov['distinct_nontrivial'], set(ctx._distinct), list(ctx.broken))
    v = judge_case(ctx, c, line, o, pr, mres, None, lambda k, n=1: None)
    ctx.cov['evaluations'], ctx.cov['distinct_nontrivial'] = save[0], save[1]; ctx._distinct = save[2]; ctx.broken[:] = save[3]
    return any(n == clause and kf is None for n, _, kf in v)


def shrinks(g):
    """smaller variants of a geometry: drop an element / a ring / a vertex"""
    t, d = g
    out = []
    if t in ('MPT', 'MLS', 'MPG', 'GC'):
        for i in range(len(d)):
            if len(d) > 1:
                out.append((t, d[:i] + d[i + 1:]))
            for s in shrinks(d[i]):
                if t == 'GC' or s[0] == d[i][0]:
                    out.append((t, d[:i] + [s] + d[i + 1:]))
        if t == 'GC' and len(d) == 1:
            out.append(d[0])
    elif t == 'PG' and d:
        for i in range(1, len(d)):
            out.append((t, d[:i] + d[i + 1:]))
        for i, r in enumerate(d):
            if len(r) > 4:
                for j in range(1, len(r) - 1):
                    out.append((t, d[:i] + [r[:j] + r[j + 1:]] + d[i + 1:]))
    elif t == 'LS' and len(d) > 2:
        for j in range(len(d)):
            out.append((t, d[:j] + d[j + 1:]))
    return out


def shrink_case(ctx, drv, c, clause):
    cur = dict(c); budget = 10 if clause == 'no-crash' else 80
    changed = True
    while changed and budget > 0:
        changed = False
        for s in shrinks(cur['geom']):
            budget -= 1
            if budget <= 0:
                break
            cand = dict(cur); cand['geom'] = s
            if fails(ctx, drv, cand, clause):
                cur = cand; changed = True
                break
    return cur if cur['geom'] != c['geom'] else None
