"""C03 — overlay results are valid and equal the Boolean combination of the inputs.

proof:  coq/theories/C03/OverlayDefs.v (relational specification OverlaySpec with an executable checker: exact point-set
        membership at a finite witness family, tolerant containment of lower-dimension parts, result-type rules, area laws),
        C03/OverlayProofs.v, Properties_C03.v; decision tables of OverlayNG / OverlayUtil / OverlayLabel as generated units
        (translator/units/C03.py) proved equal to the Boolean combination.
tie:    G = the generated units; R = the checker extracted to OCaml decides every result the real library returns
        (GEOSIntersection_r, Union, Difference, SymDifference, UnaryUnion, UnionCascaded, DisjointSubsetUnion, CoverageUnion,
        ClipByRect) on generated valid inputs.  Every case (inputs and result, all binary64 = dyadic rationals) is scaled
        by its common power of two to integers HERE (Python Fractions, exact) so that the checker sees exact coordinates.
"""
import json, os, random, time
from concurrent.futures import ThreadPoolExecutor
from fractions import Fraction
from vlib.core import ROOT, BUILD, NPROC
from props import C03_lib as L

CLIP_UNITS = ['RC_isInsideEdge', 'RC_intersectionLineX', 'RC_intersectionLineY', 'RC_intersection', 'ENB_computeDepthDelta']
UNITS = ['OV_isResultOfOp', 'OV_getLocation1', 'OV_isResultOfOpPoint', 'OV_resultDimension', 'OV_isEmptyResult', 'OV_getLocation3',
         'OV_isBoundary1', 'OV_getLineLocation1', 'OV_getLocationBoundaryOrLine']
BIN = {'INT': (1, 'GEOSIntersection_r'), 'UNI': (2, 'GEOSUnion_r'), 'DIF': (3, 'GEOSDifference_r'), 'SYM': (4, 'GEOSSymDifference_r')}
UNA = {'UU': 'GEOSUnaryUnion_r', 'UC': 'GEOSUnionCascaded_r', 'DSU': 'GEOSDisjointSubsetUnion_r', 'CU': 'GEOSCoverageUnion_r'}
GC_EMPTY = ('GC', [])
SUBNORMAL = [False]        # thorough tier: let the ulp jitter of a zero ordinate be the subnormal 2^-1074


class Case:
    __slots__ = ('call', 'A', 'B', 'rect', 'family', 'label', 'idx', 'out', 'R', 'gv', 'verdict', 'stats', 'why', 'ints', 'par')

    def __init__(self, call, A, B=None, rect=None, family='', label=''):
        self.call, self.A, self.B, self.rect, self.family, self.label = call, A, B, rect, family, label
        self.out = self.R = self.verdict = self.stats = self.why = self.ints = self.par = None
        self.gv = None

    def harness_line(self):
        if self.call == 'CLIP':
            return 'CLIP %s | %s' % (' '.join(L.hexd(v) for v in self.rect), L.text_hex(self.A))
        if self.call in UNA:
            return '%s | %s' % (self.call, L.text_hex(self.A))
        return '%s | %s | %s' % (self.call, L.text_hex(self.A), L.text_hex(self.B))

    def spec_inputs(self):
        """(op code, A, B, mode) as the checker sees the call"""
        if self.call in BIN:
            return BIN[self.call][0], self.A, self.B, 'F'
        if self.call == 'CLIP':
            x0, y0, x1, y1 = self.rect
            return 1, self.A, ('PG', [L.ring_rect(x0, y0, x1, y1)]), 'M'
        return 2, self.A, GC_EMPTY, 'U'

    def describe(self):
        d = dict(call=UNA.get(self.call) or (BIN[self.call][1] if self.call in BIN else 'GEOSClipByRect_r'), family=self.family, label=self.label,
                 A=L.to_wkt(self.A))
        if self.B is not None: d['B'] = L.to_wkt(self.B)
        if self.rect: d['rect'] = [repr(v) for v in self.rect]
        return d


class Runner:
    def __init__(self, ctx, hexe, drv):
        self.ctx, self.hexe, self.drv = ctx, hexe, drv
        self.valid_cache = {}

    def par_lines(self, argv, lines, timeout, chunk=None):
        if not lines: return []
        n = len(lines)
        k = chunk or max(1, min(200, (n + NPROC - 1) // NPROC))
        chunks = [lines[i:i + k] for i in range(0, n, k)]
        with ThreadPoolExecutor(max_workers=NPROC) as ex:
            res = list(ex.map(lambda c: self.ctx.run_lines(argv, c, timeout=timeout), chunks))
        return [o for r in res for o in r]

    def model_valid(self, geoms_int):
        """exact validity (Lib/ValidDefs through the driver) of integer geometries; cached by text"""
        todo = []
        for g in geoms_int:
            t = L.text_int(g)
            if t not in self.valid_cache and t not in todo: todo.append(t)
        outs = self.par_lines([self.drv], ['VAL ' + t for t in todo], timeout=600)
        for t, o in zip(todo, outs):
            self.valid_cache[t] = o.strip()
        return [self.valid_cache[L.text_int(g)] for g in geoms_int]

    def run(self, cases, stats=True):
        """implementation, then the extracted checker, on every case; fills the Case fields"""
        outs = self.par_lines([self.hexe], [c.harness_line() for c in cases], timeout=300)
        lines, owners = [], []
        for c, o in zip(cases, outs):
            c.out = o
            if not o.startswith('OK '):
                continue
            toks = o.split()
            c.gv = toks[1] == 'v=1'
            try:
                c.R, _ = L.parse_tokens(toks[2:])
            except Exception as e:
                c.out = 'UNPARSABLE ' + o[:200]; continue
            op, A, B, mode = c.spec_inputs()
            try:
                (Ai, Bi, Ri), e = L.scale_case([A, B, c.R])
            except ValueError:
                c.out = 'NONFINITE ' + o[:200]; continue
            mag = L.magnitude([Ai, Bi])
            tn, td, en, ed = L.tolerances(mag)
            Ai, Bi, Ri = L.translate_case([Ai, Bi, Ri])
            c.ints = (Ai, Bi, Ri, e); c.par = (tn, td, en, ed)
            want = bool(stats) and (stats is True or len(lines) % int(stats) == 0)
            lines.append('CHK %s%s %d %d %d %d %d %s %s %s' % (mode, 's' if want else '', op, tn, td, en, ed, L.text_int(Ai), L.text_int(Bi), L.text_int(Ri)))
            owners.append(c)
        vouts = self.par_lines([self.drv], lines, timeout=900, chunk=8)
        for c, v, ln in zip(owners, vouts, lines):
            c.verdict = v
            if '#' in v:
                try: c.stats = [int(x) for x in v.split('#')[1].split()]
                except ValueError: pass
        # exact validity of the inputs (the property quantifies over valid inputs only)
        need = []
        for c in cases:
            if c.ints: need += self.input_parts(c)
        self.model_valid(need)
        return cases

    def input_parts(self, c):
        """integer geometries whose validity the quantifier requires: the operands; for the unary calls every element"""
        Ai, Bi = c.ints[0], c.ints[1]
        if c.call in UNA:
            return L.atoms(Ai)
        return [Ai, Bi] if c.call in BIN else [Ai]

    def inputs_valid(self, c):
        return all(self.valid_cache.get(L.text_int(g)) == '1' for g in self.input_parts(c))


# ------------------------------------------------------------------ verdicts
def env(g):
    pts = L.all_pts(g)
    return None if not pts else (min(p[0] for p in pts), max(p[0] for p in pts), min(p[1] for p in pts), max(p[1] for p in pts))


def nontrivial(c):
    if c.call in BIN:
        a, b = env(c.A), env(c.B)
        return bool(a and b and b[0] <= a[1] and a[0] <= b[1] and b[2] <= a[3] and a[2] <= b[3])
    if c.call == 'CLIP':
        a = env(c.A); x0, y0, x1, y1 = c.rect
        return bool(a and x0 <= a[1] and a[0] <= x1 and y0 <= a[3] and a[2] <= y1)
    return len([a for a in L.atoms(c.A) if not L.is_empty(a)]) >= 2


def classify(c, runner):
    """-> None (holds) | ('skip', why) | ('fail', clause, text)"""
    if c.out is None:
        return ('fail', 'harness', 'no output')
    if c.out.startswith('BADINPUT'):
        return ('skip', 'constructor refused the input: ' + c.out[:120])
    if c.ints is None and c.out.startswith(('EXC', 'CRASH', 'TIMEOUT')):
        # validity of the inputs is still needed: scale the inputs alone
        op, A, B, mode = c.spec_inputs()
        (Ai, Bi), e = L.scale_case([A, B])
        c.ints = (Ai, Bi, None, e)
        runner.model_valid(runner.input_parts(c))
    if c.ints is None:
        return ('fail', 'harness', c.out[:200])
    if not runner.inputs_valid(c):
        return ('skip', 'input not valid by the exact model')
    if c.out.startswith('EXC'):
        return ('fail', 'exception', 'exception on valid input: ' + c.out[4:200])
    if c.out.startswith(('CRASH', 'TIMEOUT')):
        return ('fail', 'crash', c.out[:200])
    v = c.verdict or 'MISSING'
    if v.startswith('1'):
        if c.call != 'CLIP' and not c.gv:
            return ('fail', 'valid', 'GEOSisValid_r rejects the result although the exact model accepts it')
        return None
    if not v.startswith('0'):
        return ('fail', 'checker', 'checker output: ' + v[:200])
    f = dict(kv.split('=', 1) for kv in v.split('#')[0].split()[1:] if '=' in kv)
    clauses = []
    if f.get('valid') == '0' and c.call != 'CLIP': clauses.append('i-valid')
    if f.get('shape') == '0' and c.call != 'CLIP': clauses.append('iv-shape')
    if f.get('sides'): clauses.append('ii-sides')
    if f.get('lows') and c.call != 'CLIP': clauses.append('ii-low')
    if f.get('conv') and c.call != 'CLIP': clauses.append('ii-conv')
    if f.get('segs'): clauses.append('iii-segs')
    if f.get('pts') and c.call != 'CLIP': clauses.append('iii-pts')
    if not clauses:
        return None
    return ('fail', '+'.join(clauses), 'checker rejects the result: ' + v.split('#')[0][:400])


def sc_path(c):
    """HeuristicOverlay hands the pair to StructuredCollection::overlay"""
    return c.call in BIN and (not L.handled_by_overlayng(c.A) or not L.handled_by_overlayng(c.B))


def has_empty_part(g):
    return L.is_empty(g) or any(L.is_empty(a) for a in L.atoms(g))


def has_empty_multi(g):
    t, d = g
    if t in ('MPT', 'MLS', 'MPG'): return len(d) == 0
    return t == 'GC' and any(has_empty_multi(h) for h in d)


def ring_revisits_vertex(g):
    for a in L.atoms(g):
        if a[0] == 'PG':
            for ring in a[1]:
                body = ring[:-1]
                if len(set(body)) < len(body): return True
    return False


def near_coincident_backtracking(A, B):
    """C03-F8: two single polygons of almost equal area at |ordinate| >= 5e8, one with a near-collinear back-tracking vertex triple"""
    if A[0] != 'PG' or B[0] != 'PG' or not A[1] or not B[1]: return False
    if L.magnitude([A, B]) < 5e8: return False
    def area(g): return abs(sum(float(r[i][0]) * r[i + 1][1] - float(r[i + 1][0]) * r[i][1] for r in g[1][:1] for i in range(len(r) - 1))) / 2
    # shoelace about the first vertex to keep the floats small
    def area0(g):
        r = g[1][0]; ox, oy = r[0]
        return abs(sum((r[i][0] - ox) * (r[i + 1][1] - oy) - (r[i + 1][0] - ox) * (r[i][1] - oy) for i in range(len(r) - 1))) / 2
    a, b = area0(A), area0(B)
    if a == 0 or abs(a - b) > 1e-6 * a: return False
    def backtracks(g):
        for r in g[1]:
            pts = r[:-1]; n = len(pts)
            for i in range(n):
                p, q, t = pts[i - 1], pts[i], pts[(i + 1) % n]
                ux, uy, vx, vy = q[0] - p[0], q[1] - p[1], t[0] - q[0], t[1] - q[1]
                dot = ux * vx + uy * vy; cr = ux * vy - uy * vx
                if dot < 0 and abs(cr) <= 1e-6 * (ux * ux + uy * uy) ** 0.5 * (vx * vx + vy * vy) ** 0.5: return True
        return False
    return backtracks(A) or backtracks(B)


def known_key(c, clause='', text=''):
    """input classes of the recorded findings (known_findings.json, property C03): specific to call, path and failing clause"""
    keys = []
    if c.call == 'DIF' and 'ii-sides' in clause and near_coincident_backtracking(c.A, c.B):
        keys.append('difference-near-coincident-backtracking-large-magnitude')
    if c.call == 'CU' and clause == 'i-valid' and c.R is not None and ring_revisits_vertex(c.R):
        keys.append('coverageunion-boundary-touches-at-vertex')
    if not sc_path(c):
        return keys
    low = any(k in clause for k in ('ii-low', 'ii-conv', 'iii-pts', 'iii-segs'))
    if c.call == 'SYM' and low:
        keys.append('symdiff-structured-collection')
    if (has_empty_part(c.A) or has_empty_part(c.B)) and (
            (clause == 'exception' and 'Unable to determine overlay result geometry dimension' in text)
            or (clause == 'iv-shape' and c.R is not None and L.is_empty(c.R))):
        keys.append('structured-collection-empty-dimension')
    if clause == 'iv-shape' and c.R is not None and L.is_empty(c.R) and (has_empty_multi(c.A) or has_empty_multi(c.B)):
        keys.append('structured-collection-empty-multi-dimension')
    if c.call == 'DIF' and 'iii-pts' in clause and any(a[0] == 'PT' and a[1] is not None for a in L.atoms(c.A)) \
            and any(a[0] == 'LS' and a[1] for a in L.atoms(c.B)):
        keys.append('difference-structured-collection-point-on-line')
    if c.call == 'DIF' and 'ii-conv' in clause and any(a[0] == 'LS' and a[1] for a in L.atoms(c.A)) \
            and any(a[0] == 'LS' and a[1] for a in L.atoms(c.B)) and any(a[0] == 'PG' and a[1] for a in L.atoms(c.B)):
        keys.append('difference-structured-collection-chained-lines')
    if low and (lines_renoded(c.A) or lines_renoded(c.B)):
        keys.append('structured-collection-renoded-lines')
    return keys


def lines_renoded(g):
    """two line segments of g (of one line or of two) meet at a point that is not an end point of both: the unary union of the
    lines inserts a computed (rounded) node there"""
    segs = []
    for a in L.atoms(g):
        if a[0] == 'LS':
            segs += [(p, q) for p, q in zip(a[1][:-1], a[1][1:]) if p != q]
    F = lambda p: (Fraction(p[0]), Fraction(p[1]))
    segs = [(F(p), F(q)) for p, q in segs]
    for i in range(len(segs)):
        for j in range(i + 1, len(segs)):
            (a, b), (c, d) = segs[i], segs[j]
            if not L.segs_meet(a, b, c, d): continue
            shared = {a, b} & {c, d}
            o = [L.orient(a, b, c), L.orient(a, b, d), L.orient(c, d, a), L.orient(c, d, b)]
            if all(x == 0 for x in o):
                if len(shared) == 1 and not overlap_beyond_point(a, b, c, d): continue
                return True
            # a single common point: fine only if it is an end point of both
            if shared: continue
            return True
    return False


def overlap_beyond_point(a, b, c, d):
    """collinear segments sharing an end point: do they overlap in more than that point?"""
    key = (lambda p: p[0]) if a[0] != b[0] else (lambda p: p[1])
    lo1, hi1 = sorted([key(a), key(b)]); lo2, hi2 = sorted([key(c), key(d)])
    return min(hi1, hi2) > max(lo1, lo2)


# ------------------------------------------------------------------ case generation
def expand_pair(rng, A, B, family, label, full=False):
    """the four overlay calls on (A, B) plus the law instances of clause (vi) for a fraction of the pairs"""
    cs = [Case(k, A, B, family=family, label=label) for k in ('INT', 'UNI', 'DIF', 'SYM')]
    r = rng.random()
    if r < 0.25:
        cs += [Case(k, B, A, family=family, label=label + '/swap') for k in ('INT', 'UNI', 'DIF', 'SYM')]
    elif r < 0.35:
        cs += [Case(k, A, A, family=family, label=label + '/self') for k in ('INT', 'UNI', 'DIF', 'SYM')]
    elif r < 0.45:
        E = L.EMPTY_OF[rng.choice(['PT', 'LS', 'PG', 'MPT', 'MLS', 'MPG', 'GC'])]
        cs += [Case(k, A, E, family=family, label=label + '/empty-right') for k in ('INT', 'UNI', 'DIF', 'SYM')]
        cs += [Case(k, E, B, family=family, label=label + '/empty-left') for k in ('INT', 'UNI', 'DIF', 'SYM')]
    return cs


def gen_cases(ctx, rng, n_pairs, n_unary, n_full, n_near):
    cases = []
    R = 10
    # grid pairs, every type combination, contacts by derivation
    for i in range(n_pairs):
        k = rng.random()
        A = L.gen_geom(rng, rng.choice(['A', 'A', 'A', 'L', 'P', 'MA', 'ML', 'MP', 'GC']), rng.choice([4, 10, 10, 25]))
        if k < 0.7:
            B, lab = L.derive(rng, A, R)
        else:
            B, lab = L.gen_geom(rng, None, R), 'independent'
        cases += expand_pair(rng, A, B, 'grid', lab)
    # rectilinear shapes built from the same cells: every edge contact is collinear
    for i in range(max(1, n_pairs // 6)):
        ra = L.rects_union_input(rng, rng.randint(2, 4), 6); rb = L.rects_union_input(rng, rng.randint(1, 3), 6)
        cases.append(Case('UU', ('GC', ra), family='unary', label='rectangles'))
        cases += expand_pair(rng, ('GC', ra) if rng.random() < 0.3 else ra[0], ('GC', rb) if rng.random() < 0.3 else rb[0], 'grid', 'rectangles')
    # disjoint envelopes, one operand a GEOMETRYCOLLECTION (not a Multi*) of >= 2 overlapping / touching polygons: the
    # "combine the elements" short-cut of HeuristicOverlay for UNION / SYMDIFFERENCE must not be taken for it
    for i in range(max(4, n_pairs // 8)):
        k = rng.random()
        if k < 0.4:
            els = L.rects_union_input(rng, rng.randint(2, 4), 6); lab = 'overlapping-rectangles'
        elif k < 0.7:
            P = L.gen_poly(rng, 8, holes=False); sp = L.split_by_chord(rng, P)
            els = list(sp) if sp else [P, L.shift(P, L.M, 0)]; lab = 'touching-along-chord'
        else:
            P = L.gen_poly(rng, 8)
            els = [P, L.shift(P, L.M * rng.randint(1, 3), L.M * rng.randint(0, 2))] + ([L.gen_poly(rng, 6)] if rng.random() < 0.4 else []); lab = 'overlapping-copies'
        if rng.random() < 0.3: els.append(L.gen_atom(rng, rng.choice('LP'), 6))
        A = ('GC', els)
        B = L.gen_geom(rng, rng.choice(['A', 'A', 'L', 'P', 'MA', 'GC']), 6)
        if rng.random() < 0.25: B = ('GC', L.rects_union_input(rng, 2, 5))
        pa, pb = L.all_pts(A), L.all_pts(B)
        if not pa or not pb: continue
        # move B so that the envelopes are disjoint (a gap of at least one unit, or exactly touching envelopes for contrast)
        gap = L.M * rng.choice([1, 1, 5, 50])
        dx = max(p[0] for p in pa) - min(p[0] for p in pb) + gap
        B = L.shift(B, dx, L.M * rng.randint(-3, 3)) if rng.random() < 0.7 else L.shift(B, L.M * rng.randint(-3, 3), max(p[1] for p in pa) - min(p[1] for p in pb) + gap)
        for kk in ('INT', 'UNI', 'DIF', 'SYM'):
            cases.append(Case(kk, A, B, family='disjoint-gc', label=lab))
            cases.append(Case(kk, B, A, family='disjoint-gc', label=lab + '/swap'))
        cases.append(Case('UU', A, family='disjoint-gc', label=lab))
    # contacts on HOLE segments of a much larger operand (result envelope small: the clipping optimisation is active)
    for i in range(max(6, n_pairs // 5)):
        hc = L.hole_contact_pair(rng)
        if hc is None: continue
        A, B, lab = hc
        if rng.random() < 0.25:
            f = L.full_precision_map(rng); A, B = L.map_pts(A, f), L.map_pts(B, f); lab += '/full'
        for kk in ('INT', 'UNI', 'DIF', 'SYM'):
            cases.append(Case(kk, A, B, family='hole-contact', label=lab))
        cases.append(Case('INT', B, A, family='hole-contact', label=lab + '/swap'))
        cases.append(Case('DIF', B, A, family='hole-contact', label=lab + '/swap'))
    # long lines (> 20 vertices: limited to the clip envelope by ONE LineLimiter per overlay), several per operand, all element orders
    import itertools
    for i in range(max(3, n_pairs // 25)):
        lines, P = L.long_lines_case(rng)
        orders = list(itertools.permutations(range(len(lines))))
        rng.shuffle(orders)
        for od in orders[:3]:
            ML = ('MLS', [lines[j] for j in od])
            lab = 'multiline-vs-area'
            for kk in ('INT', 'DIF'):
                cases.append(Case(kk, ML, P, family='long-lines', label=lab))
            cases.append(Case('INT', P, ML, family='long-lines', label=lab + '/swap'))
        # one long line per operand, both orders; and a long line against a multi of the others
        a, b = lines[0], lines[1]
        for kk in ('INT', 'DIF'):
            cases.append(Case(kk, ('LS', a), ('LS', b), family='long-lines', label='line-vs-line'))
            cases.append(Case(kk, ('LS', b), ('LS', a), family='long-lines', label='line-vs-line/swap'))
        cases.append(Case('UNI', ('MLS', lines), P, family='long-lines', label='multiline-vs-area'))
        cases.append(Case('SYM', ('LS', a), P, family='long-lines', label='line-vs-area'))
    # nesting depth >= 3: donuts in donuts, every element order, as one MultiPolygon and split over the operands
    far = ('PG', [L.ring_rect(70 * L.M, 10 * L.M, 80 * L.M, 20 * L.M)])
    for i in range(max(1, n_pairs // 60)):
        D = L.nested_donuts(rng, rng.choice([3, 3, 4]))
        if len(D) < 3: continue
        perms = list(itertools.permutations(range(len(D))))
        if len(perms) > 6: rng.shuffle(perms); perms = perms[:8]
        for pm in perms:
            MP = ('MPG', [D[j] for j in pm])
            cases.append(Case('UU', MP, family='nested', label='donuts-%d' % len(D)))
            cases.append(Case('UNI', MP, far, family='nested', label='donuts-%d' % len(D)))
            cases.append(Case(rng.choice(['SYM', 'DIF', 'INT']), MP, MP if rng.random() < 0.3 else L.shift(far, -60 * L.M, -10 * L.M), family='nested', label='donuts-%d' % len(D)))
            head, last = ('MPG', [D[j] for j in pm[:-1]]), ('PG', D[pm[-1]])
            cases.append(Case('UNI', head, last, family='nested', label='donuts-split'))
            cases.append(Case('UNI', last, head, family='nested', label='donuts-split/swap'))
            cases.append(Case('SYM', ('PG', D[pm[0]]), ('MPG', [D[j] for j in pm[1:]]), family='nested', label='donuts-split'))
    # coverages whose gaps touch the outside or each other at single vertices (not ring starts; every ring rotation / direction)
    for i in range(max(8, n_pairs // 8)):
        cells = L.coverage_touching(rng)
        if len(cells) < 2: continue
        g = ('GC', [('PG', c) for c in cells]) if rng.random() < 0.5 else ('MPG', cells)
        cases.append(Case('CU', g, family='coverage-touch', label='gaps-touching-at-vertices'))
        if rng.random() < 0.3:
            cases.append(Case('UU', ('GC', [('PG', c) for c in cells]), family='coverage-touch', label='gaps-touching-at-vertices'))
    # notches / thin holes sticking out through the top or bottom of a small clip box (RingClipper emits flat caps on the box edge)
    for i in range(max(10, n_pairs // 4)):
        A, B, lab = L.clip_notch_case(rng)
        for kk in ('INT', 'DIF'):
            cases.append(Case(kk, A, B, family='clip-notch', label=lab))
            cases.append(Case(kk, B, A, family='clip-notch', label=lab + '/swap'))
        if rng.random() < 0.3:
            cases.append(Case(rng.choice(['UNI', 'SYM']), A, B, family='clip-notch', label=lab))
    # unary calls
    for i in range(n_unary):
        k = rng.random()
        if k < 0.3:
            els = L.rects_union_input(rng, rng.randint(1, 5), 8)
            lab = 'rectangles'
        elif k < 0.6:
            A = L.gen_poly(rng, 8)
            els = [A] + [L.derive(rng, A, 8)[0] for _ in range(rng.randint(1, 3))]
            els = [a for e in els for a in L.atoms(e)]
            lab = 'derived'
        else:
            els = [L.gen_atom(rng, rng.choice('AALP'), 8, cx=L.M * rng.randint(-4, 4), cy=L.M * rng.randint(-4, 4)) for _ in range(rng.randint(1, 5))]
            lab = 'mixed'
        if rng.random() < 0.1: els.append(L.EMPTY_OF[rng.choice(['PT', 'LS', 'PG'])])
        polys = [e for e in els if e[0] == 'PG']
        cases.append(Case('UU', ('GC', els), family='unary', label=lab))
        if polys:
            cases.append(Case('UC', ('MPG', [p[1] for p in polys]), family='unary', label=lab))
            cases.append(Case('UU', ('MPG', [p[1] for p in polys]), family='unary', label=lab + '/multipolygon'))
        cases.append(Case('DSU', ('GC', els), family='unary', label=lab))
        if rng.random() < 0.5:
            cells = L.coverage_grid(rng, rng.randint(1, 3), rng.randint(1, 3))
            if cells:
                cases.append(Case('CU', ('GC', [('PG', c) for c in cells]) if rng.random() < 0.5 else ('MPG', cells), family='unary', label='coverage'))
        g = L.gen_geom(rng, None, 8)
        x0, y0 = L.M * rng.randint(-8, 4), L.M * rng.randint(-8, 4)
        pts = L.all_pts(g)
        if pts and rng.random() < 0.5:
            x0, y0 = rng.choice(pts)
        cases.append(Case('CLIP', g, rect=(x0, y0, x0 + L.M * rng.randint(1, 8), y0 + L.M * rng.randint(1, 8)), family='clip', label='grid'))
    # full precision: the same constructions mapped by x -> rot(x)*s + o in binary64
    for i in range(n_full):
        A = L.gen_geom(rng, rng.choice(['A', 'A', 'A', 'L', 'MA', 'GC']), 6)
        B, lab = L.derive(rng, A, 6)
        f = L.full_precision_map(rng)
        cases += expand_pair(rng, L.map_pts(A, f), L.map_pts(B, f), 'full', lab)
        if rng.random() < 0.3:
            els = [a for a in L.atoms(A) + L.atoms(B)]
            cases.append(Case('UU', L.map_pts(('GC', els), f), family='full', label='unary'))
    # near-coincident edges (snapping rungs)
    for i in range(n_near):
        SUBNORMAL[0] = (not ctx.quick) and i % 50 == 0
        for A, B, lab in near_coincident(rng):
            cases += [Case(k, A, B, family='near', label=lab) for k in ('INT', 'UNI', 'DIF', 'SYM')]
    return cases


def near_coincident(rng):
    """pairs whose boundaries run within a few ulps of each other: B is A re-created through a different floating-point route"""
    out = []
    A = L.gen_poly(rng, 8, holes=False)
    f = L.full_precision_map(rng)
    Af = L.map_pts(A, f)
    k = rng.random()
    if k < 0.4:
        # every vertex of B moved by a few ulps
        def jig(p):
            import math
            # (an ordinate that is exactly 0 is moved by 2^-60, not by the subnormal ulp of 0: the exact checker would need
            #  1100-bit integers for one case; the thorough tier draws a few of those separately)
            return tuple(v + rng.choice([-2, -1, 0, 0, 1, 2]) * (math.ulp(v) if v != 0 else (2.0 ** -60 if not SUBNORMAL[0] else math.ulp(0.0))) for v in p)
        ring = [jig(p) for p in Af[1][0][:-1]]
        out.append((Af, ('PG', [ring + [ring[0]]]), 'ulp-jitter'))
    elif k < 0.7:
        # B = A with extra vertices inserted on its edges (rounded, so not exactly collinear)
        ring = []
        sh = Af[1][0]
        for a, b in zip(sh[:-1], sh[1:]):
            ring.append(a)
            for _ in range(rng.randint(0, 2)):
                t = rng.random()
                ring.append((a[0] + (b[0] - a[0]) * t, a[1] + (b[1] - a[1]) * t))
        out.append((Af, ('PG', [ring + [ring[0]]]), 'densified'))
    else:
        # B = A rotated by a tiny angle about one of its vertices
        import math
        c = Af[1][0][0]; th = rng.choice([1e-15, 1e-13, 1e-11, 1e-9])
        def rot(p):
            dx, dy = p[0] - c[0], p[1] - c[1]
            return (c[0] + dx * math.cos(th) - dy * math.sin(th), c[1] + dx * math.sin(th) + dy * math.cos(th))
        out.append((Af, L.map_pts(Af, rot), 'tiny-rotation'))
    return out


# ------------------------------------------------------------------ area laws (v)
def area_groups(cases):
    """pairs for which all five results exist: (A, B) -> {INT, UNI, DIF, SYM, DIF-swapped}"""
    groups = {}
    for c in cases:
        if c.call in BIN and c.R is not None and c.verdict and c.verdict.startswith('1'):
            if L.dims_present(c.A) in ([2], []) and L.dims_present(c.B) in ([2], []) and c.A[0] != 'GC' and c.B[0] != 'GC':
                groups.setdefault((L.text_hex(c.A), L.text_hex(c.B)), {})[c.call] = c
    out = []
    for (ta, tb), d in groups.items():
        sw = groups.get((tb, ta), {})
        if all(k in d for k in BIN) and 'DIF' in sw:
            out.append((d, sw['DIF']))
    return out


def check_areas(ctx, runner, cases):
    n = bad = 0
    lines, owners = [], []
    for d, e in area_groups(cases):
        A, B = d['INT'].A, d['INT'].B
        gs = [A, B, d['INT'].R, d['UNI'].R, d['DIF'].R, d['SYM'].R, e.R]
        ints, ex = L.scale_case(gs)
        tn, td, _, _ = L.tolerances(L.magnitude(ints[:2]))
        ints = L.translate_case(ints)
        lines.append('AREA %d %d %s' % (tn, td, ' '.join(L.text_int(g) for g in ints))); owners.append(d)
    outs = runner.par_lines([runner.drv], lines, timeout=600)
    for d, o, ln in zip(owners, outs, lines):
        n += 1
        ctx.count(('area', ln), True)
        if not o.startswith('1'):
            bad += 1
            c = d['INT']
            ctx.violation('area_%d' % n, dict(clause='v-areas', inputs=c.describe(), checker_line=ln, checker_output=o,
                                              results={k: L.to_wkt(d[k].R) for k in BIN},
                                              expected='area(A∪B)+area(A∩B)=area(A)+area(B), area(A−B)=area(A)−area(A∩B), area(AΔB)=area(A∪B)−area(A∩B) within 1e-9·magnitude·perimeter',
                                              replay='echo "%s" | %s' % (ln, runner.drv)),
                          msg='inclusion–exclusion fails beyond the tolerance: ' + o[:200])
    return n


# ------------------------------------------------------------------ shrinking
def shrink(ctx, runner, c, clause, budget=60):
    """delete elements / rings / vertices of the operands while the same clause keeps failing"""
    def variants(g):
        t, d = g
        if t in ('MPT', 'MLS', 'MPG', 'GC') and len(d) > 1:
            for i in range(len(d)): yield (t, d[:i] + d[i + 1:])
        if t == 'GC':
            for i, h in enumerate(d):
                for hv in variants(h): yield (t, d[:i] + [hv] + d[i + 1:])
        if t == 'PG' and len(d) > 1:
            for i in range(1, len(d)): yield (t, d[:i] + d[i + 1:])
        if t == 'PG' and d and len(d[0]) > 4:
            for i in range(1, len(d[0]) - 1): yield (t, [d[0][:i] + d[0][i + 1:]] + d[1:])
        if t == 'LS' and len(d) > 2:
            for i in range(len(d)): yield (t, d[:i] + d[i + 1:])
        if t == 'MPG':
            for i, p in enumerate(d):
                for pv in variants(('PG', p)): yield (t, d[:i] + [pv[1]] + d[i + 1:])

    def fails(cand):
        runner.run([cand], stats=False)
        r = classify(cand, runner)
        return r is not None and r[0] == 'fail' and r[1] == clause
    cur = c
    try:
        progress = True
        while progress and budget > 0:
            progress = False
            for which in ('A', 'B'):
                g = getattr(cur, which)
                if g is None: continue
                for v in variants(g):
                    if budget <= 0: break
                    budget -= 1
                    cand = Case(cur.call, v if which == 'A' else cur.A, cur.B if which == 'A' else v, cur.rect, cur.family, cur.label)
                    if fails(cand):
                        cur = cand; progress = True; break
                if progress: break
    except Exception:
        pass
    return cur


# ------------------------------------------------------------------ clipping optimisation: RingClipper::clip / computeDepthDelta vs the model
def clip_ring_cases(rng):
    """(family, box, ring) on integer coordinates.  'exact' families only use segments whose slope is 0, infinite or +-2^k, so that
    every intersection ordinate is computed exactly in binary64 and must equal the rational model bit for bit; 'general' rings
    are compared within 1e-9 after collapsing near-duplicates (rounding can split / merge two coincident intersection points)."""
    def rbox():
        x0 = 2 * rng.randint(-4, 1); y0 = 2 * rng.randint(-4, 1)
        return (x0, x0 + 2 * rng.randint(1, 5), y0, y0 + 2 * rng.randint(1, 5))
    def walk(start, n, lim, on=None):
        """closed walk with axis-parallel / 45 degree / slope 2, 1/2 steps; `on` = ordinates to hit often (box lines)"""
        pts = [start]; x, y = start
        for _ in range(n):
            k = 2 * rng.randint(1, 4)
            dx, dy = rng.choice([(k, 0), (-k, 0), (0, k), (0, -k), (k, k), (k, -k), (-k, k), (-k, -k), (k, 2 * k), (-2 * k, k), (2 * k, -k), (-k, -2 * k)])
            if on and rng.random() < 0.4:
                # land exactly on a box line with an axis-parallel step
                if rng.random() < 0.5: dx, dy = rng.choice(on[0]) - x, 0
                else: dx, dy = 0, rng.choice(on[1]) - y
            nx, ny = max(-lim, min(lim, x + dx)), max(-lim, min(lim, y + dy))
            if (nx - x, ny - y) != (dx, dy):
                nx, ny = (nx, y) if rng.random() < 0.5 else (x, ny)       # clamped: keep it axis-parallel
            if (nx, ny) != (x, y) or rng.random() < 0.05:                 # (a few repeated points on purpose)
                pts.append((nx, ny)); x, y = nx, ny
        # close with axis-parallel steps
        if x != start[0]: pts.append((start[0], y))
        if pts[-1] != start: pts.append(start)
        return pts
    out = []
    for i in range(40):
        b = rbox(); x0, x1, y0, y1 = b
        out.append(('walk', b, walk((2 * rng.randint(-7, 7), 2 * rng.randint(-7, 7)), rng.randint(3, 14), 16)))
        out.append(('on-line', b, walk((rng.choice([x0, x1, x0 + 2]), rng.choice([y0, y1, y1 - 2])), rng.randint(3, 12), 16, on=([x0, x1], [y0, y1]))))
    for i in range(12):
        b = rbox(); x0, x1, y0, y1 = b
        # entirely inside (strictly), entirely outside, touching a corner from outside, containing the box
        out.append(('inside', b, [(x0 + 1, y0 + 1), (x0 + 1, y1 - 1), (x1 - 1, y1 - 1), (x1 - 1, y0 + 1), (x0 + 1, y0 + 1)][::rng.choice([1, -1])]))
        out.append(('outside', b, [(x1 + 2, y0), (x1 + 6, y0), (x1 + 6, y1 + 4), (x1 + 2, y1 + 4), (x1 + 2, y0)]))
        cx, cy = rng.choice([(x0, y0), (x0, y1), (x1, y0), (x1, y1)])
        sx, sy = (-1 if cx == x0 else 1), (-1 if cy == y0 else 1)
        out.append(('corner-touch', b, [(cx, cy), (cx + 4 * sx, cy), (cx + 4 * sx, cy + 4 * sy), (cx, cy + 4 * sy), (cx, cy)][::rng.choice([1, -1])]))
        out.append(('corner-diagonal', b, [(cx - 4 * sx, cy + 4 * sy), (cx + 4 * sx, cy - 4 * sy), (cx + 4 * sx, cy + 4 * sy), (cx - 4 * sx, cy + 4 * sy)][::rng.choice([1, -1])]))
        out.append(('contains-box', b, [(x0 - 2, y0 - 2), (x0 - 2, y1 + 2), (x1 + 2, y1 + 2), (x1 + 2, y0 - 2), (x0 - 2, y0 - 2)][::rng.choice([1, -1])]))
        # excursions from an inner square through one, two (corner) and three edges
        mx, my = (x0 + x1) // 2, (y0 + y1) // 2
        base = [(mx, my)]
        ex1 = [(mx, my), (x1 + 4, my), (x1 + 4, my + 1), (mx, my + 1), (mx, my)]
        ex2 = [(mx, my), (x1 + 4, my), (x1 + 4, y1 + 4), (mx, y1 + 4), (mx, my)]
        ex3 = [(mx, my), (x1 + 4, my), (x1 + 4, y1 + 4), (x0 - 4, y1 + 4), (x0 - 4, my), (mx, my)]
        for nm, r in (('excursion-1', ex1), ('excursion-2', ex2), ('excursion-3', ex3)):
            k = rng.randrange(len(r) - 1); rr = r[:-1][k:] + r[:-1][:k]; rr.append(rr[0])
            out.append((nm, b, rr[::rng.choice([1, -1])]))
    for i in range(16):
        # notch through the top (or bottom) edge of the box, subdivided sides, every start vertex / direction (the wave-7 shape)
        w = 2 * rng.randint(4, 6); h = 2 * rng.randint(4, 6); a = 2 * rng.randint(1, 2); c = a + 2 * rng.randint(1, 2); top = h - rng.choice([1, 2])
        side = lambda x, ys: [(x, y) for y in ys]
        up = list(range(0, h + 1, 2)); dn = up[::-1]
        nu = [y for y in range(0, top, 2)] + [top]
        r = side(0, up) + side(w, dn) + side(c, nu) + side(a, nu[::-1])
        if rng.random() < 0.5: r = [(x, h - y) for x, y in r]
        k = rng.randrange(len(r)); r = r[k:] + r[:k]; r.append(r[0])
        if rng.random() < 0.5: r.reverse()
        yb = rng.randint(0, h // 2 - 1)
        out.append(('notch', (-1, w + 1, yb, yb + rng.randint(1, max(1, top - yb - 1))), r))
    for i in range(30):
        b = rbox() if rng.random() < 0.5 else (2 * rng.randint(-4, 0) - 1, 2 * rng.randint(1, 4) + 1, 2 * rng.randint(-4, 0) - 1, 2 * rng.randint(1, 4) + 1)
        n = rng.randint(3, 9)
        r = [(rng.randint(-12, 12), rng.randint(-12, 12)) for _ in range(n)]; r.append(r[0])
        out.append(('general', b, r))
    return out


def clip_stream(ctx, rng):
    """R-tie of C03/ClipDefs.clip (hand-written loop around the generated isInsideEdge / intersection) and of the generated
    computeDepthDelta: real library vs extracted model, vertex for vertex"""
    t0 = time.time()
    drv = ctx.ocaml_driver('C03clip')
    hexe = os.path.join(BUILD, 'bin', 'c03_clip')
    if not drv or not ctx.cxx(os.path.join(ROOT, 'harness/c03_clip.cpp'), hexe, 'rel'):
        return
    cases = clip_ring_cases(rng)
    lines = ['CLIP %d %d %d %d %d %s' % (b + (len(r), ' '.join('%d %d' % p for p in r))) for _, b, r in cases]
    impl = ctx.run_lines([hexe], lines, timeout=120)
    model = ctx.run_lines([drv], lines, timeout=300)
    fam = {}; nbad = 0; changed = 0
    def frs(toks): return [Fraction(t) for t in toks]
    for (f, b, r), ln, io, mo in zip(cases, lines, impl, model):
        ok = io.startswith('OK ') and mo.startswith('OK ')
        if ok:
            it, mt = io.split()[2:], mo.split()[2:]
            iv = [Fraction(float(t)) for t in it]; mv = frs(mt)
            if f == 'general':
                def collapse(v):
                    pts = list(zip(v[0::2], v[1::2])); o = []
                    for p_ in pts:
                        if not o or max(abs(p_[0] - o[-1][0]), abs(p_[1] - o[-1][1])) > Fraction(1, 10 ** 9): o.append(p_)
                    while len(o) > 1 and max(abs(o[-1][0] - o[0][0]), abs(o[-1][1] - o[0][1])) <= Fraction(1, 10 ** 9): o.pop()
                    return o
                ci, cm = collapse(iv), collapse(mv)
                ok = len(ci) == len(cm) and all(max(abs(p_[0] - q_[0]), abs(p_[1] - q_[1])) <= Fraction(1, 10 ** 9) for p_, q_ in zip(ci, cm))
            else:
                ok = iv == mv
            if ok and mv != [Fraction(v) for p_ in r for v in p_]: changed += 1
        d = fam.setdefault(f, [0, 0]); d[0] += 1
        ctx.count(('clip', ln), True)
        if not ok:
            d[1] += 1; nbad += 1
            if nbad <= 3:
                ctx.violation('clip_%d' % nbad, dict(clause='clip-correspondence', family=f, box=b, ring=r, implementation_output=io, model_output=mo,
                                                     expected='RingClipper::clip = C03/ClipDefs.clip (extracted) vertex for vertex' + (' within 1e-9 after collapsing near-duplicates' if f == 'general' else ', exactly'),
                                                     replay='echo "%s" | %s ; echo "%s" | %s' % (ln, hexe, ln, drv)),
                              msg='RingClipper::clip differs from the model (%s): impl %s | model %s' % (f, io[:160], mo[:160]))
    # depth delta: the real computeDepthDelta on a ring vs the generated table applied to the real Orientation::isCCW of THAT ring
    dl = []
    for f, b, r in cases:
        if len(r) >= 4 and r[0] == r[-1]:
            dl.append('DD %d %d %s' % (rng.randint(0, 1), len(r), ' '.join('%d %d' % p for p in r)))
    dl = dl[:120]
    dimpl = ctx.run_lines([hexe], dl, timeout=120)
    ml = ['DD %s %s' % (l.split()[1], o.split()[2]) if o.startswith('OK ') else '?' for l, o in zip(dl, dimpl)]
    dmod = ctx.run_lines([drv], ml, timeout=120)
    seen = set(); dbad = 0
    for l, o, m_ in zip(dl, dimpl, dmod):
        ctx.count(('depthdelta', l), True)
        if o.startswith('OK '): seen.add((l.split()[1], o.split()[2]))
        if not (o.startswith('OK ') and m_.startswith('OK ') and o.split()[1] == m_.split()[1]):
            dbad += 1
            if dbad <= 2:
                ctx.violation('depthdelta_%d' % dbad, dict(clause='depth-delta-table', line=l, implementation_output=o, model_output=m_,
                                                           expected='computeDepthDelta(ring, isHole) = table(isHole, Orientation::isCCW(ring))',
                                                           replay='echo "%s" | %s' % (l, hexe)), msg='computeDepthDelta differs from the generated table: %s vs %s' % (o, m_))
    ctx.notes['clip_stream'] = dict(families={k: v[0] for k, v in fam.items()}, mismatches={k: v[1] for k, v in fam.items() if v[1]}, rings_changed_by_clipping=changed,
                                    depth_delta_cases=len(dl), depth_delta_table_rows_seen=sorted(seen), seconds=round(time.time() - t0, 1))
    for k in ('walk', 'on-line', 'inside', 'outside', 'corner-touch', 'corner-diagonal', 'contains-box', 'excursion-1', 'excursion-2', 'excursion-3', 'notch', 'general'):
        if fam.get(k, [0])[0] == 0:
            ctx.broken.append(dict(kind='generator', name='clip-stream', detail='no clip case of family ' + k))
    if len(seen) < 4:
        ctx.broken.append(dict(kind='generator', name='clip-stream', detail='depth delta table rows seen: %s' % sorted(seen)))
    ctx.log('clip stream: %d rings (%d changed by clipping), %d mismatches; depth delta %d cases, %d mismatches (%.1fs)' % (len(cases), changed, nbad, len(dl), dbad, time.time() - t0))


# ------------------------------------------------------------------ the check
def run(ctx):
    ctx.cov['rule'] = ('one evaluation = one overlay call on valid inputs whose result went through the extracted checker; non-trivial = both '
                       'operands non-empty with intersecting envelopes (binary calls), at least two non-empty elements (unary calls), rectangle '
                       'meeting the envelope (ClipByRect); distinct by call + operand bit patterns.  Witness statistics (side witnesses, '
                       'how many pass the distance filter, low witnesses in the Boolean combination) are measured on every 6th case')
    ctx.assumptions += [
        'exact scaling of each case (inputs and result are binary64 = dyadic rationals) to integers is done by this Python module (Fractions)',
        'the witness family is finite: that it meets every face of the arrangement of A, B and R is not proved (overlay_check_sound_partial); '
        'noding, labelling, ring building and the snapping / snap-rounding fallbacks are not modelled, only their results are checked',
        'clause (ii) is read with the planar boundary of the inputs (rings, lines, points): two-sided only in open faces; on lower-dimension parts '
        'the result must contain the Boolean combination within the tolerance (ii\') and consist of input linework (iii)',
        'GEOSClipByRect_r is documented as not guaranteed to return valid results: only the membership clauses are applied to it',
        'validity of generated inputs is decided by Lib/ValidDefs on the scaled integers; inputs it rejects are not evaluated']
    t0 = time.time()
    ok_build = ctx.build_repo('rel')
    ctx.translate(UNITS + CLIP_UNITS)
    ok_coq, ax = ctx.coq_build('Properties_C03')
    if ok_build and not ctx.replay:
        clip_stream(ctx, random.Random(ctx.seed * 7919 + 13))
    drv = ctx.ocaml_driver('C03')
    hexe = os.path.join(BUILD, 'bin', 'c03')
    if not ok_build or not drv or not ctx.cxx(os.path.join(ROOT, 'harness/c03.cpp'), hexe, 'rel'):
        return
    runner = Runner(ctx, hexe, drv)
    if ctx.replay:
        return replay(ctx, runner)
    rng = random.Random(ctx.seed)
    if ctx.quick:
        n_pairs, n_unary, n_full, n_near = 100, 30, 16, 6
    else:
        n_pairs, n_unary, n_full, n_near = 1000, 300, 160, 80
    cases = corpus_cases() + gen_cases(ctx, rng, n_pairs, n_unary, n_full, n_near)
    ctx.log('generated %d cases' % len(cases))
    runner.run(cases, stats=6)
    ctx.log('implementation and checker ran (%.0fs)' % (time.time() - t0))
    dist = {'family': {}, 'call': {}, 'label': {}, 'types': {}, 'skipped': {}, 'result_dims': {}, 'clauses_failed': {}}
    nviol = 0
    known_seen = {}
    wstats = {}
    for i, c in enumerate(cases):
        r = classify(c, runner)
        if r and r[0] == 'skip':
            dist['skipped'][r[1][:60]] = dist['skipped'].get(r[1][:60], 0) + 1
            continue
        for k, v in (('family', c.family), ('call', c.call), ('label', c.label.split('/')[0]),
                     ('types', c.A[0] + ('x' + c.B[0] if c.B is not None else ''))):
            dist[k][v] = dist[k].get(v, 0) + 1
        if c.R is not None:
            dk = ''.join(map(str, L.dims_present(c.R))) or 'empty'
            dist['result_dims'][dk] = dist['result_dims'].get(dk, 0) + 1
        ctx.count((c.call, c.harness_line()), nontrivial(c))
        if c.stats:
            for k, v in zip(('cases', 'side_witnesses', 'side_far', 'low_witnesses', 'low_expected'), [1] + c.stats):
                wstats[k] = wstats.get(k, 0) + v
        if r is None:
            continue
        _, clause, text = r
        dist['clauses_failed'][clause] = dist['clauses_failed'].get(clause, 0) + 1
        keys = known_key(c, clause, text)
        kf = ctx.known_match(lambda k: k.get('key', {}).get('class') in keys) if keys else None
        if kf:
            known_seen.setdefault(kf['id'], (kf, c, text))
            continue
        if nviol >= 6:
            continue
        nviol += 1
        sc = shrink(ctx, runner, c, clause) if clause not in ('harness', 'checker') else c
        report(ctx, runner, sc, clause, text, 'case_%d' % i, original=c)
    for kid, (kf, c, text) in known_seen.items():
        ctx.known_hit(kf, '%s [%s] e.g. %s' % (kf['what'][:200], kid, json.dumps(c.describe())[:400]))
    n_area = check_areas(ctx, runner, cases)
    rungs(ctx, runner, cases, dist)
    ctx.cov['traces_validated_against_impl'] = ctx.cov['evaluations']
    dist['area_law_groups'] = n_area
    dist['witness_statistics_sample'] = wstats
    ctx.notes['distribution'] = dist
    for c in cases[:4]:
        ctx.sample(json.dumps(c.describe())[:400])
    # self-check of the generator: the case split of the specification must have been exercised
    need = {'call': ['INT', 'UNI', 'DIF', 'SYM', 'UU', 'UC', 'DSU', 'CU', 'CLIP'], 'family': ['grid', 'full', 'near', 'unary', 'clip', 'disjoint-gc', 'hole-contact', 'long-lines', 'nested', 'coverage-touch']}
    for k, vs in need.items():
        for v in vs:
            if dist[k].get(v, 0) == 0:
                ctx.broken.append(dict(kind='generator', name='distribution', detail='no evaluated case with %s = %s' % (k, v)))
    if n_area == 0:
        ctx.broken.append(dict(kind='generator', name='distribution', detail='no polygon pair with all five results for the area laws'))
    if ctx.cov['distinct_nontrivial'] == 0:
        ctx.broken.append(dict(kind='generator', name='distribution', detail='no non-trivial case'))
    ctx.log('distribution: %s' % json.dumps({k: dist[k] for k in ('family', 'call', 'clauses_failed', 'skipped')}))


def report(ctx, runner, c, clause, text, name, original=None):
    op, A, B, mode = c.spec_inputs()
    obj = dict(clause=clause, why=text, inputs=c.describe(), implementation_output=(L.to_wkt(c.R) if c.R is not None else c.out),
               expected='OverlaySpec (coq/theories/C03/OverlayDefs.v): valid result; membership = Boolean combination at every witness farther than 1e-9·magnitude from the inputs; '
                        'lower-dimension parts on the inputs; documented result type',
               harness_line=c.harness_line(), replay='echo "%s" | %s' % (c.harness_line(), runner.hexe),
               rerun='cd /verif && ./check C03 --replay <this file>')
    if c.ints and c.ints[2] is not None:
        Ai, Bi, Ri, e = c.ints
        obj['checker_line'] = 'CHK %ss %d %d %d %d %d %s %s %s' % ((mode, op) + c.par + (L.text_int(Ai), L.text_int(Bi), L.text_int(Ri)))
        obj['scale'] = 'ordinate = integer * 2^-%d' % e
    if original is not None and original is not c:
        obj['unshrunk'] = original.describe()
    ctx.violation(name, obj, msg='%s: %s %s' % (clause, c.call, text[:200]))


def rungs(ctx, runner, cases, dist):
    """evidence only: which rung of OverlayNGRobust's ladder answers, on the near-coincident family"""
    sel = [c for c in cases if c.family in ('near', 'full') and c.call in BIN][: (400 if ctx.quick else 4000)]
    outs = runner.par_lines([runner.hexe], ['RUNG %d | %s | %s' % (BIN[c.call][0], L.text_hex(c.A), L.text_hex(c.B)) for c in sel], timeout=300)
    d = {}
    for o in outs:
        d[o.strip()] = d.get(o.strip(), 0) + 1
    dist['ladder_rung'] = d


def corpus_cases():
    p = os.path.join(ROOT, 'gen/corpus/C03.txt')
    out = []
    if os.path.exists(p):
        for l in open(p):
            l = l.strip()
            if not l or l.startswith('#'): continue
            c = case_of_line(l)
            if c: c.family = 'corpus'; out.append(c)
    return out


def case_of_line(l):
    parts = [x.strip() for x in l.split('|')]
    head = parts[0].split()
    gs = [L.parse_tokens(x.split())[0] for x in parts[1:]]
    if head[0] == 'CLIP':
        return Case('CLIP', gs[0], rect=tuple(L.unhex(v) for v in head[1:5]))
    if head[0] in UNA:
        return Case(head[0], gs[0])
    if head[0] in BIN and len(gs) == 2:
        return Case(head[0], gs[0], gs[1])
    return None


def replay(ctx, runner):
    obj = json.load(open(ctx.replay))
    line = obj.get('harness_line')
    if not line:
        ctx.log('replay file has no harness_line'); return
    c = case_of_line(line)
    runner.run([c])
    r = classify(c, runner)
    ctx.count(('replay', line), True)
    ctx.log('replay: %s -> %s' % (line[:200], r))
    if r and r[0] == 'fail':
        keys = known_key(c, r[1], r[2])
        kf = ctx.known_match(lambda k: k.get('key', {}).get('class') in keys) if keys else None
        if kf: ctx.known_hit(kf)
        else: report(ctx, runner, c, r[1], r[2], 'replay')
