"""Shared glue of the C03 / C04 checks: geometry values, exact scaling of binary64 cases to integers, the token format of the
harness (ordinates as bit patterns) and of the extracted checkers (integers), seeded generators of valid inputs.

Geometry value: ('PT', None|(x,y)) ('LS', pts) ('PG', rings) ('MPT', [None|pt]) ('MLS', [pts]) ('MPG', [rings...]) ('GC', [geom]).
Ordinates are Python ints (grid cases) or floats (full precision); a float is a dyadic rational and is never printed in decimal.
"""
import math, struct
from fractions import Fraction
from gen import geoms as GG

EMPTY_OF = {'PT': ('PT', None), 'LS': ('LS', []), 'PG': ('PG', []), 'MPT': ('MPT', []), 'MLS': ('MLS', []), 'MPG': ('MPG', []), 'GC': ('GC', [])}


# ------------------------------------------------------------------ traversal
def map_pts(g, f):
    t, d = g
    if t == 'PT': return (t, None if d is None else f(d))
    if t == 'LS': return (t, [f(p) for p in d])
    if t == 'PG': return (t, [[f(p) for p in r] for r in d])
    if t == 'MPT': return (t, [None if p is None else f(p) for p in d])
    if t == 'MLS': return (t, [[f(p) for p in l] for l in d])
    if t == 'MPG': return (t, [[[f(p) for p in r] for r in pg] for pg in d])
    if t == 'GC': return (t, [map_pts(h, f) for h in d])
    raise ValueError(t)


def all_pts(g):
    out = []
    map_pts(g, lambda p: (out.append(p), p)[1])
    return out


def atoms(g):
    """non-collection elements, recursively"""
    t, d = g
    if t in ('PT', 'LS', 'PG'): return [g]
    if t == 'MPT': return [('PT', p) for p in d]
    if t == 'MLS': return [('LS', l) for l in d]
    if t == 'MPG': return [('PG', p) for p in d]
    return [a for h in d for a in atoms(h)]


def is_empty(g):
    t, d = g
    if t == 'PT': return d is None
    if t in ('LS', 'PG'): return not d
    return all(is_empty(a) for a in atoms(g))


def dim_of_type(g):
    """Geometry::getDimension"""
    t, d = g
    if t in ('PT', 'MPT'): return 0
    if t in ('LS', 'MLS'): return 1
    if t in ('PG', 'MPG'): return 2
    return max([dim_of_type(h) for h in d], default=-1)


def dims_present(g):
    return sorted({dim_of_type(a) for a in atoms(g) if not is_empty(a)})


def n_vertices(g):
    return len(all_pts(g))


def is_mixed_dimension(g):
    """Geometry::isMixedDimension (declared dimensions of all atoms, empty ones included)"""
    return len({dim_of_type(a) for a in atoms(g)}) > 1


def handled_by_overlayng(g):
    """HeuristicOverlay.cpp::isHandledByOverlayNG"""
    if is_mixed_dimension(g) and not is_empty(g): return False
    if g[0] == 'GC' and dim_of_type(g) == 2: return False
    return True


# ------------------------------------------------------------------ tokens
def hexd(v):
    return 'x%016x' % struct.unpack('<Q', struct.pack('<d', float(v)))[0]


def unhex(s):
    if s[0] == 'x': return struct.unpack('<d', struct.pack('<Q', int(s[1:], 16)))[0]
    return int(s)


def tok_seq(s, f):
    return [str(len(s))] + [f(v) for p in s for v in p]


def tokens(g, f=str):
    t, d = g
    if t == 'PT': return ['PT'] + (['E'] if d is None else [f(d[0]), f(d[1])])
    if t == 'LS': return ['LS'] + tok_seq(d, f)
    if t == 'PG': return ['PG', str(len(d))] + [x for r in d for x in tok_seq(r, f)]
    if t == 'MPT': return ['MPT', str(len(d))] + [x for p in d for x in (['E'] if p is None else [f(p[0]), f(p[1])])]
    if t == 'MLS': return ['MLS', str(len(d))] + [x for l in d for x in tok_seq(l, f)]
    if t == 'MPG': return ['MPG', str(len(d))] + [x for p in d for x in [str(len(p))] + [y for r in p for y in tok_seq(r, f)]]
    if t == 'GC': return ['GC', str(len(d))] + [x for h in d for x in tokens(h, f)]
    raise ValueError(t)


def text_hex(g):
    return ' '.join(tokens(g, hexd))


def text_int(g):
    return ' '.join(tokens(g, str))


def parse_tokens(toks, i=0, conv=unhex):
    def seq(i):
        n = int(toks[i]); i += 1
        pts = [(conv(toks[i + 2 * k]), conv(toks[i + 2 * k + 1])) for k in range(n)]
        return pts, i + 2 * n

    def optpt(i):
        if toks[i] == 'E': return None, i + 1
        return (conv(toks[i]), conv(toks[i + 1])), i + 2

    def poly(i):
        k = int(toks[i]); i += 1; rings = []
        for _ in range(k):
            r, i = seq(i); rings.append(r)
        return rings, i
    t = toks[i]; i += 1
    if t == 'PT':
        p, i = optpt(i); return ('PT', p), i
    if t in ('LS', 'LR'):
        s, i = seq(i); return ('LS', s), i
    if t == 'PG':
        r, i = poly(i); return ('PG', r), i
    m = int(toks[i]); i += 1; out = []
    for _ in range(m):
        if t == 'MPT': e, i = optpt(i)
        elif t == 'MLS': e, i = seq(i)
        elif t == 'MPG': e, i = poly(i)
        elif t == 'GC': e, i = parse_tokens(toks, i, conv)
        else: raise ValueError(t)
        out.append(e)
    return (t, out), i


def to_wkt(g):
    """for humans (replay files); decimal repr is exact for the doubles shown (17 significant digits)"""
    def f(v):
        return str(v) if isinstance(v, int) else repr(float(v))
    def seq(s): return '(' + ', '.join('%s %s' % (f(x), f(y)) for x, y in s) + ')'
    t, d = g
    if t == 'PT': return 'POINT EMPTY' if d is None else 'POINT (%s %s)' % (f(d[0]), f(d[1]))
    if t == 'LS': return 'LINESTRING EMPTY' if not d else 'LINESTRING ' + seq(d)
    if t == 'PG': return 'POLYGON EMPTY' if not d else 'POLYGON (' + ', '.join(seq(r) for r in d) + ')'
    if t == 'MPT': return 'MULTIPOINT EMPTY' if not d else 'MULTIPOINT (' + ', '.join('EMPTY' if p is None else '(%s %s)' % (f(p[0]), f(p[1])) for p in d) + ')'
    if t == 'MLS': return 'MULTILINESTRING EMPTY' if not d else 'MULTILINESTRING (' + ', '.join('EMPTY' if not l else seq(l) for l in d) + ')'
    if t == 'MPG': return 'MULTIPOLYGON EMPTY' if not d else 'MULTIPOLYGON (' + ', '.join('EMPTY' if not p else '(' + ', '.join(seq(r) for r in p) + ')' for p in d) + ')'
    return 'GEOMETRYCOLLECTION EMPTY' if not d else 'GEOMETRYCOLLECTION (' + ', '.join(to_wkt(h) for h in d) + ')'


# ------------------------------------------------------------------ exact scaling
def scale_case(gs):
    """gs: geometries with int / float ordinates. Returns (integer geometries, e) with ordinate = integer * 2^-e, exactly."""
    den = 1
    for g in gs:
        for p in all_pts(g):
            for v in p:
                if not isinstance(v, int):
                    if math.isnan(v) or math.isinf(v):
                        raise ValueError('non-finite ordinate')
                    d = Fraction(v).denominator
                    if d > den: den = d
    e = den.bit_length() - 1
    def f(p):
        return tuple(v * den if isinstance(v, int) else int(Fraction(v) * den) for v in p)
    return [map_pts(g, f) for g in gs], e


def translate_case(gs):
    """move the minimum corner of all the integer geometries to the origin (exact; membership, validity, distances are
    translation invariant: Lib/Locate.v, Lib/Valid.v): keeps the integers of cases at large offsets small"""
    pts = [p for g in gs for p in all_pts(g)]
    if not pts: return gs
    mx = min(p[0] for p in pts); my = min(p[1] for p in pts)
    return [map_pts(g, lambda p: (p[0] - mx, p[1] - my)) for g in gs]


def magnitude(gs):
    m = 0
    for g in gs:
        for p in all_pts(g):
            for v in p:
                if abs(v) > m: m = abs(v)
    return m


def tolerances(mag_int, rel_num=1, rel_den=10 ** 9, eps_lo=2):
    """tol = mag * rel (as tn/td), eps = en/ed the power of two with eps_lo*tol <= eps < 2*eps_lo*tol (1 / 2^20 when tol = 0)"""
    tol = Fraction(mag_int * rel_num, rel_den)
    tn, td = tol.numerator, tol.denominator
    if tol == 0:
        return 0, 1, 1, 2 ** 20
    target = tol * eps_lo
    k = 0
    while Fraction(2) ** k < target: k += 1
    while Fraction(2) ** (k - 1) >= target: k -= 1
    eps = Fraction(2) ** k
    return tn, td, eps.numerator, eps.denominator


# ------------------------------------------------------------------ generators (integer grid; every ordinate a multiple of M so that midpoints stay on the grid)
M = 2


def ring_rect(x0, y0, x1, y1):
    return [(x0, y0), (x1, y0), (x1, y1), (x0, y1), (x0, y0)]


def shift(g, dx, dy):
    return map_pts(g, lambda p: (p[0] + dx, p[1] + dy))


def gen_shell(rng, R, cx=0, cy=0):
    k = rng.random()
    if k < 0.3:
        return ring_rect(cx, cy, cx + M * rng.randint(1, R), cy + M * rng.randint(1, R))
    if k < 0.65:
        r = GG.convex_ring(rng, rng.randint(3, 8), max(2, R // 2), 0, 0)
    else:
        r = GG.star_ring(rng, rng.randint(4, 9), R, 0, 0)
    return [(cx + M * x, cy + M * y) for x, y in r]


def orient(a, b, c):
    return (b[0] - a[0]) * (c[1] - a[1]) - (b[1] - a[1]) * (c[0] - a[0])


def segs_meet(a, b, c, d):
    """closed segments ab, cd share a point (integer coordinates, exact)"""
    o1, o2, o3, o4 = orient(a, b, c), orient(a, b, d), orient(c, d, a), orient(c, d, b)
    if ((o1 > 0) != (o2 > 0)) and o1 and o2 and ((o3 > 0) != (o4 > 0)) and o3 and o4: return True
    def on(p, q, r): return orient(p, q, r) == 0 and min(p[0], q[0]) <= r[0] <= max(p[0], q[0]) and min(p[1], q[1]) <= r[1] <= max(p[1], q[1])
    return on(a, b, c) or on(a, b, d) or on(c, d, a) or on(c, d, b)


def strictly_inside(p, ring):
    """even-odd, exact; False on the boundary"""
    n = len(ring) - 1; inside = False
    for i in range(n):
        a, b = ring[i], ring[i + 1]
        if orient(a, b, p) == 0 and min(a[0], b[0]) <= p[0] <= max(a[0], b[0]) and min(a[1], b[1]) <= p[1] <= max(a[1], b[1]): return False
        if (a[1] > p[1]) != (b[1] > p[1]):
            # x of the crossing > p.x  <=>  sign test without division
            t = (b[0] - a[0]) * (p[1] - a[1]) - (p[0] - a[0]) * (b[1] - a[1])
            if (t > 0) == (b[1] > a[1]): inside = not inside
    return inside


def hole_fits(shell, hole, touch=None):
    """every vertex of the hole strictly inside the shell (except the allowed touching vertex) and no edge contact elsewhere"""
    for v in hole[:-1]:
        if v != touch and not strictly_inside(v, shell): return False
    for i in range(len(hole) - 1):
        for j in range(len(shell) - 1):
            if touch is not None and (touch in (hole[i], hole[i + 1])) and (touch in (shell[j], shell[j + 1])): continue
            if segs_meet(hole[i], hole[i + 1], shell[j], shell[j + 1]): return False
    return orient(hole[0], hole[1], hole[2]) != 0


def gen_poly(rng, R=10, cx=0, cy=0, holes=True):
    shell = gen_shell(rng, R, cx, cy)
    rings = [shell]
    if holes and rng.random() < 0.4:
        xs = [p[0] for p in shell]; ys = [p[1] for p in shell]
        for _ in range(4):
            mx, my = rng.randrange(min(xs), max(xs) + 1) // M * M, rng.randrange(min(ys), max(ys) + 1) // M * M
            k = rng.random(); touch = None
            if k < 0.5: h = ring_rect(mx, my, mx + M, my + M)[::-1]
            elif k < 0.8: h = [(mx, my), (mx + M, my + M), (mx + M, my - M), (mx, my)]
            else: touch = shell[rng.randrange(len(shell) - 1)]; h = [touch, (mx, my), (mx + M, my), touch]      # hole touching the shell at a vertex
            if hole_fits(shell, h, touch):
                rings.append(h); break
    return ('PG', rings)


def gen_line(rng, R=10, cx=0, cy=0, pool=None):
    n = rng.randint(2, 6)
    pts = []
    for _ in range(n):
        if pool and rng.random() < 0.5: pts.append(rng.choice(pool))
        elif pts and rng.random() < 0.08: pts.append(pts[-1])
        else: pts.append((cx + M * rng.randint(-R, R), cy + M * rng.randint(-R, R)))
    if len(set(pts)) < 2: pts.append((pts[0][0] + M, pts[0][1]))       # a line with one distinct point is not valid
    if rng.random() < 0.1: pts.append(pts[0])
    return ('LS', pts)


def gen_point(rng, R=10, cx=0, cy=0, pool=None):
    if pool and rng.random() < 0.6:
        p = rng.choice(pool)
        if rng.random() < 0.4:
            q = rng.choice(pool); p = ((p[0] + q[0]) // 2, (p[1] + q[1]) // 2)
        return ('PT', p)
    return ('PT', (cx + M * rng.randint(-R, R), cy + M * rng.randint(-R, R)))


def gen_atom(rng, kind, R=10, cx=0, cy=0, pool=None):
    if kind == 'A': return gen_poly(rng, R, cx, cy)
    if kind == 'L': return gen_line(rng, R, cx, cy, pool)
    return gen_point(rng, R, cx, cy, pool)


def gen_geom(rng, kind=None, R=10, pool=None):
    """kind: A L P (single), MA ML MP (multi), GC (mixed collection)"""
    kind = kind or rng.choice(['A', 'A', 'A', 'L', 'L', 'P', 'MA', 'ML', 'MP', 'GC'])
    if kind in 'ALP':
        g = gen_atom(rng, kind, R, pool=pool)
        if rng.random() < 0.03: g = EMPTY_OF[g[0]]
        return g
    if kind == 'MA':
        n = rng.randint(1, 3)
        return ('MPG', [gen_poly(rng, max(3, R // 2), cx=i * (2 * M * R + M * rng.randint(0, 2)), cy=M * rng.randint(-2, 2))[1] for i in range(n)])
    if kind == 'ML':
        return ('MLS', [gen_line(rng, R, pool=pool)[1] for _ in range(rng.randint(1, 3))] + ([[]] if rng.random() < 0.1 else []))
    if kind == 'MP':
        return ('MPT', [gen_point(rng, R, pool=pool)[1] for _ in range(rng.randint(1, 4))] + ([None] if rng.random() < 0.1 else []))
    n = rng.randint(1, 4)
    els = [gen_atom(rng, rng.choice('ALP'), max(3, R // 2), cx=M * rng.randint(-R, R), cy=M * rng.randint(-R, R), pool=pool) for _ in range(n)]
    if rng.random() < 0.15: els.append(EMPTY_OF[rng.choice(['PT', 'LS', 'PG'])])
    if rng.random() < 0.15: els = [('GC', els[:1])] + els[1:]
    return ('GC', els)


def split_by_chord(rng, poly):
    """a polygon without holes cut along the chord between two non-adjacent vertices: the halves share the chord exactly"""
    sh = poly[1][0][:-1]
    n = len(sh)
    if n < 4: return None
    i = rng.randrange(n); j = (i + rng.randint(2, n - 2)) % n
    i, j = min(i, j), max(i, j)
    a = sh[i:j + 1]; b = sh[j:] + sh[:i + 1]
    return ('PG', [a + [a[0]]]), ('PG', [b + [b[0]]])


def derive(rng, A, R=10):
    """B built from A so that the contact is degenerate; returns (B, label)"""
    pts = [p for p in all_pts(A)]
    polys = [a for a in atoms(A) if a[0] == 'PG' and a[1]]
    k = rng.random()
    if not pts:
        return gen_geom(rng, None, R), 'other-empty'
    if k < 0.08: return A, 'identical'
    if k < 0.14 and polys:
        p = rng.choice(polys)
        rr = [r[::-1] if rng.random() < 0.5 else r[:-1][1:] + r[:-1][:1] + [r[1]] for r in p[1]]
        return ('PG', rr), 'same-set-other-vertex-order'
    if k < 0.26:
        d = rng.choice([(M, 0), (0, M), (M, M), (-M, M), (2 * M, 0), (M * R, 0), (0, -M * R)])
        return shift(A, d[0], d[1]), 'translated'
    if k < 0.34 and polys:
        sh = rng.choice(polys)[1][0]
        xs = [p[0] for p in sh]; ys = [p[1] for p in sh]
        return ('PG', [ring_rect(min(xs), min(ys), max(xs), max(ys))]), 'envelope'
    if k < 0.42 and polys:
        sh = rng.choice(polys)[1][0]
        return ('LS', list(sh) if rng.random() < 0.5 else list(sh[:rng.randint(2, len(sh))])), 'ring-as-line'
    if k < 0.5 and polys:
        sh = rng.choice(polys)[1][0]
        i = rng.randrange(len(sh) - 1)
        a, b = sh[i], sh[i + 1]
        mid = ((a[0] + b[0]) // 2, (a[1] + b[1]) // 2)
        out = (mid[0] + M * rng.randint(-R, R), mid[1] + M * rng.randint(-R, R))
        return ('PG', [[mid, b, out, mid]]) if rng.random() < 0.5 else ('LS', [a, mid, out]), 'vertex-on-edge'
    if k < 0.58:
        v = rng.choice(pts)
        return gen_poly(rng, R, v[0], v[1], holes=False), 'corner-at-vertex'
    if k < 0.64 and polys and len(rng.choice(polys)[1]) > 1:
        p = [q for q in polys if len(q[1]) > 1][0]
        return ('PG', [p[1][1][::-1]]), 'fills-hole'
    if k < 0.72:
        return gen_geom(rng, rng.choice(['L', 'ML', 'P', 'MP']), R, pool=pts), 'reuses-vertices'
    if k < 0.78 and polys:
        sp = split_by_chord(rng, ('PG', [rng.choice(polys)[1][0]]))
        if sp: return sp[rng.randrange(2)], 'half-by-chord'
    if k < 0.84:
        return gen_geom(rng, 'GC', R, pool=pts), 'collection-reusing-vertices'
    return gen_geom(rng, None, R, pool=pts if rng.random() < 0.5 else None), 'independent'


def rects_union_input(rng, n, R):
    """n random grid rectangles (a GEOMETRYCOLLECTION of overlapping valid polygons)"""
    out = []
    for _ in range(n):
        x0, y0 = M * rng.randint(0, R), M * rng.randint(0, R)
        out.append(('PG', [ring_rect(x0, y0, x0 + M * rng.randint(1, R // 2 + 1), y0 + M * rng.randint(1, R // 2 + 1))]))
    return out


def coverage_grid(rng, nx, ny):
    """a valid polygonal coverage: the cells of an irregular nx x ny grid, some cut along a diagonal, some merged away"""
    xs = sorted(rng.sample(range(0, 40, M), nx + 1)); ys = sorted(rng.sample(range(0, 40, M), ny + 1))
    cells = []
    for i in range(nx):
        for j in range(ny):
            if rng.random() < 0.1: continue
            x0, x1, y0, y1 = xs[i], xs[i + 1], ys[j], ys[j + 1]
            if rng.random() < 0.3:
                cells.append([[(x0, y0), (x1, y0), (x1, y1), (x0, y0)]]); cells.append([[(x0, y0), (x1, y1), (x0, y1), (x0, y0)]])
            else:
                cells.append([ring_rect(x0, y0, x1, y1)])
    return cells


def full_precision_map(rng):
    """x -> x*s + o evaluated in binary64 (correctly rounded operations): the image needs all 53 mantissa bits"""
    s = rng.choice([1e-3, 0.1, 1.0, 7.3, 1e3, 1e6, 1 / 3.0]) * (1 + rng.random() * rng.choice([0, 1e-9, 0.3]))
    ox = rng.choice([0.0, 0.0, 1e3, 1e6, 1e9, -5e5]) * (1 + rng.random() * 1e-3)
    oy = rng.choice([0.0, 0.0, 1e3, 1e6, 1e9, -5e5]) * (1 + rng.random() * 1e-3)
    th = rng.choice([0.0, 0.0, rng.random() * 6.28])
    c, sn = math.cos(th), math.sin(th)
    return lambda p: ((p[0] * c - p[1] * sn) * s + ox, (p[0] * sn + p[1] * c) * s + oy)


def hole_contact_pair(rng):
    """A = a large polygon with 1-2 holes whose edges are integer multiples of primitive lattice vectors with slopes that are not
    dyadic (so that cutting them anywhere but at a lattice point gives a non-representable vertex); B = a much smaller polygon,
    line or point whose vertices lie exactly ON one hole segment (or, for contrast, on a shell segment), lying in the hole, in
    the material of A, or across the edge.  The result envelope of A op B is a small part of A: OverlayNG's clipping is active."""
    import math
    def prim():
        while True:
            a, b = rng.randint(1, 9), rng.randint(1, 9)
            if math.gcd(a, b) == 1 and a != b and (a & (a - 1)) != 0: return (a, b)
    S = 60 * M
    shell = ring_rect(0, 0, S, S)
    holes = []
    # first hole: triangle p, p + k u, p + m v  (u, v primitive, different directions)
    for attempt in range(20):
        u, v = prim(), prim()
        v = (-v[0], v[1]) if rng.random() < 0.5 else (v[1], v[0])
        if u[0] * v[1] - u[1] * v[0] == 0: continue
        k, m = rng.randint(3, 6), rng.randint(3, 6)
        p = (M * rng.randint(4, 12), M * rng.randint(4, 12))
        q = (p[0] + k * u[0] * M, p[1] + k * u[1] * M); r = (p[0] + m * v[0] * M, p[1] + m * v[1] * M)
        h = [p, q, r, p]
        if all(0 < x < S and 0 < y < S for x, y in h) and hole_fits(shell, h):
            holes.append((h, p, u, k)); break
    if not holes: return None
    if rng.random() < 0.4:
        h2 = ring_rect(S - 10 * M, S - 10 * M, S - 6 * M, S - 7 * M)
        if hole_fits(shell, h2) and not any(segs_meet(h2[i], h2[i + 1], holes[0][0][j], holes[0][0][j + 1]) for i in range(4) for j in range(3)):
            if rng.random() < 0.5: holes.append((h2, None, None, None))
            else: holes.insert(0, (h2, None, None, None))          # the contact hole is then not the first one
    A = ('PG', [shell] + [h[0] for h in holes])
    h, p, u, k = [x for x in holes if x[1] is not None][0]
    on_shell = rng.random() < 0.15
    if on_shell:
        p, u, k = (0, 10 * M), (0, 1), 20          # shell edge x = 0 traversed downwards in ring order: use lattice points on it
    i = rng.randint(0, k - 1); j = rng.randint(i + 1, k)
    c1 = (p[0] + i * u[0] * M, p[1] + i * u[1] * M); c2 = (p[0] + j * u[0] * M, p[1] + j * u[1] * M)
    # a third point off the edge, on either side, close by
    n = (-u[1], u[0]) if rng.random() < 0.5 else (u[1], -u[0])
    t = rng.randint(1, 3)
    c3 = ((c1[0] + c2[0]) // 2 + n[0] * t * M, (c1[1] + c2[1]) // 2 + n[1] * t * M)
    kind = rng.random()
    if kind < 0.55: B = ('PG', [[c1, c2, c3, c1]]); lab = 'triangle-on-hole-edge'
    elif kind < 0.7:
        c4 = ((c1[0] + c2[0]) // 2 - n[0] * t * M, (c1[1] + c2[1]) // 2 - n[1] * t * M)
        B = ('PG', [[c1, c3, c2, c4, c1]]); lab = 'kite-across-hole-edge'
    elif kind < 0.85: B = ('LS', [c3, c1, c2] if rng.random() < 0.5 else [c1, c2]); lab = 'line-along-hole-edge'
    else: B = ('MPT', [c1, c3]); lab = 'points-on-hole-edge'
    if on_shell: lab = lab.replace('hole', 'shell')
    return A, B, lab


def long_line(rng, n, direction, start, step, jitter=0):
    """a polyline with n vertices running in `direction` ((1,0), (0,1), (1,1), ...) from `start` in steps of `step` units"""
    pts = []
    x, y = start
    for i in range(n):
        j = M * rng.randint(-jitter, jitter) if jitter else 0
        pts.append((x + (j if direction[0] == 0 else 0), y + (j if direction[1] == 0 else 0)))
        x += direction[0] * step; y += direction[1] * step
    return pts


def long_lines_case(rng):
    """several lines with MORE THAN 20 vertices (OverlayNG limits such lines to the clip envelope with one LineLimiter) against a
    small area or another long line: the lines start / end inside and far outside the other operand's envelope; returns
    (list of long lines, small polygon)"""
    s = M * rng.randint(3, 6)                       # half size of the small polygon
    P = ('PG', [ring_rect(-s, -s, s, s)]) if rng.random() < 0.6 else ('PG', [[(-s, -s), (s, -s // 2 // M * M), (s // 2 // M * M, s), (-s, s // 2 // M * M), (-s, -s)]])
    lines = []
    for k in range(rng.randint(2, 3)):
        n = rng.randint(21, 34)
        d = rng.choice([(1, 0), (0, 1), (1, 0), (0, 1), (1, 1), (-1, 0), (0, -1)])
        step = M * rng.randint(1, 2)
        across = M * rng.randint(-2, 2)                 # offset of the line from the centre, across its direction
        # where along the line the polygon sits: the line starts far before it, inside it, or ends inside / far beyond it
        lead = rng.choice([n // 2, n // 2, 1, n - 3, n // 3]) * step
        if d == (1, 0): st = (-lead, across)
        elif d == (-1, 0): st = (lead, across)
        elif d == (0, 1): st = (across, -lead)
        elif d == (0, -1): st = (across, lead)
        else: st = (-lead + across, -lead)
        lines.append(long_line(rng, n, d, st, step, jitter=rng.choice([0, 0, 1])))
    return lines, P


def nested_donuts(rng, depth=3):
    """donut inside the hole of a donut inside ... (`depth` levels, none touching), outermost first"""
    out = []
    a = M * rng.randint(20, 26)
    cx, cy = M * rng.randint(-2, 2), M * rng.randint(-2, 2)
    for k in range(depth):
        w = M * rng.randint(1, 2)                      # ring thickness
        b = a - w
        shell = ring_rect(cx - a, cy - a, cx + a, cy + a); hole = ring_rect(cx - b, cy - b, cx + b, cy + b)[::-1]
        if rng.random() < 0.3:                         # an octagonal shell instead of a square one
            c = M
            shell = [(cx - a + c, cy - a), (cx + a - c, cy - a), (cx + a, cy - a + c), (cx + a, cy + a - c), (cx + a - c, cy + a), (cx - a + c, cy + a),
                     (cx - a, cy + a - c), (cx - a, cy - a + c), (cx - a + c, cy - a)]
        out.append([shell, hole])
        a = b - M * rng.randint(1, 2)
        if a - 2 * M <= M: break
    return out


def coverage_touching(rng):
    """a valid polygonal coverage (cells of an irregular grid, every grid node a vertex of every cell around it) with removed cells
    chosen so that gaps touch the outer boundary or each other at SINGLE vertices; every cell ring starts at a random vertex and
    runs in a random direction, so the touching vertices are interior vertices of the boundary chains"""
    nx, ny = rng.randint(3, 5), rng.randint(3, 5)
    xs = sorted(rng.sample(range(0, 60, M), nx + 1)); ys = sorted(rng.sample(range(0, 60, M), ny + 1))
    removed = set()
    for _ in range(rng.randint(1, 2)):
        i, j = rng.randint(0, nx - 1), rng.randint(0, ny - 1)
        removed.add((i, j))
        di, dj = rng.choice([(1, 1), (1, -1), (-1, 1), (-1, -1)])
        if 0 <= i + di < nx and 0 <= j + dj < ny and rng.random() < 0.8:
            removed.add((i + di, j + dj))           # diagonal neighbour: the two gaps share exactly one vertex
    cells = []
    for i in range(nx):
        for j in range(ny):
            if (i, j) in removed: continue
            x0, x1, y0, y1 = xs[i], xs[i + 1], ys[j], ys[j + 1]
            ring = [(x0, y0), (x1, y0), (x1, y1), (x0, y1)]
            if rng.random() < 0.2:                   # split the cell along a diagonal (still node-matched)
                parts = [[(x0, y0), (x1, y0), (x1, y1)], [(x0, y0), (x1, y1), (x0, y1)]]
            else: parts = [ring]
            for r in parts:
                k = rng.randrange(len(r)); r = r[k:] + r[:k]
                if rng.random() < 0.5: r = r[::-1]
                cells.append([r + [r[0]]])
    rng.shuffle(cells)
    return cells


def clip_notch_case(rng):
    """(A, B, label): A = a tall rectilinear polygon with notches cut in from the bottom and / or the top (and optionally a tall hole),
    every vertical side subdivided into short segments, ring written from a random start in a random direction; B = a wide,
    short rectangle (extra collinear vertices on its sides) crossing A at a height where some notch sticks out through B's top
    or bottom edge.  With the result envelope this small the ring clipper of OverlayNG is active and emits rings with flat
    caps lying on the clip box: the orientation / depth of the clipped ring must still be that of the original ring."""
    W = rng.choice([10, 14, 20]); H = rng.choice([10, 16, 30]); step = rng.choice([1, 2, 2, 3])
    xs = sorted(rng.sample(range(1, W), min(W - 1, rng.choice([2, 4, 4, 6]))))
    nb = [(xs[i], xs[i + 1], rng.randint(2, H - 1)) for i in range(0, len(xs) - 1, 2) if rng.random() < 0.8]     # notches from the bottom: x0, x1, tip height
    nt = [(a, b, rng.randint(1, H - 2)) for a, b, _ in nb if rng.random() < 0.0]
    if rng.random() < 0.4:
        xt = sorted(rng.sample(range(1, W), 2)); nt = [(xt[0], xt[1], rng.randint(1, H - 2))]                      # one notch from the top, tip height
        nb = [n for n in nb if n[1] <= xt[0] or n[0] >= xt[1] or n[2] < nt[0][2]]
    ring = [(0, 0)]
    for a, b, h in nb:
        ring += [(a, 0), (a, h), (b, h), (b, 0)]
    ring += [(W, 0), (W, H)]
    for a, b, h in reversed(nt):
        ring += [(b, H), (b, h), (a, h), (a, H)]
    ring += [(0, H), (0, 0)]
    def dens(r):
        out = [r[0]]
        for p, q in zip(r, r[1:]):
            if p[0] == q[0] and abs(q[1] - p[1]) > step:
                s = 1 if q[1] > p[1] else -1
                out += [(p[0], y) for y in range(p[1] + s * step, q[1], s * step)]
            out.append(q)
        return out
    shell = dens(ring)
    rings = [shell]
    if rng.random() < 0.3 and not nt:
        free = [x for x in range(1, W - 1) if all(not (a - 1 <= x <= b) for a, b, _ in nb)]
        if free:
            x = rng.choice(free)
            if all(not (a - 1 <= x + 1 <= b + 1) for a, b, _ in nb):
                hole = dens([(x, 1), (x, H - 1), (x + 1, H - 1), (x + 1, 1), (x, 1)])      # tall thin hole: behaves like a notch for the clipper
                rings.append(hole)
    def respell(r):
        body = r[:-1]; k = rng.randrange(len(body)); body = body[k:] + body[:k]
        if rng.random() < 0.5: body = body[::-1]
        return body + [body[0]]
    rings = [respell(r) for r in rings]
    cands = [('b', h) for _, _, h in nb if h >= 2] + [('t', h) for _, _, h in nt if h <= H - 2]
    kind, t = rng.choice(cands) if cands else ('b', H // 2)
    if kind == 'b':          # bottom notch with tip at height t: B's top edge strictly below the tip, the notch pokes out through B's TOP
        y1 = rng.randint(1, t - 1); y0 = max(-1, y1 - rng.randint(1, 3))
    else:                    # top notch reaching down to t: B's bottom edge strictly above the tip, the notch pokes out through B's BOTTOM
        y0 = rng.randint(t + 1, H - 1); y1 = min(H + 1, y0 + rng.randint(1, 3))
    x0, x1 = (-1, W + 1) if rng.random() < 0.7 else (rng.randint(-1, 2), W + 1)
    b = [(x0, y0), (rng.randint(x0 + 1, x1 - 1), y0), (x1, y0), (x1, y1), (x0, y1), (x0, y0)]
    if rng.random() < 0.5: b = b[::-1]
    sc = lambda r: [(M * p[0], M * p[1]) for p in r]
    A = ('PG', [sc(r) for r in rings]); B = ('PG', [sc(b)])
    return A, B, 'notch-through-clip-box/b%d-t%d-h%d' % (len(nb), len(nt), len(rings) - 1)
