"""C01 — relate matrix and named predicates equal the exact DE-9IM on grid inputs.

proof:  coq/theories/C01/{ArrangementDefs,OracleDefs}.v (executable specification: arrangement of the two geometries, finite
        witness family, entry = maximum witness dimension per pair of locations), C01/{ArrangementProofs,OracleProofs}.v,
        Properties_C01.v (entries are maxima over witnesses; EE = 2; relate(B,A) = transpose; fast evaluation = specification;
        every named predicate run through the GENERATED RelateNG protocol on the oracle's events = its pattern set on the
        oracle's matrix); C01/{IMGen,Pred,PredSound}.v (lead: generated units = pattern sets, early exits sound).
tie:    the oracle is extracted to OCaml and run beside GEOSRelate_r, GEOSRelateBoundaryNodeRule_r (4 rules),
        GEOSPreparedRelate_r, the 10 named predicates + containsProperly (plain and prepared), GEOSRelatePattern_r /
        GEOSPreparedRelatePattern_r on pairs of grid geometries whose validity is decided by the extracted Lib/ValidDefs;
        the oracle is also run against the expected matrices of the repository's relate XML corpus.
"""
import math, os, random, re, threading
from vlib.core import ROOT, BUILD, REPO, NPROC
from gen import geoms as G

NAMES = ['intersects', 'disjoint', 'touches', 'crosses', 'within', 'contains', 'overlaps', 'equals', 'covers', 'coveredBy', 'containsProperly']
RULES = ['mod2', 'endpoint', 'multivalent', 'monovalent']
LIMIT = 2 ** 25


# ------------------------------------------------------------------ geometry values (gen/geoms.py tuples, integer coordinates)
def tok_seq(s):
    return [str(len(s))] + [str(v) for p in s for v in p]


def tokens(g):
    t, d = g
    if t == 'Point':
        return ['PT'] + (['E'] if d is None else [str(d[0]), str(d[1])])
    if t == 'LineString':
        return ['LS'] + tok_seq(d)
    if t == 'LinearRing':
        return ['LR'] + tok_seq(d)
    if t == 'Polygon':
        return ['PG', str(len(d))] + [x for r in d for x in tok_seq(r)]
    if t == 'MultiPoint':
        return ['MPT', str(len(d))] + [x for p in d for x in (['E'] if p[1] is None else [str(p[1][0]), str(p[1][1])])]
    if t == 'MultiLineString':
        return ['MLS', str(len(d))] + [x for l in d for x in tok_seq(l[1])]
    if t == 'MultiPolygon':
        return ['MPG', str(len(d))] + [x for p in d for x in [str(len(p[1]))] + [y for r in p[1] for y in tok_seq(r)]]
    if t == 'GeometryCollection':
        return ['GC', str(len(d))] + [x for h in d for x in tokens(h)]
    raise ValueError(t)


def gtext(g):
    return ' '.join(tokens(g))


def to_wkt(g):
    if g[0] == 'LinearRing':
        return 'LINEARRING EMPTY' if not g[1] else 'LINEARRING (%s)' % G.pts_txt(g[1])
    if g[0] == 'GeometryCollection':
        return 'GEOMETRYCOLLECTION EMPTY' if not g[1] else 'GEOMETRYCOLLECTION (%s)' % ', '.join(to_wkt(x) for x in g[1])
    return G.to_wkt(g)


def map_coords(g, f):
    if g[0] == 'LinearRing':
        return (g[0], [f(p) for p in g[1]])
    if g[0] == 'GeometryCollection':
        return (g[0], [map_coords(x, f) for x in g[1]])
    return G.map_coords(g, f)


def all_points(g):
    if g[0] == 'LinearRing':
        return list(g[1])
    if g[0] == 'GeometryCollection':
        return [p for x in g[1] for p in all_points(x)]
    return G.all_points(g)


def in_bounds(g):
    return all(isinstance(v, int) and abs(v) <= LIMIT for p in all_points(g) for v in p)


def scaled_wkt(g, s):
    """the grid geometry with every ordinate multiplied by 2^-s (exact in binary64)"""
    if s == 0:
        return to_wkt(g)
    f = 2.0 ** (-s)
    return to_wkt(map_coords(g, lambda p: (p[0] * f, p[1] * f)))


def mul(g, k):
    return map_coords(g, lambda p: (p[0] * k, p[1] * k))


def shift(g, dx, dy):
    return map_coords(g, lambda p: (p[0] + dx, p[1] + dy))


def size(g):
    return len(all_points(g))


# ------------------------------------------------------------------ generators
def ring_of(poly, i=0):
    return poly[1][i]


def polys_in(g):
    return [a for a in G.atoms(g) if a[0] == 'Polygon' and a[1]]


def lines_in(g):
    return [a for a in G.atoms(g) if a[0] == 'LineString' and a[1]]


def midpt(p, q):
    return ((p[0] + q[0]) // 2, (p[1] + q[1]) // 2)


def third(p, q, k=1):
    return (p[0] + (q[0] - p[0]) * k // 3, p[1] + (q[1] - p[1]) * k // 3)


def edge_points(pts):
    """vertices, edge midpoints and thirds of a coordinate sequence (coordinates are multiples of 6: all lattice points)"""
    out = list(pts)
    for a, b in zip(pts, pts[1:]):
        out += [midpt(a, b), third(a, b, 1), third(a, b, 2)]
    return out


def derive(rng, A, R):
    """B built from A so that the contact is degenerate"""
    pts = all_points(A)
    if not pts:
        return ('base', mul(G.gen_geom(rng, R), 6))
    polys, lines = polys_in(A), lines_in(A)
    cands = ['vertex', 'vertices', 'midpoint', 'translate', 'reflect', 'same', 'lines_on_points', 'zero_len', 'interior_pt', 'mixed']
    if polys:
        cands += ['boundary', 'boundary_part', 'subpoly', 'redundant_vertex', 'chord', 'edge_line', 'envelope', 'hole_as_poly', 'collinear_sub', 'boundary', 'subpoly', 'chord']
    if lines:
        cands += ['subline', 'reverse', 'collinear_sub', 'extend', 'redundant_vertex']
    k = rng.choice(cands)
    ep = []
    for a in polys:
        for r in a[1]:
            ep += edge_points(r)
    for l in lines:
        ep += edge_points(l[1])
    ep = ep or pts
    if k == 'vertex':
        return (k, ('Point', rng.choice(pts)))
    if k == 'vertices':
        n = rng.randint(1, min(6, len(pts)))
        sel = rng.sample(pts, n) if rng.random() < 0.7 else pts[:12]
        return (k, ('MultiPoint', [('Point', p) for p in sel]))
    if k == 'midpoint':
        return (k, ('Point', rng.choice(ep)))
    if k == 'translate':
        d = rng.choice([(6, 0), (0, 6), (-6, -6), (3, 0), (0, -2), (1, 1), (6 * R, 0), (12, 6), (2, 0)])
        if polys and rng.random() < 0.5:
            sh = ring_of(rng.choice(polys))
            i = rng.randrange(len(sh) - 1); j = rng.randrange(len(sh) - 1)
            d = (sh[i][0] - sh[j][0], sh[i][1] - sh[j][1])         # one vertex lands on another
        return (k, shift(A, d[0], d[1]))
    if k == 'reflect':
        xs = [p[0] for p in pts]; ys = [p[1] for p in pts]
        c = rng.choice([min(xs), max(xs), (min(xs) + max(xs)) // 2])
        if rng.random() < 0.5:
            return (k, map_coords_rev(A, lambda p: (2 * c - p[0], p[1])))
        c = rng.choice([min(ys), max(ys), (min(ys) + max(ys)) // 2])
        return (k, map_coords_rev(A, lambda p: (p[0], 2 * c - p[1])))
    if k == 'same':
        return (k, A)
    if k == 'lines_on_points':
        n = rng.randint(2, 4)
        return (k, ('LineString', [rng.choice(ep) for _ in range(n)]))
    if k == 'zero_len':
        p = rng.choice(ep)
        return (k, ('LineString', [p] * rng.randint(2, 3)))
    if k == 'interior_pt':
        p, q = rng.choice(pts), rng.choice(pts)
        return (k, ('Point', midpt(p, q)))
    if k == 'mixed':
        els = [('Point', rng.choice(ep)), ('LineString', [rng.choice(ep), rng.choice(ep)])]
        els = [e for e in els if e[0] != 'LineString' or e[1][0] != e[1][1]]
        far = max(abs(v) for p in pts for v in p) + 60
        if rng.random() < 0.5:
            els.append(shift(mul(G.gen_polygon(rng, max(2, R // 2)), 6), far, far))
        rng.shuffle(els)
        return (k, ('GeometryCollection', els))
    if k == 'boundary':
        a = rng.choice(polys)
        if len(a[1]) == 1:
            return (k, ('LineString', list(a[1][0])))
        return (k, ('MultiLineString', [('LineString', list(r)) for r in a[1]]))
    if k == 'boundary_part':
        r = rng.choice(rng.choice(polys)[1])
        i = rng.randrange(len(r) - 1); n = rng.randint(1, len(r) - 1)
        seq = [(r[:-1] * 2)[i + j] for j in range(n + 1)]
        if rng.random() < 0.4:
            seq[0] = midpt(seq[0], seq[1])
        if rng.random() < 0.4 and len(seq) > 2:
            seq[-1] = third(seq[-2], seq[-1], 1)
        if rng.random() < 0.3:
            seq = seq[::-1]
        return (k, ('LineString', seq))
    if k == 'subpoly':
        sh = ring_of(rng.choice(polys))[:-1]
        cand = edge_points(sh + [sh[0]])
        n = rng.randint(3, min(6, len(cand)))
        if rng.random() < 0.6:
            idx = sorted(rng.sample(range(len(sh)), min(len(sh), rng.randint(3, max(3, len(sh))))))
            sel = [sh[i] for i in idx]
        else:
            sel = rng.sample(cand, n)
            cx = sum(p[0] for p in sel) / n; cy = sum(p[1] for p in sel) / n
            sel.sort(key=lambda p: math.atan2(p[1] - cy, p[0] - cx))
        return (k, ('Polygon', [sel + [sel[0]]]))
    if k == 'redundant_vertex':
        def ins(seq):
            i = rng.randrange(len(seq) - 1)
            m = rng.choice([midpt(seq[i], seq[i + 1]), third(seq[i], seq[i + 1], 1)])
            return seq[:i + 1] + [m] + seq[i + 1:]
        def go(g):
            if g[0] == 'LineString' and len(g[1]) >= 2:
                return (g[0], ins(g[1]))
            if g[0] == 'Polygon' and g[1]:
                j = rng.randrange(len(g[1]))
                return (g[0], [ins(r) if i == j else r for i, r in enumerate(g[1])])
            if g[0] in ('MultiLineString', 'MultiPolygon', 'GeometryCollection'):
                return (g[0], [go(x) for x in g[1]])
            return g
        return (k, go(A))
    if k == 'chord':
        sh = ring_of(rng.choice(polys))[:-1]
        if len(sh) >= 4:
            i = rng.randrange(len(sh)); j = (i + rng.randint(2, len(sh) - 2)) % len(sh)
            i, j = min(i, j), max(i, j)
            p1 = sh[i:j + 1] + [sh[i]]
            p2 = sh[j:] + sh[:i + 1] + [sh[j]]
            c = rng.random()
            if c < 0.4:
                return (k, ('Polygon', [p1]))
            if c < 0.6:
                return (k, ('LineString', [sh[i], sh[j]]))
            if c < 0.8:
                return (k, ('MultiPolygon', [('Polygon', [p1]), ('Polygon', [p2])]))
            return (k, ('Polygon', [p2]))
        return (k, ('Polygon', [sh + [sh[0]]]))
    if k == 'edge_line':
        r = rng.choice(rng.choice(polys)[1])
        i = rng.randrange(len(r) - 1)
        a, b = r[i], r[i + 1]
        c = rng.random()
        if c < 0.3:
            return (k, ('LineString', [a, b]))
        if c < 0.6:
            return (k, ('LineString', [third(a, b, 1), third(a, b, 2)]))
        if c < 0.8:
            return (k, ('LineString', [(2 * a[0] - b[0], 2 * a[1] - b[1]), (2 * b[0] - a[0], 2 * b[1] - a[1])]))
        return (k, ('LineString', [midpt(a, b), (midpt(a, b)[0] + (b[1] - a[1]), midpt(a, b)[1] - (b[0] - a[0]))]))
    if k == 'envelope':
        sh = ring_of(rng.choice(polys))
        xs = [p[0] for p in sh]; ys = [p[1] for p in sh]
        return (k, ('Polygon', [G.rect_ring(min(xs), min(ys), max(xs), max(ys))]))
    if k == 'hole_as_poly':
        hs = [r for a in polys for r in a[1][1:]]
        if hs:
            return (k, ('Polygon', [list(rng.choice(hs))[::-1]]))
        return (k, ('Polygon', [list(ring_of(polys[0]))]))
    if k == 'collinear_sub':
        seqs = [r for a in polys for r in a[1]] + [l[1] for l in lines]
        s = rng.choice(seqs)
        i = rng.randrange(len(s) - 1)
        a, b = s[i], s[i + 1]
        return (k, ('LineString', rng.choice([[a, midpt(a, b)], [third(a, b, 1), b], [third(a, b, 1), third(a, b, 2)], [midpt(a, b), b, (2 * b[0] - a[0], 2 * b[1] - a[1])]])))
    if k == 'subline':
        l = rng.choice(lines)[1]
        i = rng.randrange(len(l)); j = rng.randrange(len(l))
        i, j = min(i, j), max(i, j)
        seq = l[i:j + 1]
        if len(seq) < 2:
            seq = l[:2]
        return (k, ('LineString', seq))
    if k == 'reverse':
        return (k, map_coords_rev(A, lambda p: p))
    if k == 'extend':
        l = rng.choice(lines)[1]
        a, b = l[-2], l[-1]
        return (k, ('LineString', [b, (2 * b[0] - a[0], 2 * b[1] - a[1])]))
    return ('base', mul(G.gen_geom(rng, R), 6))


def map_coords_rev(g, f):
    """map coordinates and reverse every sequence (keeps rings closed; orientation flips)"""
    t, d = g
    if t == 'Point':
        return (t, None if d is None else f(d))
    if t in ('LineString', 'LinearRing'):
        return (t, [f(p) for p in d][::-1])
    if t == 'Polygon':
        return (t, [[f(p) for p in r][::-1] for r in d])
    return (t, [map_coords_rev(x, f) for x in d])


def special_pairs(rng):
    """constructed configurations (coordinates multiples of 6)"""
    u = 6 * rng.choice([1, 1, 2, 5])
    k = rng.choice(['hole_on_edge', 'hole_on_vertex', 'two_holes', 'shared_edge', 'mp_touch', 'empties', 'zero_len', 'line_cross_vertex',
                    'three_edges', 'gc_cover', 'ring_line', 'hole_on_edge', 'hole_on_edge', 'typed_empty', 'gc_point_outside', 'closed_open_lines', 'line_touch_line',
                    'rect_around', 'rect_around', 'rect_around', 'gc_line_ends', 'gc_line_ends', 'closed_fold', 'closed_fold', 'closed_fold', 'closed_fold', 'closed_fold', 'closed_fold', 'closed_fold'])
    S = lambda pts: [(x * u, y * u) for x, y in pts]
    if k == 'hole_on_edge':          # F21: a hole touching the interior of a shell edge
        A = ('Polygon', [S([(0, 0), (4, 0), (4, 4), (0, 4), (0, 0)]), S([(2, 0), (3, 1), (1, 1), (2, 0)])])
        c = rng.random()
        if c < 0.25:
            A = ('MultiPolygon', [('Polygon', [S([(0, 0), (4, 0), (4, 4), (0, 4), (0, 0)])]), ('Polygon', [S([(2, 0), (3, -1), (1, -1), (2, 0)])])])
        elif c < 0.4:
            A = ('GeometryCollection', [A])
        elif c < 0.5:
            A = ('GeometryCollection', [A, ('Point', S([(9, 9)])[0])])
        B = rng.choice([('LineString', S([(0, 0), (4, 0)])), ('LineString', S([(1, 0), (3, 0)])), ('LineString', S([(2, 0), (4, 0)])),
                        ('Polygon', [S([(0, 0), (4, 0), (4, -2), (0, -2), (0, 0)])]), ('Point', S([(2, 0)])[0]),
                        ('LineString', S([(2, -1), (2, 0), (2, 1)])), ('Polygon', [S([(2, 0), (3, 1), (1, 1), (2, 0)])]),
                        ('LineString', S([(0, 0), (2, 0), (1, 1)])), ('Polygon', [S([(0, 0), (2, 0), (0, 2), (0, 0)])])])
    elif k == 'hole_on_vertex':
        A = ('Polygon', [S([(0, 0), (4, 0), (4, 4), (0, 4), (0, 0)]), S([(0, 0), (2, 1), (1, 2), (0, 0)])])
        B = rng.choice([('LineString', S([(0, 0), (4, 4)])), ('Point', (0, 0)), ('LineString', S([(-1, -1), (0, 0), (1, 1)])),
                        ('Polygon', [S([(0, 0), (2, 1), (1, 2), (0, 0)])]), ('LineString', S([(0, 0), (2, 1)])), ('LineString', S([(0, 4), (0, 0), (4, 0)]))])
    elif k == 'two_holes':
        A = ('Polygon', [S([(0, 0), (8, 0), (8, 8), (0, 8), (0, 0)]), S([(1, 1), (4, 4), (1, 4), (1, 1)]), S([(4, 4), (7, 5), (7, 7), (4, 4)])])
        B = rng.choice([('Point', S([(4, 4)])[0]), ('LineString', S([(3, 5), (5, 3)])), ('LineString', S([(1, 1), (4, 4), (7, 7)])), ('Polygon', [S([(3, 3), (5, 3), (5, 5), (3, 5), (3, 3)])]),
                        ('LineString', S([(1, 4), (4, 4), (7, 5)])), ('MultiPoint', [('Point', S([(4, 4)])[0]), ('Point', S([(2, 3)])[0])])])
    elif k == 'shared_edge':
        A = ('Polygon', [S([(0, 0), (4, 0), (4, 4), (0, 4), (0, 0)])])
        B = rng.choice([('Polygon', [S([(4, 0), (8, 0), (8, 4), (4, 4), (4, 0)])]), ('Polygon', [S([(4, 1), (8, 0), (8, 4), (4, 3), (4, 1)])]),
                        ('Polygon', [S([(4, -1), (8, 0), (8, 4), (4, 5), (4, -1)])]), ('Polygon', [S([(0, 0), (4, 0), (4, 4), (0, 0)])]),
                        ('Polygon', [S([(1, 0), (3, 0), (2, 2), (1, 0)])]), ('Polygon', [S([(0, 0), (4, 0), (4, 4), (0, 4), (0, 0)]), S([(1, 1), (1, 2), (2, 1), (1, 1)])]),
                        ('MultiPolygon', [('Polygon', [S([(4, 0), (8, 0), (8, 4), (4, 4), (4, 0)])]), ('Polygon', [S([(0, 4), (4, 4), (4, 8), (0, 8), (0, 4)])])])])
    elif k == 'mp_touch':
        A = ('MultiPolygon', [('Polygon', [S([(0, 0), (2, 0), (2, 2), (0, 2), (0, 0)])]), ('Polygon', [S([(2, 2), (4, 2), (4, 4), (2, 4), (2, 2)])])])
        B = rng.choice([('LineString', S([(0, 4), (4, 0)])), ('LineString', S([(0, 0), (4, 4)])), ('Point', S([(2, 2)])[0]), ('Polygon', [S([(1, 1), (3, 1), (3, 3), (1, 3), (1, 1)])]),
                        ('LineString', S([(2, 0), (2, 4)])), ('Polygon', [S([(2, 0), (4, 0), (4, 2), (2, 2), (2, 0)])])])
    elif k == 'empties':
        A = rng.choice([('Point', None), ('LineString', []), ('Polygon', []), ('MultiPoint', []), ('MultiLineString', []), ('MultiPolygon', []), ('GeometryCollection', []),
                        ('GeometryCollection', [('Point', None), ('LineString', [])]), ('MultiPoint', [('Point', None), ('Point', (0, 0))]),
                        ('MultiLineString', [('LineString', []), ('LineString', S([(0, 0), (1, 1)]))]), ('MultiPolygon', [('Polygon', []), ('Polygon', [S([(0, 0), (2, 0), (0, 2), (0, 0)])])]),
                        ('GeometryCollection', [('Polygon', []), ('Point', (u, u))])])
        B = rng.choice([('Point', None), ('Point', (0, 0)), ('LineString', S([(0, 0), (1, 1)])), ('Polygon', [S([(0, 0), (2, 0), (0, 2), (0, 0)])]), ('GeometryCollection', []),
                        ('MultiPolygon', []), ('LineString', []), ('GeometryCollection', [('LineString', []), ('Polygon', [])])])
    elif k == 'typed_empty':         # collections whose type dimension comes from an EMPTY element
        sq = S([(0, 0), (4, 0), (4, 4), (0, 4), (0, 0)])
        A = rng.choice([('GeometryCollection', [('Polygon', []), ('Point', S([(1, 1)])[0])]), ('GeometryCollection', [('Polygon', []), ('LineString', S([(1, 1), (3, 3)]))]),
                        ('GeometryCollection', [('LineString', []), ('Point', S([(1, 1)])[0])]), ('GeometryCollection', [('MultiPolygon', []), ('MultiPoint', [('Point', S([(1, 1)])[0]), ('Point', S([(9, 9)])[0])])]),
                        ('GeometryCollection', [('Polygon', []), ('LineString', S([(1, 1), (1, 1)]))]), ('MultiPolygon', [('Polygon', []), ('Polygon', [sq])]),
                        ('MultiLineString', [('LineString', []), ('LineString', S([(1, 1), (1, 1)]))]), ('LineString', S([(1, 1), (1, 1)]))])
        B = rng.choice([('Point', None), ('Polygon', []), ('GeometryCollection', []), ('Point', S([(1, 1)])[0]), ('Point', S([(7, 7)])[0]), ('Polygon', [sq]), ('LineString', S([(0, 0), (4, 4)])),
                        ('LineString', S([(5, 5), (6, 6)])), ('Polygon', [S([(5, 5), (8, 5), (8, 8), (5, 5)])]), ('MultiPolygon', []), ('LineString', []),
                        ('GeometryCollection', [('Polygon', []), ('Point', S([(1, 1)])[0])])])
    elif k == 'gc_point_outside':    # mixed collection: an element covers B, a point / line element lies elsewhere
        sq = S([(0, 0), (6, 0), (6, 6), (0, 6), (0, 0)])
        extra = rng.choice([('Point', S([(9, 9)])[0]), ('LineString', S([(9, 9), (9, 12)])), ('MultiPoint', [('Point', S([(9, 9)])[0]), ('Point', S([(3, 3)])[0])]), ('Point', S([(6, 3)])[0]),
                            ('LineString', S([(0, 0), (6, 0), (6, 6), (0, 6), (0, 0)])), ('LineString', S([(6, 3), (9, 3)]))])
        A = ('GeometryCollection', rng.choice([[('Polygon', [sq]), extra], [extra, ('Polygon', [sq])], [('LineString', S([(0, 0), (6, 0), (6, 6), (0, 6), (0, 0)])), extra]]))
        B = rng.choice([('Polygon', [S([(1, 1), (3, 1), (3, 3), (1, 3), (1, 1)])]), ('Polygon', [sq]), ('Polygon', [S([(0, 0), (6, 0), (6, 6), (0, 0)])]), ('LineString', S([(1, 1), (3, 3)])),
                        ('LineString', S([(0, 0), (6, 0)])), ('Polygon', [S([(0, 0), (3, 0), (3, 3), (0, 3), (0, 0)])]), ('Point', S([(3, 3)])[0]), ('Polygon', [S([(6, 0), (9, 0), (9, 6), (6, 6), (6, 0)])])])
    elif k == 'closed_fold':         # a CLOSED line that doubles back along itself (across its closing vertex, or elsewhere) against things collinear with the fold
        x0, x1, x2 = sorted(rng.sample(range(0, 12), 3)); hgt = rng.randint(1, 4); y = rng.randint(0, 5)
        if rng.random() < 0.7:       # last segment runs back along the first one and ends at the start: the fold tip is the closing vertex
            cl = [(x0, y), (x2, y), (x2, y + hgt), (x1, y + hgt), (x1, y), (x0, y)]
        else:                        # the fold is in the middle of the sequence: out to x2, back to x1, up and home
            cl = [(x1, y + hgt), (x1, y), (x2, y), (x0, y), (x0, y + hgt), (x1, y + hgt)]
        kk = rng.randrange(len(cl) - 1) if rng.random() < 0.2 else 0
        body = cl[:-1]; body = body[kk:] + body[:kk]; cl = body + [body[0]]
        if rng.random() < 0.5: cl = cl[::-1]
        xm = rng.choice([x0, x1, x2, (x0 + x1) // 2, x0 - 1, x2 + 1])
        Bs = [('LineString', [(min(xm, x2 - 1), y), (x2, y)]), ('LineString', [(x0, y), (x1, y)]), ('LineString', [(x0 - 1, y), (x2 + 1, y)]), ('Point', (x0, y)), ('Point', (x1, y)),
              ('LineString', [(x0, y - 1), (x0, y + 1)]), ('LineString', [(x1, y), (x2, y)]), ('Polygon', [[(x0, y), (x2, y), (x2, y - 2), (x0, y - 2), (x0, y)]]),
              ('MultiPoint', [('Point', (x0, y)), ('Point', (x2, y))]), ('LineString', [(x1, y), (x0, y), (x0, y - 2)])]
        T = rng.choice([lambda p: p, lambda p: (p[1], p[0]), lambda p: (-p[0], p[1]), lambda p: (p[1], -p[0])])
        A = ('LineString', S([T(p) for p in cl]))
        B = rng.choice(Bs)
        if rng.random() < 0.6:       # an edge collinear with the fold that passes THROUGH the tip (strictly on both sides of x1)
            xa = rng.randint(x0 - 1, x1 - 1); xb = rng.randint(x1 + 1, x2 + 1)
            B = rng.choice([('LineString', [(xa, y), (xb, y)]), ('LineString', [(xb, y), (xa, y)]), ('LineString', [(xa, y - 2), (xa, y), (xb, y)]),
                            ('Polygon', [[(xa, y), (xb, y), (xb, y - 3), (xa, y - 3), (xa, y)]]), ('MultiLineString', [('LineString', [(xa, y), (xb, y)]), ('LineString', [(xa, y + 7), (xb, y + 9)])])])
        B = map_coords(B, lambda p: S([T(p)])[0])
    elif k == 'closed_open_lines':   # a closed line (no boundary) beside an open one, in both orders
        cl = rng.choice([('LineString', S([(0, 0), (0, 6), (0, 0)])), ('LineString', S([(0, 0), (0, 6), (2, 2), (0, 0)])), ('LineString', S([(0, 0), (4, 0), (4, 4), (0, 4), (0, 0)]))])
        op = rng.choice([('LineString', S([(9, 9), (9, 12)])), ('LineString', S([(0, 0), (-3, -3)])), ('LineString', S([(2, 2), (9, 2)]))])
        els = [cl, op] if rng.random() < 0.5 else [op, cl]
        A = (rng.choice(['MultiLineString', 'GeometryCollection']), els)
        B = rng.choice([('Polygon', [S([(6, 0), (9, 6), (6, 6), (6, 0)])]), ('Point', S([(1, 1)])[0]), ('LineString', S([(20, 20), (21, 21)])), ('Polygon', [S([(0, 0), (4, 0), (4, 4), (0, 4), (0, 0)])]),
                        ('Point', S([(9, 9)])[0]), ('LineString', S([(0, 0), (0, 6)])), ('MultiPoint', [('Point', S([(9, 12)])[0]), ('Point', S([(0, 3)])[0])])])
    elif k == 'line_touch_line':     # a vertex of one line in the interior of a segment of another line of the same geometry
        base = ('LineString', S([(0, 0), (12, 0), (12, 12), (0, 12), (0, 0)])) if rng.random() < 0.5 else ('LineString', S([(0, 0), (12, 0)]))
        tch = rng.choice([('LineString', S([(6, 0), (6, 6)])), ('LineString', S([(6, -6), (6, 0), (9, 6)])), ('LineString', S([(3, 3), (6, 0), (9, 3)])), ('LineString', S([(6, 0), (9, 0)])),
                          ('LineString', S([(6, 0), (18, 0)]))])
        A = (rng.choice(['MultiLineString', 'GeometryCollection']), rng.choice([[base, tch], [tch, base]]))
        B = rng.choice([('Polygon', [S([(0, 0), (12, 0), (12, 12), (0, 12), (0, 0)])]), ('LineString', S([(0, 0), (12, 0)])), ('LineString', S([(3, 0), (9, 0)])), ('Polygon', [S([(0, 0), (12, 0), (6, -6), (0, 0)])]),
                        ('Polygon', [S([(0, 0), (12, 0), (6, 6), (0, 0)])]), ('Point', S([(6, 0)])[0]), ('LineString', S([(6, -3), (6, 3)])), ('Polygon', [S([(3, 0), (9, 0), (9, 3), (3, 3), (3, 0)])])])
    elif k == 'rect_around':         # an axis-parallel rectangle (any ring start / orientation) and elements placed round its corners and sides
        w, hgt = rng.randint(2, 5), rng.randint(2, 5)
        ring = S([(0, 0), (w, 0), (w, hgt), (0, hgt)])
        st = rng.randrange(4)
        ring = ring[st:] + ring[:st]
        if rng.random() < 0.5:
            ring = ring[::-1]
        A = ('Polygon', [ring + [ring[0]]])
        def around_corner():
            cx, sx = rng.choice([(0, -1), (w, 1)]); cy, sy = rng.choice([(0, -1), (hgt, 1)])
            o1, o2 = rng.randint(1, 3), rng.randint(1, 3)
            i1, i2 = rng.randint(0, min(3, hgt)), rng.randint(0, min(3, w))
            g = lambda X, Y: ((cx + sx * X) * u, (cy + sy * Y) * u)        # (outward x, outward y) round that corner
            p1, pc, p2 = g(o1, -i1), g(o1, o2), g(-i2, o2)
            c = rng.random()
            if c < 0.4:
                return ('LineString', [p1, p2] if rng.random() < 0.5 else [p2, p1])
            if c < 0.6:
                return ('LineString', [p1, pc, p2])
            if c < 0.85:
                return ('Polygon', [[p1, pc, p2, p1]] if sx * sy > 0 else [[p1, p2, pc, p1]])
            return ('LineString', [p1, g(0, 0), p2])
        def on_frame():
            xs = [x * u for x in range(-2, w + 3)]; ys = [y * u for y in range(-2, hgt + 3)]
            n = rng.choice([2, 2, 3, 3, 4])
            pts = []
            while len(pts) < n:
                q = (rng.choice(xs), rng.choice(ys))
                if not pts or q != pts[-1]:
                    pts.append(q)
            if n == 4 or (n == 3 and rng.random() < 0.4):
                return ('Polygon', [pts[:3] + [pts[0]]])
            return ('LineString', pts)
        c = rng.random()
        if c < 0.55:
            B = around_corner()
        elif c < 0.8:
            B = on_frame()
        elif c < 0.9:
            B = (rng.choice(['MultiLineString', 'GeometryCollection']), [e for e in (around_corner(), around_corner()) if e[0] == 'LineString'] or [('LineString', S([(-1, -1), (-1, hgt + 1)]))])
        else:
            B = ('GeometryCollection', [around_corner(), ('Point', (rng.randint(-1, w + 1) * u, rng.randint(-1, hgt + 1) * u))])
    elif k == 'gc_line_ends':        # mixed-dimension collection whose point / line elements carry the ends of the other operand's line
        p, q = S([(0, 0)])[0], S([(rng.choice([3, 4]), rng.choice([0, 2]))])[0]
        x, y = S([(rng.choice([2, -3]), rng.choice([3, 4]))])[0], S([(rng.choice([4, 5]), rng.choice([4, -2]))])[0]
        far = rng.choice([('Polygon', [S([(30, 30), (33, 30), (33, 32), (30, 32), (30, 30)])]), ('LineString', S([(-30, -30), (-28, -29)])),
                          ('Polygon', [S([(30, 30), (33, 30), (33, 32), (30, 32), (30, 30)])]), ('LineString', [q, S([(9, 9)])[0]]), ('LineString', [S([(-6, 0)])[0], p])])
        els = [('Point', p), far] + ([('Point', q)] if rng.random() < 0.5 else []) + ([('Point', x)] if rng.random() < 0.25 else [])
        rng.shuffle(els)
        A = ('GeometryCollection', els)
        B = rng.choice([('LineString', [p, x, y, p]), ('LineString', [p, x, p]), ('LineString', [p, q]), ('LineString', [p, x, q]), ('LineString', [q, x, y, q]),
                        ('LineString', [p, x]), ('LineString', [x, p, y]), ('LineString', [p, x, y, p, x]), ('MultiLineString', [('LineString', [p, x]), ('LineString', [q, y])]),
                        ('LineString', [p, q, p]), ('LineString', [p, x, y, q]), ('MultiLineString', [('LineString', [p, x, p]), ('LineString', [q, y, q])]), ('LineString', [x, y, x])])
    elif k == 'zero_len':
        A = rng.choice([('LineString', S([(1, 1), (1, 1)])), ('MultiLineString', [('LineString', S([(1, 1), (1, 1)])), ('LineString', S([(2, 2), (2, 2), (2, 2)]))]),
                        ('MultiLineString', [('LineString', S([(1, 1), (1, 1)])), ('LineString', S([(0, 0), (2, 2)]))]),
                        ('GeometryCollection', [('LineString', S([(1, 1), (1, 1)])), ('Point', S([(3, 3)])[0])])])
        B = rng.choice([('Point', S([(1, 1)])[0]), ('LineString', S([(0, 0), (2, 2)])), ('LineString', S([(1, 1), (2, 2)])), ('Polygon', [S([(0, 0), (2, 0), (2, 2), (0, 2), (0, 0)])]),
                        ('Polygon', [S([(1, 1), (2, 1), (2, 2), (1, 1)])]), ('LineString', S([(1, 1), (1, 1)])), ('MultiPoint', [('Point', S([(1, 1)])[0]), ('Point', S([(2, 2)])[0])]),
                        ('LineString', S([(0, 1), (2, 1)])), ('LineString', S([(2, 2), (2, 2)]))])
    elif k == 'line_cross_vertex':
        A = ('LineString', S([(0, 0), (2, 2), (4, 0)]))
        B = rng.choice([('LineString', S([(2, 0), (2, 4)])), ('LineString', S([(0, 2), (4, 2)])), ('LineString', S([(2, 2), (2, 4)])), ('LineString', S([(0, 0), (2, 2), (0, 4)])),
                        ('LineString', S([(4, 0), (2, 2), (0, 0)])), ('LineString', S([(1, 1), (3, 1)])), ('LineString', S([(0, 0), (4, 0), (2, 2)])),
                        ('LineString', S([(0, 0), (4, 0), (2, 2), (0, 0)])), ('MultiLineString', [('LineString', S([(0, 0), (2, 2)])), ('LineString', S([(2, 2), (4, 0)]))]),
                        ('MultiLineString', [('LineString', S([(2, 2), (2, 4)])), ('LineString', S([(2, 2), (0, 4)])), ('LineString', S([(2, 2), (4, 4)]))])])
    elif k == 'three_edges':        # three (or more) edges meeting in one node
        A = ('MultiLineString', [('LineString', S([(0, 0), (3, 3)])), ('LineString', S([(6, 0), (3, 3)])), ('LineString', S([(3, 6), (3, 3)]))])
        B = rng.choice([('LineString', S([(0, 3), (6, 3)])), ('Polygon', [S([(3, 3), (6, 3), (6, 6), (3, 6), (3, 3)])]), ('Polygon', [S([(0, 0), (6, 0), (3, 3), (0, 0)])]),
                        ('LineString', S([(3, 0), (3, 3), (6, 6)])), ('MultiLineString', [('LineString', S([(0, 6), (3, 3)])), ('LineString', S([(3, 3), (6, 6)]))]),
                        ('Polygon', [S([(2, 2), (4, 2), (4, 4), (2, 4), (2, 2)])]), ('Point', S([(3, 3)])[0])])
    elif k == 'gc_cover':           # collection whose line / point elements are covered by, or touch, its own polygon
        A = ('GeometryCollection', [('Polygon', [S([(0, 0), (4, 0), (4, 4), (0, 4), (0, 0)])]), rng.choice([('LineString', S([(1, 1), (3, 3)])), ('LineString', S([(2, 2), (6, 2)])),
                                    ('LineString', S([(0, 0), (4, 0)])), ('LineString', S([(4, 2), (6, 2)])), ('Point', S([(2, 2)])[0]), ('Point', S([(4, 2)])[0]), ('Point', S([(6, 2)])[0])])])
        B = rng.choice([('LineString', S([(2, 2), (6, 2)])), ('LineString', S([(5, 0), (5, 4)])), ('Point', S([(6, 2)])[0]), ('Point', S([(2, 2)])[0]), ('Polygon', [S([(4, 0), (8, 0), (8, 4), (4, 4), (4, 0)])]),
                        ('LineString', S([(0, 0), (4, 0)])), ('LineString', S([(1, 1), (3, 3)])), ('Polygon', [S([(1, 1), (3, 1), (3, 3), (1, 3), (1, 1)])]), ('Point', S([(4, 2)])[0])])
    else:                            # closed line / linear ring against things on it
        A = rng.choice([('LineString', S([(0, 0), (4, 0), (4, 4), (0, 4), (0, 0)])), ('LinearRing', S([(0, 0), (4, 0), (4, 4), (0, 4), (0, 0)])),
                        ('MultiLineString', [('LineString', S([(0, 0), (4, 0), (4, 4)])), ('LineString', S([(4, 4), (0, 4), (0, 0)]))])])
        B = rng.choice([('Point', (0, 0)), ('Polygon', [S([(0, 0), (4, 0), (4, 4), (0, 4), (0, 0)])]), ('LineString', S([(0, 0), (4, 0)])), ('LineString', S([(0, 4), (0, 0), (4, 0)])),
                        ('LineString', S([(2, 0), (2, 4)])), ('LineString', S([(0, 0), (4, 4)])), ('LinearRing', S([(0, 0), (4, 0), (4, 4), (0, 4), (0, 0)])), ('LineString', S([(-2, 0), (0, 0), (0, -2)]))])
    if rng.random() < 0.5:
        A, B = B, A
    return ('special:' + k, A, B)


def big_pairs(rng):
    """large magnitudes (2^20 .. 2^25) with near-collinear triples and thin shapes"""
    e = rng.randint(20, 25)
    M = 2 ** e
    M = (M // 6) * 6
    k = rng.choice(['near_collinear_point', 'thin_cross', 'sliver', 'long_shared', 'nearly_parallel'])
    j = rng.choice([1, 2, 3, 6])
    if k == 'near_collinear_point':
        A = ('LineString', [(-M, -M + j), (M, M)]) if rng.random() < 0.5 else ('LineString', [(0, 0), (M, M - 6)])
        a, b = A[1]
        t = rng.choice([2, 3, 6])
        p = (a[0] + (b[0] - a[0]) // t, a[1] + (b[1] - a[1]) // t)
        exact = (b[0] - a[0]) % t == 0 and (b[1] - a[1]) % t == 0
        B = rng.choice([('Point', p), ('Point', (p[0], p[1] + 1)), ('LineString', [p, (p[0] + M // 2, p[1] - 6)]), ('Polygon', [[p, (p[0] + 6, p[1]), (p[0], p[1] - 6), p]])])
    elif k == 'thin_cross':
        A = ('LineString', [(-M, 0), (M, j)])
        B = rng.choice([('LineString', [(-M, j), (M, 0)]), ('LineString', [(-M, 1), (M, 1 + j)]), ('LineString', [(0, -M), (j, M)]), ('Polygon', [[(-M, -M), (M, -M), (M, j), (-M, 0), (-M, -M)]])])
    elif k == 'sliver':
        A = ('Polygon', [[(0, 0), (M, 0), (M, j), (0, 0)]])
        B = rng.choice([('Polygon', [[(0, 0), (M, j), (M, 2 * j), (0, 0)]]), ('LineString', [(0, 0), (M, j)]), ('LineString', [(M // 2, -6), (M // 2, 6)]), ('Point', (M // 2, 0)),
                        ('Point', (M - 1, j - 1) if j > 1 else (M, 1)), ('Polygon', [[(0, 0), (M, 0), (M, -j), (0, 0)]]), ('LineString', [(0, j), (M, 0)])])
    elif k == 'long_shared':
        A = ('Polygon', [[(-M, -M), (M, -M), (M, M), (-M, M), (-M, -M)]])
        B = rng.choice([('Polygon', [[(M, -M), (M, M), (M - 6, 0), (M, -M)]]), ('LineString', [(M, -M), (M, M)]), ('LineString', [(-M, -M), (M, M)]), ('Polygon', [[(-M, -M), (M, -M), (M, M), (-M, -M)]]),
                        ('LineString', [(M, 0), (M - 1, 0)]), ('MultiPoint', [('Point', (M, M)), ('Point', (M - 1, M - 1)), ('Point', (M, M - 1))])])
    else:
        A = ('LineString', [(-M, -M), (M, M - j)])
        B = rng.choice([('LineString', [(-M, -M), (M, M)]), ('LineString', [(-M, -M + j), (M, M)]), ('LineString', [(M, M - j), (-M, -M)]), ('LineString', [(-M + 6, -M + 6), (M, M - j)])])
    if rng.random() < 0.5:
        A, B = B, A
    return ('big:' + k, A, B)


def respell(rng, g):
    """the same point set written differently: every sequence may get repeated consecutive vertices (at the start, in the
    middle, at the closing point; once or twice) and every polygon ring may be reversed (shells and holes independently, so
    both the OGC orientation and its opposite occur with and without repeats).  Returns (geometry, changed?)"""
    changed = [False]

    def rep(seq, ring):
        if len(seq) < 2 or rng.random() < 0.35:
            return seq
        out = list(seq)
        for _ in range(rng.choice([1, 1, 2])):
            where = rng.choice(['start', 'middle', 'end'])
            i = 0 if where == 'start' else len(out) - 1 if where == 'end' else rng.randrange(len(out))
            out = out[:i + 1] + [out[i]] * rng.choice([1, 1, 2]) + out[i + 1:]
        changed[0] = True
        return out

    def go(h):
        t, d = h
        if t == 'LineString' and d:
            return (t, rep(d, False))
        if t == 'LinearRing' and d:
            return (t, rep(d, True))
        if t == 'Polygon' and d:
            rings = []
            for r in d:
                if rng.random() < 0.5:
                    r = r[::-1]; changed[0] = True
                rings.append(rep(r, True))
            return (t, rings)
        if t in ('MultiLineString', 'MultiPolygon', 'GeometryCollection'):
            return (t, [go(x) for x in d])
        return h
    out = go(g)
    return out, changed[0]


def gen_case(rng):
    kind, A, B = gen_case0(rng)
    tag = ''
    if rng.random() < 0.3:
        A, ch = respell(rng, A)
        tag = '~respelled' if ch else tag
    if rng.random() < 0.3:
        B, ch = respell(rng, B)
        tag = '~respelled' if ch else tag
    return (kind + tag, A, B)


def gen_case0(rng):
    r = rng.random()
    if r < 0.16:
        return special_pairs(rng)
    if r < 0.24:
        return big_pairs(rng)
    R = rng.choice([2, 4, 8, 20])
    A = mul(G.gen_geom(rng, R), 6)
    if rng.random() < 0.7:
        kind, B = derive(rng, A, R)
    else:
        kind, B = 'independent', mul(G.gen_geom(rng, R), 6)
    if rng.random() < 0.5:
        A, B = B, A
    return (kind, A, B)


# ------------------------------------------------------------------ the repository's relate XML corpus
_tok = re.compile(r'\s*([A-Za-z]+|\(|\)|,|[-+]?(?:\d+\.?\d*|\.\d+)(?:[eE][-+]?\d+)?)')


def parse_wkt(s):
    toks = _tok.findall(s)
    pos = [0]

    def peek():
        return toks[pos[0]] if pos[0] < len(toks) else None

    def nxt():
        t = toks[pos[0]]; pos[0] += 1; return t

    def coord():
        x = float(nxt()); y = float(nxt())
        while peek() not in (',', ')', None):
            nxt()                   # drop Z / M
        return (x, y)

    def seq():
        if peek().upper() == 'EMPTY':
            nxt(); return []
        assert nxt() == '('
        out = [coord()]
        while peek() == ',':
            nxt(); out.append(coord())
        assert nxt() == ')'
        return out

    def lst(f):
        if peek().upper() == 'EMPTY':
            nxt(); return []
        assert nxt() == '('
        out = [f()]
        while peek() == ',':
            nxt(); out.append(f())
        assert nxt() == ')'
        return out

    def geom():
        t = nxt().upper()
        while peek() and peek().upper() in ('Z', 'M', 'ZM'):
            nxt()
        if t == 'POINT':
            s_ = seq(); return ('Point', s_[0] if s_ else None)
        if t == 'LINESTRING':
            return ('LineString', seq())
        if t == 'LINEARRING':
            return ('LinearRing', seq())
        if t == 'POLYGON':
            return ('Polygon', lst(seq))
        if t == 'MULTIPOINT':
            def mp():
                if peek() == '(' or peek().upper() == 'EMPTY':
                    s_ = seq(); return ('Point', s_[0] if s_ else None)
                return ('Point', coord())
            return ('MultiPoint', lst(mp))
        if t == 'MULTILINESTRING':
            return ('MultiLineString', [('LineString', l) for l in lst(seq)])
        if t == 'MULTIPOLYGON':
            return ('MultiPolygon', [('Polygon', p) for p in lst(lambda: lst(seq))])
        if t == 'GEOMETRYCOLLECTION':
            return ('GeometryCollection', lst(geom))
        raise ValueError(t)
    g = geom()
    if pos[0] != len(toks):
        raise ValueError('trailing tokens')
    return g


def to_grid(gs):
    """common power of two that makes every ordinate of the geometries an integer (<= 2^10), or None"""
    pts = [v for g in gs for p in all_points(g) for v in p]
    for s in range(0, 11):
        f = 2.0 ** s
        if all(float(v * f).is_integer() for v in pts):
            out = [map_coords(g, lambda p: (int(p[0] * f), int(p[1] * f))) for g in gs]
            if all(in_bounds(g) for g in out):
                return s, out
            return None
    return None


def xml_cases():
    out = []
    base = os.path.join(REPO, 'tests/xmltester/tests')
    files = []
    for d in ('general', 'validate'):
        p = os.path.join(base, d)
        if os.path.isdir(p):
            files += [os.path.join(p, f) for f in sorted(os.listdir(p)) if f.startswith('TestRelate') and f.endswith('.xml')]
    for f in files:
        txt = open(f, errors='replace').read()
        txt = re.sub(r'<!--.*?-->', '', txt, flags=re.S)
        for ci, case in enumerate(re.findall(r'<case>(.*?)</case>', txt, flags=re.S)):
            ma = re.search(r'<a>(.*?)</a>', case, flags=re.S); mb = re.search(r'<b>(.*?)</b>', case, flags=re.S)
            if not ma or not mb:
                continue
            for op in re.finditer(r'<op\s+name="relate"([^>]*)>(.*?)</op>', case, flags=re.S):
                attrs = dict(re.findall(r'(\w+)="([^"]*)"', op.group(1)))
                pat = attrs.get('arg3', '')
                want = op.group(2).strip().lower() == 'true'
                if len(pat) != 9:
                    continue
                try:
                    a, b = parse_wkt(ma.group(1).strip()), parse_wkt(mb.group(1).strip())
                except Exception:
                    out.append(dict(file=os.path.basename(f), case=ci, skip='wkt'))
                    continue
                if attrs.get('arg1', 'A').upper() == 'B':
                    a, b = b, a
                gr = to_grid([a, b])
                if gr is None:
                    out.append(dict(file=os.path.basename(f), case=ci, skip='not-grid'))
                    continue
                s, (ga, gb) = gr
                out.append(dict(file=os.path.basename(f), case=ci, A=ga, B=gb, s=s, pat=pat, want=want))
    return out


def pat_match(p, m):
    for a, b in zip(p, m):
        if a == '*':
            continue
        if a == 'T':
            if b == 'F':
                return False
        elif a != b:
            return False
    return True


# ------------------------------------------------------------------ running
def parse_out(o):
    d = {}
    for tok in o.split(' '):
        if '=' in tok:
            k, v = tok.split('=', 1); d[k] = v
    return d


def run_parallel(ctx, argv, lines, timeout, jobs=None):
    """ctx.run_lines over contiguous chunks in parallel threads (each chunk in its own process; crash attribution as in run_lines)"""
    jobs = jobs or max(1, min(NPROC, 16))
    n = len(lines)
    if n == 0:
        return []
    per = max(1, min(40, (n + jobs * 4 - 1) // (jobs * 4)))
    chunks = [(i, lines[i:i + per]) for i in range(0, n, per)]
    res = [None] * len(chunks)
    lock = threading.Lock()
    nxt = [0]

    def work():
        while True:
            with lock:
                k = nxt[0]; nxt[0] += 1
            if k >= len(chunks):
                return
            try:
                res[k] = ctx.run_lines(argv, chunks[k][1], timeout=timeout)
            except Exception as e:          # e.g. the executable vanished: attribute to every line of the chunk
                res[k] = ['CRASH:-1:%s' % str(e)[:200]] * len(chunks[k][1])
    ths = [threading.Thread(target=work) for _ in range(jobs)]
    for t in ths: t.start()
    for t in ths: t.join()
    return [o for r in res for o in r]


def patterns_around(rng, m):
    out = []
    for _ in range(5):
        p = ''
        for ch in m:
            r = rng.random()
            if r < 0.3: p += '*'
            elif r < 0.55: p += ch
            elif r < 0.75: p += 'T'
            elif r < 0.85: p += 'F'
            else: p += rng.choice('012')
        out.append(p)
    return out


class Case:
    __slots__ = ('kind', 'A', 'B', 's', 'opts', 'xml', 'model', 'impl', 'pats', 'patexp', 'proto')

    def __init__(self, kind, A, B, s=0, opts='e', xml=None):
        self.kind, self.A, self.B, self.s, self.opts, self.xml = kind, A, B, s, opts, xml
        self.model = self.impl = None; self.pats = []; self.patexp = ''; self.proto = ''

    def model_line(self):
        return 'R %s - ; %s ; %s' % (self.opts, gtext(self.A), gtext(self.B))

    def impl_line(self, seed):
        return '%d|%s|%s|%s' % (seed, scaled_wkt(self.A, self.s), scaled_wkt(self.B, self.s), ','.join(self.pats))


DRVP = [None]      # the protocol driver (generated predicate classes); None when it could not be built


def evaluate(ctx, cases, drv, hexe, rng, timeout=1200):
    """fill model / impl outputs of the cases"""
    mo = run_parallel(ctx, [drv], [c.model_line() for c in cases], timeout)
    if DRVP[0]:
        idx, lines = [], []
        for i, (c, o) in enumerate(zip(cases, mo)):
            d = parse_out(o)
            if 'ev' in d and 'M' in d:
                idx.append(i); lines.append('V %s %s %s %s %s' % (d['dims'].replace(',', ' '), d['ea'], d['eb'], d['ev'], d['M']))
        for i, o in zip(idx, run_parallel(ctx, [DRVP[0]], lines, timeout)):
            cases[i].proto = o
    for c, o in zip(cases, mo):
        c.model = o
        d = parse_out(o)
        if 'M' in d:
            c.pats = patterns_around(rng, d['M'].split(',')[0])
    idx = [i for i, c in enumerate(cases) if c.pats]
    po = run_parallel(ctx, [drv], ['P %s %s' % (parse_out(cases[i].model)['M'].split(',')[0], ','.join(cases[i].pats)) for i in idx], timeout)
    for i, o in zip(idx, po):
        cases[i].patexp = o.strip()
    io = run_parallel(ctx, [hexe], [c.impl_line(rng.randint(0, 2 ** 31)) for c in cases], timeout)
    for c, o in zip(cases, io):
        c.impl = o


def compare(ctx, c):
    """list of (key, message) disagreements between the oracle and the implementation for one evaluated case; [] when out of scope"""
    m, d = parse_out(c.model), parse_out(c.impl)
    if 'M' not in m or 'R' not in d:
        return []
    bad = []
    M = m['M'].split(',')
    if d['R'] != M[0]:
        bad.append(('R', 'GEOSRelate_r(A,B)=%s, exact DE-9IM matrix is %s' % (d['R'], M[0])))
    if d['RT'] != m['MT']:
        bad.append(('RT', 'GEOSRelate_r(B,A)=%s, exact DE-9IM matrix is %s' % (d['RT'], m['MT'])))
    for i, (x, y) in enumerate(zip(d['BNR'].split(','), M)):
        if x != y:
            bad.append(('BNR%d' % i, 'GEOSRelateBoundaryNodeRule_r(%s)=%s, exact matrix is %s' % (RULES[i], x, y)))
    if d['PR'] != M[0]:
        bad.append(('PR', 'GEOSPreparedRelate_r(A,B)=%s, exact matrix is %s' % (d['PR'], M[0])))
    if d['PRT'] != m['MT']:
        bad.append(('PRT', 'GEOSPreparedRelate_r(B,A)=%s, exact matrix is %s' % (d['PRT'], m['MT'])))
    both_empty = d.get('empty') == '11'
    for i, name in enumerate(NAMES):
        exp = m['named'][i]
        for form, got in (('GEOS%s_r' % (name[0].upper() + name[1:]), d['named'][i]), ('GEOSPrepared%s_r' % (name[0].upper() + name[1:]), d['prep'][i])):
            if got == 'x' or got == exp:
                continue
            if name == 'equals' and both_empty and got == '1':
                kf = ctx.known_match(lambda e: e.get('id') == 'F20')
                if kf:
                    ctx.known_hit(kf); continue
            bad.append((name, '%s(A,B)=%s, its DE-9IM definition on the exact matrix %s (dims %s) gives %s' % (form, got, M[0], m['dims'], exp)))
    if 'pat' in d and c.patexp:
        for t, e in zip([t for t in d['pat'].split(',') if t], c.patexp):
            p, v = t.split(':')
            if any(x != e for x in v):
                bad.append(('pattern', 'pattern %s: GEOSRelatePattern_r / GEOSRelatePatternMatch_r / GEOSPreparedRelatePattern_r = %s, exact matrix %s says %s' % (p, v, M[0], e)))
    return bad


# ---- shrinking
def shrink_candidates(g):
    t, d = g
    out = []
    if t in ('MultiPoint', 'MultiLineString', 'MultiPolygon', 'GeometryCollection'):
        for i in range(len(d)):
            out.append((t, d[:i] + d[i + 1:]))
        if len(d) == 1:
            out.append(d[0])
        for i, x in enumerate(d):
            for y in shrink_candidates(x)[:6]:
                if t == 'GeometryCollection' or y[0] == x[0]:
                    out.append((t, d[:i] + [y] + d[i + 1:]))
    elif t == 'LineString':
        if len(d) > 2:
            for i in range(len(d)):
                out.append((t, d[:i] + d[i + 1:]))
    elif t == 'Polygon':
        for i in range(1, len(d)):
            out.append((t, d[:i] + d[i + 1:]))
        for i, r in enumerate(d):
            if len(r) > 4:
                for j in range(1, len(r) - 1):
                    out.append((t, d[:i] + [r[:j] + r[j + 1:]] + d[i + 1:]))
    return out


def shrink(ctx, c, keys, drv, hexe, rng, budget=6):
    """greedy: smaller A or B, still valid, still disagreeing on one of the same keys"""
    cur = c
    for _ in range(budget):
        cands = [Case(c.kind, a, cur.B, cur.s, 'e') for a in shrink_candidates(cur.A)] + [Case(c.kind, cur.A, b, cur.s, 'e') for b in shrink_candidates(cur.B)]
        cands = cands[:60]
        if not cands:
            break
        evaluate(ctx, cands, drv, hexe, rng, timeout=300)
        nxt = None
        for k in sorted(cands, key=lambda k: size(k.A) + size(k.B)):
            if 'valid=11' not in (k.model or ''):
                continue
            if any(key in keys for key, _ in compare(ctx, k)):
                nxt = k; break
        if nxt is None:
            break
        cur = nxt
    return cur


def corpus_cases():
    """gen/corpus/C01.txt: name | WKT A | WKT B (integer coordinates); every pair in both orders"""
    out = []
    p = os.path.join(ROOT, 'gen/corpus/C01.txt')
    if os.path.exists(p):
        for l in open(p):
            l = l.strip()
            if l and not l.startswith('#'):
                f = [x.strip() for x in l.split('|')]
                try:
                    toint = lambda q: (int(q[0]), int(q[1]))
                    a, b = map_coords(parse_wkt(f[1]), toint), map_coords(parse_wkt(f[2]), toint)
                except Exception as e:
                    raise ValueError('gen/corpus/C01.txt: cannot parse %r (%s)' % (l, e))
                out.append(Case('corpus:' + f[0], a, b, 0, 'est'))
                out.append(Case('corpus:' + f[0] + ':swapped', b, a, 0, 'e'))
    return out


def run(ctx):
    ctx.cov['rule'] = ('ordered pairs of grid geometries (integers times one power of two, |ordinate| <= 2^25 units) that the extracted Lib/ValidDefs accepts as valid and whose polygons '
                       'taken together form a valid MultiPolygon; all type combinations, constructed and derived contact degeneracies, large magnitudes, the relate XML corpus; '
                       'non-trivial = the exact matrix is not the disjoint one (some of II, IB, BI, BB is not F); distinct by (WKT A, WKT B)')
    ctx.assumptions += [
        'completeness of the witness family (no component of an intersection escapes every node, sub-edge midpoint and side point) is the planar-arrangement argument: NOT proved; '
        'it is backed by the agreement of the oracle with the expected matrices of the repository relate XML corpus and with the implementation on every generated pair',
        'eps = 2^-200 for the side points: adequacy for |ordinate| <= 2^25 is argued in ArrangementDefs.v (not machine checked); what is checked on every pair is side_ok '
        '(no side point lies on linework, so every dimension-2 claim is sound whatever eps is) and eps_ok (the path from the sub-edge midpoint to the side point meets no ring segment)',
        'geometry collections whose polygons overlap or share boundary segments (RelateNG union semantics) are outside the oracle: such pairs are skipped and counted',
        'validity of the inputs is decided by the extracted Lib/ValidDefs (C05), not by the implementation']
    ok_build = ctx.build_repo('rel')
    from translator.units import BY_PROPERTY
    ctx.translate(BY_PROPERTY.get('C01', []))
    ok_coq, ax = ctx.coq_build('Properties_C01')
    drv = ctx.ocaml_driver('C01')
    DRVP[0] = ctx.ocaml_driver('C01p') if ok_coq else None
    if DRVP[0] is None:
        ctx.log('protocol driver not available (generated units / their proofs do not build): running the core oracle only')
    hexe = os.path.join(BUILD, 'bin', 'c01')
    if not ok_build or not ctx.cxx(os.path.join(ROOT, 'harness/c01.c'), hexe, 'rel') or not drv:
        return
    rng = random.Random(ctx.seed)
    if ctx.replay:
        import json
        rp = json.load(open(ctx.replay))
        src = rp.get('minimised') or rp
        gr = to_grid([parse_wkt(src['A']), parse_wkt(src['B'])])
        if gr is None:
            ctx.log('replay: the pair is not on a grid'); return
        c = Case('replay', gr[1][0], gr[1][1], gr[0], 'est')
        evaluate(ctx, [c], drv, hexe, rng, timeout=600)
        ctx.log('oracle        : ' + (c.model or ''))
        ctx.log('implementation: ' + (c.impl or ''))
        bad = compare(ctx, c)
        for _, msg in bad:
            ctx.log('DISAGREE: ' + msg)
        if bad and not int(parse_out(c.model or '').get('fragile', '0')):
            ctx.violation('replay', dict(A=src['A'], B=src['B'], implementation=c.impl, oracle=c.model, why=[m_ for _, m_ in bad]), msg=bad[0][1])
        ctx.count((src['A'], src['B']), True)
        return
    n = 5000 if ctx.quick else 150000
    cases = corpus_cases()
    # ---- XML corpus
    xml = xml_cases()
    xs = [x for x in xml if 'A' in x]
    if ctx.quick:
        rng2 = random.Random(ctx.seed + 1)
        xs = rng2.sample(xs, min(len(xs), 300))
    for x in xs:
        if size(x['A']) + size(x['B']) <= (60 if ctx.quick else 100):
            cases.append(Case('xml:' + x['file'], x['A'], x['B'], x['s'], 'e', xml=x))
    nxml = len([c for c in cases if c.xml])
    # ---- generated
    for i in range(n):
        kind, A, B = gen_case(rng)
        if not (in_bounds(A) and in_bounds(B)) or size(A) + size(B) > 60:
            continue
        s = rng.choice([0, 0, 0, 1, 3, 10, 20, -4])
        opts = 'e' + ('s' if i % 40 == 0 and size(A) + size(B) < 30 else '') + ('t' if i % 12 == 0 else '')
        cases.append(Case(kind, A, B, s, opts))
    ctx.log('%d cases (%d from the XML corpus of %d relate ops)' % (len(cases), nxml, len(xml)))
    evaluate(ctx, cases, drv, hexe, rng, timeout=1500 if ctx.quick else 3000)
    dist = dict(kind={}, dims={}, matrices={}, invalid_by_model=0, out_of_scope=0, validity_disagreements=0, xml_checked=0, xml_skipped={}, spec_checked=0, transform_checked=0,
                witnesses=0, max_witnesses=0, scale={})
    for x in xml:
        if 'skip' in x:
            dist['xml_skipped'][x['skip']] = dist['xml_skipped'].get(x['skip'], 0) + 1
    nviol = 0
    for ci, c in enumerate(cases):
        m, d = parse_out(c.model or ''), parse_out(c.impl or '')
        wa, wb = scaled_wkt(c.A, c.s), scaled_wkt(c.B, c.s)
        replay = dict(kind=c.kind, A=wa, B=wb, grid_A=gtext(c.A), grid_B=gtext(c.B), scale='2^-%d' % c.s, implementation=c.impl, oracle=c.model,
                      replay_impl="echo '%s' | %s" % (c.impl_line(1), hexe), replay_oracle="echo '%s' | %s" % (c.model_line(), drv))
        if (c.impl or '').startswith('CRASH') or c.impl == 'TIMEOUT':
            ctx.violation('crash_%d' % ci, replay, msg='relate call crashed / hung on %s | %s: %s' % (wa[:80], wb[:80], (c.impl or '')[:200]))
            continue
        if (c.model or '').startswith(('CRASH', 'TIMEOUT', 'ERROR', 'PARSE', '?')) or 'valid' not in m:
            ctx.broken.append(dict(kind='oracle', name='oracle evaluation failed', detail='%s -> %s' % (c.model_line()[:300], (c.model or '')[:300])))
            continue
        if m['valid'] != '11' or m.get('scope', '11') != '11':
            if m['valid'] != '11':
                dist['invalid_by_model'] += 1
                if c.xml is None and not c.kind.startswith('corpus'):
                    pass
            else:
                dist['out_of_scope'] += 1
            continue
        if 'R' not in d:
            ctx.broken.append(dict(kind='harness', name='harness output', detail='%s -> %s' % (c.impl_line(1)[:300], (c.impl or '')[:200])))
            continue
        if d['valid'] != '11':
            dist['validity_disagreements'] += 1          # C05's business; the pair is valid by the OGC rules and stays in the quantifier
        M = m['M'].split(',')
        nontriv = M[0][:2] + M[0][3:5] != 'FFFF'
        ctx.count((wa, wb), nontriv)
        if c.kind.endswith('~respelled'):
            dist['respelled'] = dist.get('respelled', 0) + 1
        kk = c.kind.replace('~respelled', '')
        kk = kk.split(':')[0] if kk.startswith(('xml', 'corpus')) else kk
        dist['kind'][kk] = dist['kind'].get(kk, 0) + 1
        dist['dims'][m['dims']] = dist['dims'].get(m['dims'], 0) + 1
        dist['matrices'][M[0]] = dist['matrices'].get(M[0], 0) + 1
        dist['scale'][str(c.s)] = dist['scale'].get(str(c.s), 0) + 1
        nw = int(m.get('nw', 0)); dist['witnesses'] += nw; dist['max_witnesses'] = max(dist['max_witnesses'], nw)
        # ---- the oracle's own certificates
        if m.get('sideok') != '1':
            ctx.broken.append(dict(kind='oracle', name='side witness not open (eps too large for this input?)', detail=c.model_line()[:600]))
        if m.get('epsok') != '1':
            ctx.broken.append(dict(kind='oracle', name='path to a side witness not certified clear of ring segments (eps too large for this input?)', detail=c.model_line()[:600]))
        pr = parse_out(c.proto or '')
        if 'EV' in pr:
            dist['protocol_checked'] = dist.get('protocol_checked', 0) + 1
            replay['protocol'] = c.proto
            if pr['real'] != '1':
                ctx.violation('unrealizable_%d' % ci, replay, msg='the exact matrix %s with dims %s violates a geometric fact the predicate short-cuts rely on (PredSound.realizable)' % (m['M'], m['dims']))
            if pr['FIN'] != M[0]:
                ctx.broken.append(dict(kind='oracle', name='events do not accumulate to the oracle matrix', detail='%s: %s vs %s' % (c.model_line()[:300], pr['FIN'], M[0])))
            if pr['EV'] != m['named'][:10] or pr['EVR'] != m['named'][:10]:
                # the one refuted case (PredSound.equals_both_empty_refuted): equals of two empty geometries
                if not (m['dims'] == '-1,-1' and pr['EV'][7] == '1' and pr['EV'][:7] + '0' + pr['EV'][8:] == m['named'][:10]):
                    ctx.broken.append(dict(kind='correspondence', name='generated predicate protocol on the oracle events vs pattern sets',
                                           detail='%s: EV=%s EVR=%s named=%s' % (c.model_line()[:300], pr['EV'], pr['EVR'], m['named'])))
            # the generated classes (as the C++ has them now) against the implementation's own answers
            impl10 = d['named'][:10]
            if pr['EV'] != impl10 and not compare(ctx, c) and not (m['dims'] == '-1,-1'):
                ctx.broken.append(dict(kind='correspondence', name='generated predicate classes disagree with the library they were generated from',
                                       detail='%s: EV=%s impl=%s' % (c.impl_line(1)[:300], pr['EV'], impl10)))
        if 'SPEC' in m:
            dist['spec_checked'] += 1
            if m['SPEC'] != M[0]:
                ctx.broken.append(dict(kind='oracle', name='fast evaluation differs from the specification', detail=c.model_line()[:600]))
        if 'TR' in m:
            dist['transform_checked'] += 1
            if any(t != M[0] for t in m['TR'].split(',')):
                ctx.broken.append(dict(kind='oracle', name='oracle not invariant under translation / reflection / axis swap', detail='%s TR=%s' % (c.model_line()[:500], m['TR'])))
        # ---- XML expectation
        if c.xml is not None:
            dist['xml_checked'] += 1
            if pat_match(c.xml['pat'], M[0]) != c.xml['want']:
                ctx.violation('xml_%d' % ci, dict(replay, expected_pattern=c.xml['pat'], expected=c.xml['want'], file=c.xml['file'], case=c.xml['case']),
                              msg='oracle matrix %s contradicts the XML corpus expectation %s=%s (%s case %d): oracle or corpus is wrong' % (M[0], c.xml['pat'], c.xml['want'], c.xml['file'], c.xml['case']))
        # ---- implementation against the oracle
        bad = compare(ctx, c)
        nfrag = int(m.get('fragile', '0'))
        if nfrag:
            dist['fragile_pairs'] = dist.get('fragile_pairs', 0) + 1
        if bad and nfrag:
            kf = ctx.known_match(lambda e: e.get('id') == 'C01-F3')
            if kf:
                dist['fragile_mismatch'] = dist.get('fragile_mismatch', 0) + 1
                ctx.known_hit(kf)
                continue
        if bad and nviol < 8:
            nviol += 1
            keys = set(k for k, _ in bad)
            small = shrink(ctx, c, keys, drv, hexe, rng)
            sb = compare(ctx, small)
            replay['why'] = [msg for _, msg in bad]
            replay['minimised'] = dict(A=scaled_wkt(small.A, small.s), B=scaled_wkt(small.B, small.s), implementation=small.impl, oracle=small.model, why=[msg for _, msg in sb],
                                       replay_impl="echo '%s' | %s" % (small.impl_line(1), hexe), replay_oracle="echo '%s' | %s" % (small.model_line(), drv))
            ctx.violation('pair_%d' % ci, replay, msg='%s  [A=%s B=%s]' % ((sb or bad)[0][1], replay['minimised']['A'][:120], replay['minimised']['B'][:120]))
    ctx.cov['traces_validated_against_impl'] = ctx.cov['evaluations']
    ctx.notes['distribution'] = dict(kind=dist['kind'], dims=dist['dims'], scale_exponent=dist['scale'], distinct_matrices=len(dist['matrices']),
                                     top_matrices=sorted(dist['matrices'].items(), key=lambda kv: -kv[1])[:15], invalid_by_model=dist['invalid_by_model'],
                                     out_of_scope_collections=dist['out_of_scope'], validity_disagreements_with_GEOSisValid=dist['validity_disagreements'],
                                     xml_relate_ops=len(xml), xml_checked=dist['xml_checked'], xml_skipped=dist['xml_skipped'],
                                     specification_cross_checked=dist['spec_checked'], invariance_cross_checked=dist['transform_checked'], protocol_checked=dist.get('protocol_checked', 0),
                                     witnesses_total=dist['witnesses'], witnesses_max=dist['max_witnesses'],
                                     pairs_with_repeated_vertices_or_reversed_rings=dist.get('respelled', 0),
                                     pairs_with_inexact_node_on_three_segments=dist.get('fragile_pairs', 0), of_which_disagree_known_finding_C01_F3=dist.get('fragile_mismatch', 0))
    for c in cases[:200:40]:
        ctx.sample('%s | %s | %s' % (c.kind, scaled_wkt(c.A, c.s)[:120], scaled_wkt(c.B, c.s)[:120]))
    if len(dist['matrices']) < 40:
        ctx.broken.append(dict(kind='generator', name='distribution', detail='fewer than 40 distinct matrices drawn'))
    if dist['xml_checked'] < (100 if ctx.quick else 300):
        ctx.broken.append(dict(kind='generator', name='xml corpus', detail='only %d XML relate cases were usable' % dist['xml_checked']))
