"""C08 — distance functions return the true minimum distance across all variants.

proof:   coq/theories/C08/*.v, Properties_C08.v  (point/segment distance is the minimum over the segment and attained; segment/
         segment distance attained and a lower bound for every pair of points; symmetry; zero iff the segments meet; facet distance
         = minimum over the facets; point-set distance attained / symmetric / zero characterised; Hausdorff = max-min; the Frechet
         dynamic programme equals the minimum over monotone couplings; facet sequences cover every segment; branch and bound
         admissibility cited from C15)
tie:     G  Distance::pointToSegment / pointToLinePerpendicular / segmentToSegment and the inline helpers they call
            (CoordinateXY::operator==, equals2D, distance, Envelope::intersects/4) are regenerated from /repo on every run
            (translator/units/C08.py, doubles read as REAL numbers: C08/GenPreludeR.v) and proved, for all inputs, to return THE
            distance to / between the closed segments (C08/GenDist.v); binary64 rounding is outside these theorems and is
            bounded by the S stream below.
         S  the exact oracle (DistDefs.v: dist2 / facet_dist2 / hausdorff2 / frechet2 / minclear2 over integer-scaled dyadic
         coordinates, extracted to OCaml) is run beside every distance entry point of the C API on generated pairs; the returned
         doubles are compared EXACTLY over rationals (no sqrt trusted):  |v^2 - dist2| <= 2e-12 dist2,  v = 0 <=> dist2 = 0,
         symmetry, nearest points on their geometries and realising v, within-distance at v, prev(v), next(v), 0, 2v, inf.
         M  the facet sequence ranges of the model against those FacetSequenceTreeBuilder builds.
known:   C08-K1 (binary64 rounding beyond 1e-12 relative, accepted only inside an absolute envelope of 16 x 2^-52 x max|ordinate|).
         C08-K2..K7 are fixed in /repo: the labels survive in evaluate() only to name a regression; they excuse nothing.
"""
import math, os, struct, random
from fractions import Fraction
from concurrent.futures import ThreadPoolExecutor
from vlib.core import ROOT, BUILD, NPROC
from gen import geoms as G

GEN_UNITS = ['C08_equals2D', 'C08_coordEq', 'C08_coordDist', 'C08_envSeg', 'C08_ptSeg', 'C08_ptLinePerp', 'C08_segSeg']
REL = Fraction(2, 10 ** 12)          # |v^2 - D| <= 2e-12 D   <=>  v within 1e-12 relative of sqrt(D)
ROUND_C = 16                         # rounding envelope of the known finding C08-K1: |v - d| <= ROUND_C * 2^-52 * max|ordinate|
NP_REL = Fraction(1, 10 ** 9)        # nearest points: on their geometry / realising v to 1e-9 of the ordinate magnitude


# ------------------------------------------------------------------------------------------------ encoding
def wkb(g):
    t, d = g
    code = {'Point': 1, 'LineString': 2, 'Polygon': 3, 'MultiPoint': 4, 'MultiLineString': 5, 'MultiPolygon': 6, 'GeometryCollection': 7}[t]
    out = struct.pack('<BI', 1, code)
    if t == 'Point':
        return out + (struct.pack('<dd', float('nan'), float('nan')) if d is None else struct.pack('<dd', float(d[0]), float(d[1])))
    if t == 'LineString':
        return out + struct.pack('<I', len(d)) + b''.join(struct.pack('<dd', float(x), float(y)) for x, y in d)
    if t == 'Polygon':
        return out + struct.pack('<I', len(d)) + b''.join(struct.pack('<I', len(r)) + b''.join(struct.pack('<dd', float(x), float(y)) for x, y in r) for r in d)
    return out + struct.pack('<I', len(d)) + b''.join(wkb(x) for x in d)


def k_of(v):
    """v = m / 2^k exactly"""
    m, den = float(v).as_integer_ratio()
    return den.bit_length() - 1


def zgeom(g, K, off=(0, 0)):
    """prefix form for the driver: ordinates multiplied by 2^K (exact integers) and translated by -off (integers, in scaled units)"""
    t, d = g
    zx = lambda v: str(int(Fraction(float(v)) * (1 << K)) - off[0])
    zy = lambda v: str(int(Fraction(float(v)) * (1 << K)) - off[1])
    if t == 'Point':
        return 'PE' if d is None else 'P %s %s' % (zx(d[0]), zy(d[1]))
    if t == 'LineString':
        return 'L %d %s' % (len(d), ' '.join('%s %s' % (zx(x), zy(y)) for x, y in d))
    if t == 'Polygon':
        return 'A %d %s' % (len(d), ' '.join('%d %s' % (len(r), ' '.join('%s %s' % (zx(x), zy(y)) for x, y in r)) for r in d))
    return 'C %d %s' % (len(d), ' '.join(zgeom(x, K, off) for x in d))


def unhex(s):
    return struct.unpack('>d', bytes.fromhex(s))[0]


def parse_impl(line):
    toks = line.split(' ')
    r = {}
    for t in toks[1:]:
        if '=' in t:
            k, v = t.split('=', 1); r[k] = v
    return r


# ------------------------------------------------------------------------------------------------ generators
def tr_dyadic(rng):
    """exact similarity onto full-mantissa doubles: p -> ((x q + ox) 2^k, (y q + oy) 2^k); touching / collinearity stay exact"""
    q = rng.choice([1, 3, rng.getrandbits(12) | 1, rng.getrandbits(26) | 1, rng.getrandbits(30) | 1])
    ob = rng.choice([0, 20, 40, 50])
    ox = rng.getrandbits(ob) if ob else 0
    oy = rng.getrandbits(ob) if ob else 0
    k = rng.choice([0, 0, -10, -30, -60, 7])

    def f(p):
        X = int(p[0]) * q + ox; Y = int(p[1]) * q + oy
        assert abs(X) < 2 ** 53 and abs(Y) < 2 ** 53
        return (math.ldexp(float(X), k), math.ldexp(float(Y), k))
    return f


def tr_float(rng):
    return G.to_full_precision(rng, None)


def halfint(p):
    return p[0] == int(p[0]) and p[1] == int(p[1])


def gen_big_line(rng, n, R, cx, cy):
    pts = []; x, y = cx, cy
    ang = rng.random() * 6.28
    for i in range(n):
        pts.append((int(x), int(y)))
        ang += rng.uniform(-0.9, 0.9)
        st = rng.uniform(1, R)
        x += st * math.cos(ang); y += st * math.sin(ang)
    out = [pts[0]]
    for p in pts[1:]:
        if p != out[-1] or rng.random() < 0.05:
            out.append(p)
    if len(out) < 2: out.append((out[0][0] + 1, out[0][1]))
    return ('LineString', out)


def gen_big_poly(rng, n, R, cx, cy):
    ring = []
    for i in range(n):
        a = 2 * math.pi * i / n
        r = R * (0.55 + 0.45 * rng.random())
        p = (cx + int(round(r * math.cos(a))), cy + int(round(r * math.sin(a))))
        if not ring or p != ring[-1]:
            ring.append(p)
    if ring[0] == ring[-1]: ring.pop()
    ring.append(ring[0])
    rings = [ring]
    if rng.random() < 0.5:
        h = max(1, R // 8)
        rings.append(G.rect_ring(cx - h, cy - h, cx + h, cy + h)[::-1])
    return ('Polygon', rings)


def with_empties(rng, g):
    """wrap into a multi / collection with EMPTY elements at random positions"""
    t, d = g
    if t == 'Point':
        els = [g]; mt, e = rng.choice([('MultiPoint', ('Point', None)), ('GeometryCollection', ('Point', None))])
    elif t == 'LineString':
        els = [g]; mt, e = rng.choice([('MultiLineString', ('LineString', [])), ('GeometryCollection', ('LineString', []))])
    elif t == 'Polygon':
        els = [g]; mt, e = rng.choice([('MultiPolygon', ('Polygon', [])), ('GeometryCollection', ('Polygon', []))])
    elif t == 'GeometryCollection':
        els = list(d); mt = t; e = rng.choice([('Point', None), ('LineString', []), ('Polygon', []), ('GeometryCollection', [])])
    else:
        els = list(d); mt = t; e = (t[5:], None if t == 'MultiPoint' else [])
    for _ in range(rng.randint(1, 2)):
        els.insert(rng.randint(0, len(els)), e)
    return (mt, els)


def bbox(g):
    pts = G.all_points(g)
    xs = [p[0] for p in pts]; ys = [p[1] for p in pts]
    return min(xs), min(ys), max(xs), max(ys)


def gen_hole_around(rng):
    """a polygon with one or two holes against a line / ring / polygon that lies in and around a hole: the hole ring is inside the
    other geometry's envelope while the shell is outside it (disconnected linework of ONE polygon), at distance 0 (crossing the hole
    ring, covering the hole) or at a small positive distance from the hole ring (inside the hole hugging it, or around it in the annulus)"""
    W = rng.randint(4, 12) * 4; H = rng.randint(4, 12) * 4
    cx, cy = 3 * W // 2, 3 * H // 2
    hw, hh = W // 4, H // 4                      # half sizes of the hole
    rings = [G.rect_ring(0, 0, 3 * W, 3 * H), G.rect_ring(cx - hw, cy - hh, cx + hw, cy + hh)[::-1]]
    if rng.random() < 0.3:
        rings.append(G.rect_ring(2, 2, 5, 5)[::-1])                 # a second, far hole
    A = ('Polygon', rings)
    kind = rng.choice(['through', 'through', 'through-rev', 'through-poly', 'through-poly', 'zigzag', 'diamond-ring', 'diamond-poly', 'c-shape', 'inside-cross', 'inside-poly', 'holed-poly'])
    g1 = rng.randint(1, 3); g2 = rng.randint(1, 3)
    if kind == 'through':          # from the centre of the hole out into the annulus (crosses the hole ring)
        B = ('LineString', [(cx, cy), (cx - hw - g1, cy - hh - g2), (cx + hw + g1, cy - hh - g2), (cx + hw + g1, cy + hh + g2), (cx - hw - g1, cy + hh + g2)])
    elif kind == 'through-rev':    # the same wrap, ending (not starting) in the hole; first vertex in the annulus
        B = ('LineString', [(cx - hw - g1, cy + hh + g2), (cx + hw + g1, cy + hh + g2), (cx + hw + g1, cy - hh - g2), (cx - hw - g1, cy - hh - g2), (cx + rng.randint(-hw + 1, hw - 1), cy)])
    elif kind == 'through-poly':   # an area whose first vertex is in the hole and whose boundary wraps round the hole
        B = ('Polygon', [[(cx, cy), (cx - 3 * hw, cy + 2 * hh), (cx - 3 * hw, cy - 3 * hh), (cx + 3 * hw, cy - 3 * hh), (cx + 3 * hw, cy + 3 * hh), (cx - 2 * hw, cy + 3 * hh), (cx, cy)]])
    elif kind == 'zigzag':         # starts in the hole, leaves it, wraps round it
        B = ('LineString', [(cx + rng.randint(-hw + 1, hw - 1), cy), (cx, cy - hh - g1), (cx + hw + g2, cy - hh - g1), (cx + hw + g2, cy + hh + g1)])
    elif kind == 'diamond-ring':   # a closed line around the hole in the annulus: hole ring inside its envelope, never touched
        a = 2 * hw + g1; b = 2 * hh + g2
        B = ('LineString', [(cx - a, cy), (cx, cy - b), (cx + a, cy), (cx, cy + b), (cx - a, cy)])
    elif kind == 'diamond-poly':   # an area covering the hole (distance 0 through the hole ring vertices / the annulus)
        a = 2 * hw + g1; b = 2 * hh + g2
        B = ('Polygon', [[(cx - a, cy), (cx, cy - b), (cx + a, cy), (cx, cy + b), (cx - a, cy)]])
    elif kind == 'c-shape':        # three sides round the hole
        B = ('LineString', [(cx + hw + g1, cy - hh - g2), (cx - hw - g1, cy - hh - g2), (cx - hw - g1, cy + hh + g2), (cx + hw + g1, cy + hh + g2)])
    elif kind == 'inside-cross':   # inside the hole, a cross hugging the ring (positive distance g/… from it) -- envelope inside the hole
        B = ('MultiLineString', [('LineString', [(cx - hw + g1, cy), (cx + hw - g1, cy)]), ('LineString', [(cx, cy - hh + g2), (cx, cy + hh - g2)])])
    elif kind == 'inside-poly':    # a polygon inside the hole
        B = ('Polygon', [G.rect_ring(cx - hw + g1, cy - hh + g2, cx + hw - g1, cy + hh - g2)])
    else:                          # a polygon with its own hole around A's hole: A's hole ring lies inside B's hole (positive distance)
        o1 = 2 * hw + 2; o2 = 2 * hh + 2
        B = ('Polygon', [G.rect_ring(cx - o1 - 2, cy - o2 - 2, cx + o1 + 2, cy + o2 + 2), G.rect_ring(cx - hw - g1, cy - hh - g2, cx + hw + g1, cy + hh + g2)[::-1]])
    tag = 'hole-around-' + kind
    r = rng.random()
    if r < 0.15:
        A = ('MultiPolygon', [A])
    elif r < 0.3:
        A = ('GeometryCollection', [A])
    if rng.random() < 0.5:
        A, B = B, A
    return A, B, tag


def gen_mixed_collection(rng):
    """a polygonal operand (the prepared variants prepare each side in turn) against a MIXED-dimension GEOMETRYCOLLECTION: one areal
    element plus point / line elements, exactly one of which interacts with the polygon (contains it, lies in it, crosses it, touches
    it) while the others are far away; or none interacts and the nearest element is a point, a line or the area"""
    W = rng.randint(3, 10) * 2; H = rng.randint(3, 10) * 2
    P = ('Polygon', [G.rect_ring(0, 0, W, H)] + ([G.rect_ring(W // 2 - 1, H // 2 - 1, W // 2 + 1, H // 2 + 1)[::-1]] if rng.random() < 0.3 and W >= 8 and H >= 8 else []))
    far = lambda i: (200 + 40 * i, 300 + 25 * i)
    fpt = lambda i: ('Point', far(i))
    fline = lambda i: ('LineString', [far(i), (far(i)[0] + rng.randint(1, 9), far(i)[1] + rng.randint(-5, 5))])
    farea = lambda i: ('Polygon', [G.rect_ring(far(i)[0], far(i)[1], far(i)[0] + rng.randint(2, 9), far(i)[1] + rng.randint(2, 9))])
    kind = rng.choice(['area-contains', 'area-contains', 'area-contains-holed', 'point-inside', 'line-crosses', 'line-inside', 'area-touches',
                       'area-overlaps', 'disjoint-near-point', 'disjoint-near-line', 'disjoint-near-area', 'in-hole-of-area'])
    g = rng.randint(1, 4)
    if kind == 'area-contains':          # the polygon strictly inside the areal element; point / line elements elsewhere
        els = [('Polygon', [G.rect_ring(-g - 3, -g - 2, W + g + 2, H + g + 4)]), fpt(0), fline(1)]
    elif kind == 'area-contains-holed':  # ... the areal element has a hole elsewhere
        els = [('Polygon', [G.rect_ring(-g - 12, -g - 2, W + g + 2, H + g + 4), G.rect_ring(-g - 10, 0, -g - 5, 3)[::-1]]), fline(0)]
    elif kind == 'point-inside':
        els = [farea(0), ('Point', (1, H - 1)), fline(1)]
    elif kind == 'line-crosses':
        els = [farea(0), fpt(1), ('LineString', [(-g, H // 2 if P[1][1:] == [] else 1), (W + g, H // 2 + 1 if P[1][1:] == [] else 1)])]
    elif kind == 'line-inside':          # first vertex of the line is inside the polygon
        els = [farea(0), ('LineString', [(1, 1), (2, 1), (W - 1, 1)]), fpt(1)]
    elif kind == 'area-touches':
        els = [fpt(0), ('Polygon', [G.rect_ring(W, 1, W + g + 2, H + 3)]), fline(1)]
    elif kind == 'area-overlaps':
        els = [fline(0), ('Polygon', [G.rect_ring(W - 1, H - 1, W + g + 2, H + g + 2)]), fpt(1)]
    elif kind == 'disjoint-near-point':
        els = [farea(0), ('Point', (W + g, H + g)), fline(1)]
    elif kind == 'disjoint-near-line':
        els = [farea(0), fpt(1), ('LineString', [(W + g, -3), (W + g + 2, H + 5)])]
    elif kind == 'disjoint-near-area':
        els = [fpt(0), fline(1), ('Polygon', [G.rect_ring(W + g, -1, W + g + 5, H // 2)])]
    else:                                # the polygon inside a HOLE of the areal element: positive distance to the hole ring
        els = [('Polygon', [G.rect_ring(-20, -20, W + 20, H + 20), G.rect_ring(-g - 1, -g - 2, W + g + 1, H + g + 2)[::-1]]), fpt(0), fline(1)]
    rng.shuffle(els)
    if rng.random() < 0.25:
        els.insert(rng.randint(0, len(els)), rng.choice([('Point', None), ('LineString', []), ('Polygon', [])]))
    if rng.random() < 0.2:               # nested
        els = [els[0], ('GeometryCollection', els[1:])]
    C = ('GeometryCollection', els)
    A = P if rng.random() < 0.7 else ('MultiPolygon', [P, farea(5)])
    if rng.random() < 0.5:
        return C, A, 'mixed-' + kind
    return A, C, 'mixed-' + kind


def gen_exact(rng):
    """integer-grid operands whose distance is exactly representable and attained (axis-parallel gap, 3-4-5 offset, touching or
    crossing at 0), built from long lines (8-40 vertices), multi-component geometries and polygons with >= 12 vertices, so that the
    facet trees have composite roots and `within(v)` at the bit-exact distance goes through the tree expansion.
    A lives in x <= 0, y <= 0 with the corner (0,0) and the edge (0,0)-(0,-h) on its right side; B is a first-quadrant shape with its
    only vertex of abscissa 0 at its origin, placed at an offset."""
    h = rng.randint(2, 6) * 2

    def shape_a():
        k = rng.choice(['long', 'poly', 'multiline', 'multipoly'])
        if k == 'long':
            n = rng.randint(6, 38)
            return ('LineString', [(0, -h), (0, 0)] + [(-i, -((i * 3) % 5) - (1 if i % 2 else 0)) for i in range(1, n + 1)])
        if k == 'poly':
            m = rng.randint(5, 14)
            chain = []
            for i in range(1, m + 1):
                chain += [(-i, -h), (-i, -h - 1)] if i % 2 else [(-i, -h - 1), (-i, -h)]
            return ('Polygon', [[(0, 0), (0, -h)] + chain + [(-m - 1, chain[-1][1]), (-m - 1, 0), (0, 0)]])
        if k == 'multiline':
            return ('MultiLineString', [('LineString', [(0, -h), (0, 0), (-1, 0)])] +
                    [('LineString', [(-3 * j - 2, -rng.randint(0, 9)), (-3 * j - 3, -rng.randint(0, 9)), (-3 * j - 4, -rng.randint(0, 9))]) for j in range(rng.randint(1, 5))])
        return ('MultiPolygon', [('Polygon', [G.rect_ring(-2, -h, 0, 0)])] + [('Polygon', [G.rect_ring(-5 * j - 6, -4, -5 * j - 4, -1)]) for j in range(rng.randint(1, 4))])

    def shape_b():
        k = rng.choice(['long', 'poly', 'multiline', 'multipoint', 'short'])
        if k == 'long':
            return ('LineString', [(0, 0)] + [(i, (i * 2) % 7 + (i % 2)) for i in range(1, rng.randint(8, 40))])
        if k == 'poly':
            m = rng.randint(5, 14)
            chain = []
            for i in range(1, m + 1):
                chain += [(i, 6), (i, 7)] if i % 2 else [(i, 7), (i, 6)]
            return ('Polygon', [[(0, 0), (m + 1, 1), (m + 1, chain[-1][1])] + list(reversed(chain)) + [(1, 5), (0, 0)]])
        if k == 'multiline':
            return ('MultiLineString', [('LineString', [(0, 0), (2, 1)])] + [('LineString', [(3 * j + 3, rng.randint(0, 9)), (3 * j + 4, rng.randint(0, 9))]) for j in range(rng.randint(1, 5))])
        if k == 'multipoint':
            return ('MultiPoint', [('Point', (0, 0))] + [('Point', (rng.randint(1, 30), rng.randint(0, 30))) for _ in range(rng.randint(2, 12))])
        return ('LineString', [(0, 0), (3, 2)])
    A = shape_a(); B = shape_b()
    kind = rng.choice(['gap', 'gap', '345', '345', 'touch-vertex', 'touch-edge', 'cross'])
    if kind == 'gap':
        g = rng.randint(1, 12); off = (g, -rng.randint(1, h - 1))
    elif kind == '345':
        k = rng.randint(1, 4); t = rng.choice([(3, 4), (4, 3), (5, 12), (8, 15)]); off = (t[0] * k, t[1] * k)
    elif kind == 'touch-vertex':
        off = (0, 0)
    elif kind == 'touch-edge':
        off = (0, -rng.randint(1, h - 1))
    else:
        off = (-1, -rng.randint(1, h - 1))
        B = ('LineString', [(0, 0), (3, 0)] + [(3 + i, (i * 2) % 7) for i in range(1, rng.randint(6, 30))])       # crosses the edge x = 0 of A
    B = G.map_coords(B, lambda q: (q[0] + off[0], q[1] + off[1]))
    if rng.random() < 0.5:
        A, B = B, A
    return A, B, 'exact-' + kind


def gen_pair(rng, quick):
    """-> (tag, A, B) on the integer grid (before the coordinate transform)"""
    R = rng.choice([6, 20, 20, 60])
    k = rng.random()
    pre = rng.random()
    if pre < 0.08:
        A, B, tag = gen_hole_around(rng)
        k = 2.0
    elif pre < 0.15:
        A, B, tag = gen_mixed_collection(rng)
        k = 2.0
    elif pre < 0.24:
        A, B, tag = gen_exact(rng)
        k = 2.0
    elif k < 0.22:
        A = G.gen_geom(rng, R); B = G.gen_geom(rng, R); tag = 'random'
    elif k < 0.42:
        A = G.gen_geom(rng, R); B = G.derive(rng, A, R); tag = 'derived'
    elif k < 0.54:
        A = G.gen_geom(rng, R); B = G.gen_geom(rng, R)
        dx, dy = rng.choice([(1, 0), (0, 1), (1, 1), (-1, 2)]); s = rng.choice([3 * R, 10 * R, 1000 * R])
        B = G.map_coords(B, lambda p: (p[0] + dx * s, p[1] + dy * s)); tag = 'far'
    elif k < 0.70:
        # containment: something strictly inside a polygon's interior, or inside its hole
        W = rng.randint(8, 40); Hh = rng.randint(8, 40)
        rings = [G.rect_ring(0, 0, 3 * W, 3 * Hh)]
        hole = rng.random() < 0.5
        if hole:
            rings.append(G.rect_ring(W, Hh, 2 * W, 2 * Hh)[::-1])
        A = ('Polygon', rings)
        inner = G.gen_atom(rng, max(1, min(W, Hh) // 3 - 1))
        where = rng.choice(['hole', 'annulus']) if hole else 'interior'
        if where == 'hole':
            cx, cy = W + W // 2, Hh + Hh // 2
        elif where == 'annulus':
            cx, cy = W // 2, Hh // 2
        else:
            cx, cy = W + W // 2, Hh + Hh // 2
        x0, y0, x1, y1 = bbox(inner) if not G.is_empty(inner) else (0, 0, 0, 0)
        # shrink into a box of half-width min(W,Hh)//2 - 1 round (cx, cy)
        hw = max(1, min(W, Hh) // 2 - 1)
        sc = max(1, max(x1 - x0, y1 - y0, 1))
        inner = G.map_coords(inner, lambda p: (cx - hw // 2 + (p[0] - x0) * hw // sc, cy - hw // 2 + (p[1] - y0) * hw // sc))
        if inner[0] == 'Polygon' and inner[1]:
            rr = [r for r in inner[1] if len(set(r)) >= 3]
            inner = ('Polygon', rr[:1]) if rr else ('Point', (cx, cy))
        if inner[0] == 'Polygon' and rng.random() < 0.3 and not hole:
            # the outer polygon inside the hole of a bigger one
            big = ('Polygon', [G.rect_ring(-5 * W, -5 * Hh, 8 * W, 8 * Hh), G.rect_ring(-W, -Hh, 4 * W, 4 * Hh)[::-1]])
            A, inner = big, A
            where = 'in-hole-of-big'
        B = inner; tag = 'contain-' + where
        if rng.random() < 0.5:
            A, B = B, A
    elif k < 0.80:
        # collinear / parallel segments: overlap, touching ends, gap, shifted
        ux, uy = rng.choice([(1, 0), (0, 1), (1, 1), (2, 1), (3, -2), (5, 7)])
        a0 = rng.randint(-5, 5); a1 = a0 + rng.randint(1, 8)
        b0 = rng.choice([a0, a1, a1 + rng.randint(1, 5), a0 - rng.randint(2, 9), a0 + 1, a0 - 1]); b1 = b0 + rng.randint(0, 9)
        sh = rng.choice([0, 0, 1, 3])
        nx, ny = -uy, ux
        A = ('LineString', [(a0 * ux, a0 * uy), (a1 * ux, a1 * uy)])
        B = ('LineString', [(b0 * ux + sh * nx, b0 * uy + sh * ny), (b1 * ux + sh * nx, b1 * uy + sh * ny)])
        if rng.random() < 0.3:
            B = ('Point', B[1][0])
        tag = 'collinear' if sh == 0 else 'parallel'
    elif k < 0.92:
        # T-junctions and near misses: a vertex of B on (or one grid step off) the interior of a segment of A
        A = G.gen_line(rng, R, n=rng.randint(2, 4)) if rng.random() < 0.6 else G.gen_polygon(rng, R)
        pts = G.all_points(A)
        i = rng.randrange(len(pts) - 1)
        p, q = pts[i], pts[i + 1]
        m = rng.randint(1, 7)
        t = (p[0] * (8 - m) + q[0] * m, p[1] * (8 - m) + q[1] * m)          # on pq, in coordinates multiplied by 8
        A = G.map_coords(A, lambda c: (c[0] * 8, c[1] * 8))
        off = rng.choice([(0, 0), (0, 0), (1, 0), (0, -1), (1, 1)])
        t = (t[0] + off[0], t[1] + off[1])
        far = (t[0] + rng.randint(-40, 40), t[1] + rng.randint(-40, 40))
        B = rng.choice([('Point', t), ('LineString', [t, far]), ('LineString', [far, t, (far[0] + 7, far[1] - 3)])])
        tag = 'tjunction' if off == (0, 0) else 'nearmiss'
    elif k < 0.96:
        # many small components: one facet sequence each, so the packed R-trees of IndexedFacetDistance / MinimumClearance get
        # two or three levels while the oracle stays cheap
        def many(cx, cy):
            m = rng.randint(11, 45); S = rng.choice([30, 100, 400])
            if rng.random() < 0.5:
                return ('MultiPoint', [('Point', (cx + rng.randint(-S, S), cy + rng.randint(-S, S))) for _ in range(m)])
            return ('MultiLineString', [G.gen_line(rng, 4, cx + rng.randint(-S, S), cy + rng.randint(-S, S), n=rng.randint(2, 3)) for _ in range(m)])
        A = many(0, 0)
        B = many(rng.choice([0, 50, 300]), rng.choice([0, 40])) if rng.random() < 0.7 else G.gen_geom(rng, 30)
        tag = 'many'
    else:
        n = rng.randint(14, 45) if quick else rng.randint(30, 100)
        mk = lambda cx, cy: (gen_big_line(rng, n, 12, cx, cy) if rng.random() < 0.6 else gen_big_poly(rng, n, 40 + n, cx, cy))
        A = mk(0, 0); B = mk(rng.choice([0, 30, 150, 400]), rng.choice([0, 20, 100]))
        tag = 'big'
    if k == 2.0:
        pass
    elif rng.random() < 0.18 and not G.is_empty(A):
        A = with_empties(rng, A); tag += '+empty'
    if rng.random() < 0.18 and not G.is_empty(B):
        B = with_empties(rng, B); tag += '+empty'
    return tag, A, B


def transform_pair(rng, A, B, tag=''):
    k = rng.random()
    if tag.startswith('exact-'):
        return 'grid', A, B          # the point of this family: every intermediate quantity of the implementation is exact
    if k < 0.3:
        return 'grid', A, B
    if k < 0.65 and all(halfint(p) for p in G.all_points(A) + G.all_points(B)):
        try:
            f = tr_dyadic(rng)
            return 'dyadic', G.map_coords(A, f), G.map_coords(B, f)
        except AssertionError:
            return 'grid', A, B
    f = tr_float(rng)
    return 'float', G.map_coords(A, f), G.map_coords(B, f)


# ------------------------------------------------------------------------------------------------ exact comparison
STATS = {'max_round_ratio': 0.0, 'max_np_ratio': 0.0}


def fsqrt(D):
    """sqrt of a non-negative rational to ~100 bits (used only for reporting, never for a verdict)"""
    return Fraction(math.isqrt(int(D * (1 << 200))), 1 << 100)


def accept(vhex, D, tau):
    """-> 'ok' | 'round' (outside the property's bound but inside the rounding envelope tau) | 'bad'"""
    if vhex in ('EXC', None):
        return 'bad'
    v = unhex(vhex)
    if D is None:
        return 'ok' if v == math.inf else 'bad'
    if math.isnan(v) or v < 0 or math.isinf(v):
        return 'bad'
    V = Fraction(v)
    if D == 0:
        if v != 0 and V <= tau:
            STATS['max_round_ratio'] = max(STATS['max_round_ratio'], float(V / tau * ROUND_C))
        return 'ok' if v == 0 else ('round' if V <= tau else 'bad')
    if v != 0 and abs(V * V - D) <= REL * D:
        return 'ok'
    lo = max(V - tau, 0); hi = V + tau
    if lo * lo <= D <= hi * hi:
        STATS['max_round_ratio'] = max(STATS['max_round_ratio'], float(abs(V - fsqrt(D)) / tau * ROUND_C))
        return 'round'
    return 'bad'


def float_hex(v):
    return struct.pack('>d', v).hex()


def rat(tok, K, n=1):
    """driver token num/den in units of 2^-K (times n) -> exact squared distance"""
    if tok == 'none':
        return None
    a, b = tok.split('/')
    return Fraction(int(a), int(b)) / (Fraction(4) ** K) / (n * n)


def has_zero_length_line(g):
    return any(a[0] == 'LineString' and len(a[1]) >= 2 and all(p == a[1][0] for p in a[1]) for a in G.atoms(g))


def empty_not_last(g):
    """a collection (at any depth) with an EMPTY element that is followed by a non-empty one"""
    t, d = g
    if t in ('Point', 'LineString', 'Polygon'):
        return False
    seen_empty = False
    for x in d:
        if G.is_empty(x):
            seen_empty = True
        elif seen_empty:
            return True
        if empty_not_last(x):
            return True
    return False


def has_empty_elem(g):
    t, d = g
    if t in ('Point', 'LineString', 'Polygon'):
        return False
    return any(G.is_empty(x) or has_empty_elem(x) for x in d)


def topdim(g):
    at = [a for a in G.atoms(g) if not G.is_empty(a)]
    return max([{'Point': 0, 'LineString': 1, 'Polygon': 2}[a[0]] for a in at] or [-1])


class Case:
    __slots__ = ('idx', 'tag', 'tr', 'A', 'B', 'frac', 'n', 'impl', 'K', 'K0', 'M', 'extra', 'reqs', 'reqs2', 'model', 'model2')


def mk_case(idx, tag, tr, A, B, rng):
    c = Case(); c.idx = idx; c.tag = tag; c.tr = tr; c.A = A; c.B = B
    c.frac, c.n = rng.choice([(1.0, 1), (0.5, 2), (0.25, 4), (0.3, 3), (0.1, 10)])
    if tag.startswith('big'):
        c.frac, c.n = rng.choice([(1.0, 1), (0.5, 2)])
    return c


def margin_of(c):
    """a threshold offset far outside the rounding envelope (2^-20 of the largest |ordinate|): within(v + margin) must hold, within(v - margin) must not"""
    return math.ldexp(max([abs(float(v)) for p in G.all_points(c.A) + G.all_points(c.B) for v in p] + [1e-300]), -20)


def harness_line(c, skip=''):
    return ('c%d %s %s %r %r %s' % (c.idx, wkb(c.A).hex(), wkb(c.B).hex(), c.frac, margin_of(c), skip)).rstrip()


# exact helpers used ONLY to decide whether a rounding excuse is admissible (never for a verdict on a value)
def _pt_seg2(p, a, b):
    dx, dy = b[0] - a[0], b[1] - a[1]
    l2 = dx * dx + dy * dy
    t = (p[0] - a[0]) * dx + (p[1] - a[1]) * dy
    if t <= 0:
        return (p[0] - a[0]) ** 2 + (p[1] - a[1]) ** 2
    if t >= l2:
        return (p[0] - b[0]) ** 2 + (p[1] - b[1]) ** 2
    cr = dx * (p[1] - a[1]) - dy * (p[0] - a[0])
    return cr * cr / l2


def _seg_seg2(a, b, c, d):
    o = lambda p, q, r: (q[0] - p[0]) * (r[1] - p[1]) - (q[1] - p[1]) * (r[0] - p[0])
    o1, o2, o3, o4 = o(a, b, c), o(a, b, d), o(c, d, a), o(c, d, b)
    if o1 * o2 < 0 and o3 * o4 < 0:
        return Fraction(0)
    return min(_pt_seg2(c, a, b), _pt_seg2(d, a, b), _pt_seg2(a, c, d), _pt_seg2(b, c, d))


def _facets(g):
    out = []
    F = lambda p: (Fraction(float(p[0])), Fraction(float(p[1])))
    for a in G.atoms(g):
        if G.is_empty(a):
            continue
        if a[0] == 'Point':
            out.append((F(a[1]), F(a[1])))
        else:
            for seq in ([a[1]] if a[0] == 'LineString' else a[1]):
                q = [F(p) for p in seq]
                out += list(zip(q, q[1:])) if len(q) > 1 else [(q[0], q[0])]
    return out


def connected_linework(g):
    """IndexedFacetDistance.cpp hasConnectedLinework: point, line, polygon without holes, possibly in one-element collections"""
    t, d = g
    if t in ('Point', 'LineString'):
        return True
    if t == 'Polygon':
        return len(d) <= 1
    return len(d) == 1 and connected_linework(d[0])


def envelope_heuristic_dist2(prep, other):
    """exact squared distance from the linework of prep to the boundary of the envelope of other, when
    IndexedFacetDistance::isWithinDistance uses it as an early rejection; None when it does not"""
    if not connected_linework(prep) or env_contains(other, prep):
        return None
    x0, y0, x1, y1 = [Fraction(float(v)) for v in bbox(other)]
    rect = [((x0, y0), (x1, y0)), ((x1, y0), (x1, y1)), ((x1, y1), (x0, y1)), ((x0, y1), (x0, y0))]
    return min(_seg_seg2(f[0], f[1], e[0], e[1]) for f in _facets(prep) for e in rect)


def single_but_disconnected(g):
    """getNumGeometries() == 1 although the linework has several pieces: a polygon with holes, or a one-element collection of such / of a multi"""
    t, d = g
    if t == 'Polygon':
        return len(d) > 1
    if t in ('Point', 'LineString'):
        return False
    if len(d) != 1:
        return False
    x = d[0]
    if x[0] in ('Point', 'LineString'):
        return False
    if x[0] == 'Polygon':
        return len(x[1]) > 1
    return len([a for a in G.atoms(x) if not G.is_empty(a)]) > 1 or single_but_disconnected(x)


def env_contains(g_outer, g_inner):
    a = bbox(g_outer); b = bbox(g_inner)
    return a[0] <= b[0] and a[1] <= b[1] and b[2] <= a[2] and b[3] <= a[3]


PT_KEYS = ['np_ab', 'np_ba', 'pnp_ab', 'pnp_ba']


def driver_lines(c):
    """needs c.impl. Two lines: the distances of the pair at the scale of its own ordinates (K0), and the checks of the returned
    nearest points (extra points) at the finer scale K their ordinates need. Both lines are translated by the lower left corner."""
    pts = G.all_points(c.A) + G.all_points(c.B)
    vals = [v for p in pts for v in p]
    extra = []; c.extra = {}
    for key in PT_KEYS:
        s = c.impl.get(key)
        if s and s not in ('NULL', 'EXC') and len(s.split(':')) == 4:
            xs = [unhex(t) for t in s.split(':')]
            if all(math.isfinite(x) for x in xs):
                c.extra[key] = len(extra)
                extra += [(xs[0], xs[1]), (xs[2], xs[3])]
    c.K0 = max([k_of(v) for v in vals] + [0])
    c.K = max([k_of(v) for p in extra for v in p] + [c.K0])
    c.M = max([abs(float(v)) for v in vals] + [1e-300])
    nfac = lambda g: sum(max(1, len(a[1]) - 1) if a[0] == 'LineString' else (sum(max(1, len(r) - 1) for r in a[1]) if a[0] == 'Polygon' else 1)
                         for a in G.atoms(g) if not G.is_empty(a))
    reqs = ['FD'] + (['DT'] if nfac(c.A) * nfac(c.B) <= 600 else []) + ['MA', 'MB', 'H 1', 'R 1']
    if c.n != 1:
        reqs += ['H %d' % c.n, 'R %d' % c.n]
    reqs2 = []
    for key in PT_KEYS:
        if key in c.extra:
            i = c.extra[key]
            first_on_a = key.endswith('_ab')
            reqs2 += ['NA %d' % i if first_on_a else 'NB %d' % i, 'NB %d' % (i + 1) if first_on_a else 'NA %d' % (i + 1), 'PP %d %d' % (i, i + 1)]
    c.reqs = reqs; c.reqs2 = reqs2
    out = []
    for K, rq, ex in ((c.K0, reqs, []), (c.K, reqs2, extra)):
        sc = lambda v: int(Fraction(float(v)) * (1 << K))
        off = (min(sc(p[0]) for p in pts), min(sc(p[1]) for p in pts))
        out.append('%s | %s | %s | %s' % (' '.join(rq), zgeom(c.A, K, off), zgeom(c.B, K, off),
                                        ' '.join('%d %d' % (sc(x) - off[0], sc(y) - off[1]) for x, y in ex)))
    return out


def evaluate(c):
    """-> list of (clause, status, detail); status in ok / known:<id> / viol"""
    res = []
    if c.model is None or c.model.startswith(('ERR', 'CRASH', 'TIMEOUT', '?')):
        return [('model', 'viol', 'the oracle did not answer: %s' % str(c.model)[:200])]
    if c.reqs2 and (c.model2 is None or c.model2.startswith(('ERR', 'CRASH', 'TIMEOUT', '?'))):
        return [('model', 'viol', 'the oracle did not answer: %s' % str(c.model2)[:200])]
    m = {}
    it = iter(c.model.split(' '))
    for r in c.reqs:
        if r == 'FD':
            m['F'] = next(it, 'none'); m['D'] = next(it, 'none')
        else:
            m[r] = next(it, 'none')
    it = iter((c.model2 or '').split(' '))
    for r in c.reqs2:
        m[r] = next(it, 'none')
    K = c.K0
    D = rat(m['D'], K); DT = rat(m['DT'], K) if 'DT' in m else D; Fc = rat(m['F'], K)
    tau = Fraction(ROUND_C) * Fraction(c.M) / (1 << 52)
    if D != DT:
        res.append(('model-symmetry', 'viol', 'oracle dist2 A B = %s but dist2 B A = %s' % (D, DT)))
    im = c.impl
    small_grid = all(float(v) == int(v) and abs(v) <= 2 ** 20 for p in G.all_points(c.A) + G.all_points(c.B) for v in p)
    zl = has_zero_length_line(c.A) or has_zero_length_line(c.B)

    def value(clause, key, target, known_inf=None):
        st = accept(im.get(key), target, tau)
        if st == 'ok':
            res.append((clause, 'ok', '')); return
        got = im.get(key); gv = unhex(got) if got not in ('EXC', None) else got
        det = '%s returned %r, exact squared distance %s (sqrt ~ %.17g)' % (key, gv, target, math.sqrt(target) if target is not None else float('inf'))
        if st == 'round':
            res.append((clause, 'known:C08-K1', det)); return
        if known_inf and zl and isinstance(gv, float) and (gv == math.inf or gv * gv > float(target or 0)):
            res.append((clause, 'known:' + known_inf, det)); return
        res.append((clause, 'viol', det))

    # 1. distance, both argument orders; symmetry
    value('distance', 'd_ab', D); value('distance', 'd_ba', D)
    if im.get('d_ab') != im.get('d_ba'):
        sa, sb = accept(im.get('d_ab'), D, tau), accept(im.get('d_ba'), D, tau)
        res.append(('symmetry', 'known:C08-K1' if 'bad' not in (sa, sb) else 'viol', 'distance(A,B)=%s distance(B,A)=%s' % (im.get('d_ab'), im.get('d_ba'))))
    else:
        res.append(('symmetry', 'ok', ''))
    # 2. indexed facet distance = distance between the boundaries / linework
    value('indexed', 'i_ab', Fc, 'C08-K3'); value('indexed', 'i_ba', Fc, 'C08-K3')
    # 3. prepared distance
    value('prepared', 'p_ab', D, 'C08-K3'); value('prepared', 'p_ba', D, 'C08-K3')
    # 4. nearest points
    tnp = NP_REL * Fraction(c.M)
    if '_crash_pnp' in im:
        res.append(('crash', 'known:C08-K3' if zl else 'viol', 'GEOSPreparedNearestPoints_r crashed: %s' % im['_crash_pnp'][:200]))
    for key in PT_KEYS:
        s = im.get(key)
        if '_crash_pnp' in im and key.startswith('pnp'):
            continue
        if key not in c.extra:
            res.append(('nearest-' + key, 'viol', '%s returned %s for non-empty inputs' % (key, s))); continue
        first_on_a = key.endswith('_ab')
        i = c.extra[key]
        on0 = rat(m['NA %d' % i if first_on_a else 'NB %d' % i], c.K)
        on1 = rat(m['NB %d' % (i + 1) if first_on_a else 'NA %d' % (i + 1)], c.K)
        pp = rat(m['PP %d %d' % (i, i + 1)], c.K)
        vkey = {'np_ab': 'd_ab', 'np_ba': 'd_ba', 'pnp_ab': 'p_ab', 'pnp_ba': 'p_ba'}[key]
        bad = []
        for o_ in (on0, on1):
            if o_ is not None and o_ > 0:
                STATS['max_np_ratio'] = max(STATS['max_np_ratio'], float(fsqrt(o_) / Fraction(c.M) * (1 << 52)))
        if on0 is None or on0 > tnp * tnp: bad.append('first point is at squared distance %s from its geometry' % on0)
        if on1 is None or on1 > tnp * tnp: bad.append('second point is at squared distance %s from its geometry' % on1)
        v = im.get(vkey)
        if v not in ('EXC', None) and math.isfinite(unhex(v)):
            V = Fraction(unhex(v))
            lo = max(V - tnp, 0); hi = V + tnp
            if not (lo * lo <= pp <= hi * hi):
                bad.append('the points are sqrt(%s) ~ %.17g apart but the distance returned is %r' % (pp, math.sqrt(pp), unhex(v)))
        if not bad:
            res.append(('nearest-' + key, 'ok', ''))
        else:
            kn = None
            if key.startswith('pnp'):
                prep, other = (c.A, c.B) if first_on_a else (c.B, c.A)
                if topdim(prep) == 1 and topdim(other) == 2 and D == 0 and Fc is not None and Fc > 0:
                    kn = 'C08-K4'
                elif zl and prep[0] in ('Polygon', 'MultiPolygon', 'LineString', 'MultiLineString') and all(b.startswith('the points are') for b in bad):
                    kn = 'C08-K3'                      # the points are on the geometries; the prepared distance they are compared with is the wrong one
            res.append(('nearest-' + key, 'known:' + kn if kn else 'viol', '%s=%s: %s' % (key, s, '; '.join(bad))))
    # 5. within-distance: at v, prev(v), next(v), 0, 2v, +inf, v + margin, v - margin
    for wkey, vkey in [('w_ab', 'd_ab'), ('w_ba', 'd_ba'), ('pw_ab', 'p_ab'), ('pw_ba', 'p_ba')]:
        v = im.get(vkey)
        if v in ('EXC', None):
            continue
        vv = unhex(v)
        if not math.isfinite(vv):
            continue
        exp = '101' + ('1' if vv == 0 else '0') + '11' + '10'
        got = im.get(wkey)
        if got == exp:
            res.append(('within', 'ok', ''))
        else:
            prep = c.A if wkey.endswith('_ab') else c.B
            pkind = 'plain' if wkey.startswith('w_') else ('basic' if prep[0] in ('Point', 'MultiPoint', 'GeometryCollection') else 'indexed')
            plain = im.get('d_ab' if wkey.endswith('_ab') else 'd_ba')
            a0, a1 = (c.A, c.B) if wkey.endswith('_ab') else (c.B, c.A)
            mg = margin_of(c)
            ths = [vv, math.nextafter(vv, -math.inf), math.nextafter(vv, math.inf), 0.0, 2 * vv, math.inf, vv + mg, vv - mg]
            kinds = set()

            def heuristic_may_flip(pg, og, t):
                # an exact distance on exact (small integer) input: the only rounding left in the prepared within test is the
                # early rejection against the other envelope's boundary (measured with the |s| sqrt(L2) formula); it can flip the
                # answer only when that bound itself lies inside the rounding envelope of the threshold
                hd = envelope_heuristic_dist2(pg, og)
                return hd is not None and max(Fraction(t) - tau, 0) ** 2 <= hd <= (Fraction(t) + tau) ** 2
            for j in range(8):
                if got is None or len(got) != 8 or got[j] == exp[j]:
                    if got is None or len(got) != 8: kinds.add('viol')
                    continue
                t = ths[j]
                if j == 1 and pkind == 'indexed' and vv == 0 and got[j] == '1':
                    kinds.add('known:C08-K5')          # negative threshold answered from the containment test
                elif pkind == 'basic' and plain not in ('EXC', None) and ((j == 1 and got[j] == '1' and unhex(plain) < vv) or (j == 0 and got[j] == '0' and unhex(plain) > vv)) \
                        and accept(plain, D, tau) != 'bad':
                    kinds.add('known:C08-K6')          # BasicPreparedGeometry: distance from the rounded nearest points, within from DistanceOp
                elif math.isfinite(t) and D is not None and (Fraction(vv) ** 2 != D or not small_grid or (pkind == 'indexed' and heuristic_may_flip(a0, a1, t))) and \
                        max(Fraction(t) - tau, 0) ** 2 <= D <= (Fraction(t) + tau) ** 2:
                    kinds.add('known:C08-K1')          # the returned distance is inexact, or the input is off the small grid, or the envelope heuristic's own bound lies in the envelope; and the threshold lies inside the rounding envelope
                elif pkind == 'indexed' and got[j] == '0' and single_but_disconnected(prep) and not env_contains(a1, a0) and D is not None \
                        and (math.isinf(t) or (Fraction(t) + tau) ** 2 >= D):
                    kinds.add('known:C08-K8')          # envelope heuristic of IndexedFacetDistance::isWithinDistance applied to disconnected linework
                else:
                    kinds.add('viol')
            st = 'viol' if 'viol' in kinds else sorted(kinds)[0]
            res.append(('within', st, '%s = %s at thresholds [v, prev v, next v, 0, 2v, inf, v+m, v-m] (m = 2^-20 max|ordinate|) with v = %s = %r; expected %s; exact squared distance %s' % (wkey, got, vkey, vv, exp, D)))
    # 6. minimum clearance
    value('minclearance', 'mc_a', rat(m['MA'], K)); value('minclearance', 'mc_b', rat(m['MB'], K))
    # 7. Hausdorff / Frechet
    H1 = rat(m['H 1'], K); R1 = rat(m['R 1'], K)

    def hval(clause, key, target):
        st = accept(im.get(key), target, tau)
        if st == 'ok':
            res.append((clause, 'ok', '')); return
        got = im.get(key); gv = unhex(got) if got not in ('EXC', None) else got
        det = '%s returned %r, exact squared value %s (sqrt ~ %.17g)' % (key, gv, target, math.sqrt(target) if target is not None else float('nan'))
        if st == 'round':
            res.append((clause, 'known:C08-K1', det)); return
        if clause == 'hausdorff' and (empty_not_last(c.A) or empty_not_last(c.B)) and isinstance(gv, float) and target is not None and gv * gv > float(target):
            res.append((clause, 'known:C08-K2', det)); return
        res.append((clause, 'viol', det))
    hval('hausdorff', 'h_ab', H1); hval('hausdorff', 'h_ba', H1)
    hval('frechet', 'f_ab', R1); hval('frechet', 'f_ba', R1)
    if c.n != 1:
        hval('hausdorff', 'hd_ab', rat(m['H %d' % c.n], K, c.n)); hval('frechet', 'fd_ab', rat(m['R %d' % c.n], K, c.n))
    else:
        hval('hausdorff', 'hd_ab', H1); hval('frechet', 'fd_ab', R1)
    return res


# ------------------------------------------------------------------------------------------------ running
def par_lines(ctx, argv, lines, timeout, nchunks=None):
    nchunks = nchunks or min(4 * NPROC, max(1, len(lines) // 8))      # short chunks: a time-out is per chunk
    idx = list(range(len(lines)))
    chunks = [idx[i::nchunks] for i in range(nchunks)]
    out = [None] * len(lines)

    def work(ch):
        r = ctx.run_lines(argv, [lines[i] for i in ch], timeout=timeout)
        for i, o in zip(ch, r):
            out[i] = o
    with ThreadPoolExecutor(max_workers=min(nchunks, NPROC)) as ex:
        list(ex.map(work, chunks))
    return out


def run_cases(ctx, hexe, drv, cases, timeout=1800):
    impl = par_lines(ctx, [hexe], [harness_line(c) for c in cases], timeout)
    for c, o in zip(cases, impl):
        c.impl = parse_impl(o) if o and not o.startswith(('CRASH', 'TIMEOUT')) and 'BADWKB' not in o else {'_raw': o}
    crashed = [c for c in cases if '_raw' in c.impl]
    if crashed:      # attribute a crash: retry without GEOSPreparedNearestPoints_r
        again = par_lines(ctx, [hexe], [harness_line(c, 'n') for c in crashed], timeout)
        for c, o in zip(crashed, again):
            if o and not o.startswith(('CRASH', 'TIMEOUT')) and 'BADWKB' not in o:
                raw = c.impl['_raw']; c.impl = parse_impl(o); c.impl['_crash_pnp'] = raw
    todo = [c for c in cases if '_raw' not in c.impl]
    lines = []
    for c in todo:
        l1, l2 = driver_lines(c)
        lines.append(l1)
        if c.reqs2:
            lines.append(l2)
    model = par_lines(ctx, [drv], lines, timeout) if drv else [None] * len(lines)
    it = iter(model)
    for c in todo:
        c.model = next(it); c.model2 = next(it) if c.reqs2 else None
    for c in cases:
        if '_raw' in c.impl:
            c.model = None; c.model2 = None; c.reqs2 = []


def shrink(ctx, hexe, drv, c, clause, rng):
    """drop collection elements and vertices while the same clause keeps failing"""
    def fails(A, B):
        if G.is_empty(A) or G.is_empty(B):
            return False
        d = mk_case(c.idx, c.tag, c.tr, A, B, random.Random(0)); d.frac, d.n = c.frac, c.n
        run_cases(ctx, hexe, drv, [d], timeout=60)
        if '_raw' in d.impl:
            return clause == 'crash'
        return any(cl == clause and st == 'viol' for cl, st, _ in evaluate(d))

    def variants(g):
        t, d = g
        if t == 'LineString':
            if len(d) > 2:
                for i in range(len(d)):
                    yield (t, d[:i] + d[i + 1:])
        elif t == 'Polygon':
            if len(d) > 1:
                for i in range(1, len(d)):
                    yield (t, d[:i] + d[i + 1:])
            for j, r in enumerate(d):
                if len(r) > 4:
                    for i in range(1, len(r) - 1):
                        yield (t, d[:j] + [r[:i] + r[i + 1:]] + d[j + 1:])
        elif t != 'Point':
            for i in range(len(d)):
                yield (t, d[:i] + d[i + 1:])
            if len(d) == 1:
                yield d[0]
            for i, x in enumerate(d):
                for v in variants(x):
                    yield (t, d[:i] + [v] + d[i + 1:])
    A, B = c.A, c.B
    budget = 80
    import time
    t_end = time.time() + 40          # shrinking is best effort and bounded in time
    try:
        progress = True
        while progress and budget > 0 and time.time() < t_end:
            progress = False
            for which in (0, 1):
                for v in variants(A if which == 0 else B):
                    budget -= 1
                    if budget <= 0 or time.time() > t_end:
                        break
                    na, nb = (v, B) if which == 0 else (A, v)
                    if fails(na, nb):
                        A, B = na, nb; progress = True
                        break
    except Exception:
        pass
    return A, B


def sections_tie(ctx, drv):
    """M: the facet sequence ranges of the model (DistDefs.sections, proved to cover every segment) against the ranges
    FacetSequenceTreeBuilder really builds; and the covering property decided directly on the implementation's ranges"""
    src = os.path.join(ROOT, 'harness/c08_sections.cpp')
    exe = os.path.join(BUILD, 'bin', 'c08_sections')
    if not ctx.cxx(src, exe, 'rel'):
        return
    ns = sorted(set(list(range(1, 80)) + [ctx.rng.randint(80, 3000) for _ in range(25)]))
    lines = ['S %d' % n for n in ns]
    impl = ctx.run_lines([exe], lines, timeout=120)
    model = ctx.run_lines([drv], lines, timeout=120)
    for n, a, b in zip(ns, impl, model):
        ctx.count(('sections', n), n >= 8)
        try:
            secs = [tuple(map(int, t.split(':'))) for t in a.split()]
        except ValueError:
            secs = None
        bad = None
        if secs is None:
            bad = 'implementation: %s' % a[:200]
        else:
            if any(not (0 <= s < e <= n) for s, e in secs):
                bad = 'a range is empty or outside the sequence'
            for k in range(n - 1):
                if not any(s <= k and k + 1 < e for s, e in secs):
                    bad = 'segment (%d,%d) is in no facet sequence' % (k, k + 1); break
            if n == 1 and secs != [(0, 1)]:
                bad = 'the single vertex is not covered'
        if bad:
            ctx.violation('sections_%d' % n, dict(points=n, implementation=a, model=b, why=bad, replay='echo "S %d" | %s' % (n, exe)),
                          msg='facet sequencing of a %d-point line: %s (ranges %s)' % (n, bad, a[:200]))
        elif a != b:
            ctx.broken.append(dict(kind='correspondence', name='facet sequence ranges n=%d' % n, detail='model %s\nimpl  %s' % (b, a)))
    ctx.notes['facet_sequence_sizes_checked'] = len(ns)


def run(ctx):
    ctx.cov['rule'] = ('pairs of non-empty geometries (points, lines, polygons with holes, multi-geometries, collections with EMPTY elements) in '
                       'random / derived-touching / far / containment (interior, hole, annulus) / in-and-around-a-hole / polygon-vs-mixed-dimension-collection / exactly-representable-distance on long and multi-component operands / collinear-parallel / T-junction / near-miss / '
                       'many-component and large (index pruning) configurations, on the integer grid, after an exact dyadic similarity (full mantissas, contacts stay exact) '
                       'or after an inexact affine map at several magnitudes; every entry point evaluated on each pair; non-trivial = at least one '
                       'segment on one side and the pair is not two single points; distinct by the WKB of the pair')
    ctx.assumptions += [
        'polygons are generated valid (distance between invalid areas is not defined by the property)',
        'binary64 ordinates are scaled per case by one power of two to integers (exact); the oracle works over Z and returns exact rationals',
        'the WKB reader builds the geometry it is given (C09) ; correspondence is sampled (generator quality bounds it)',
        'the oracle is evaluated on the case translated by its lower left corner (exact integer translation; squared distances and the even-odd location are translation invariant)',
        'nearest points are accepted when within 1e-9 x the largest |ordinate| of their geometry and of realising the returned distance',
        'known finding C08-K1 accepts values outside 1e-12 relative only inside the envelope |v - d| <= %d x 2^-52 x largest |ordinate|' % ROUND_C]
    ok_build = ctx.build_repo('rel')
    # tie G: the leaf distance functions are regenerated from /repo's Distance.cpp / Coordinate.h / Envelope.h now; a unit that no
    # longer translates, or a theorem of C08/GenDist.v that no longer holds of the regenerated text, takes the proof-broken path
    ctx.translate(GEN_UNITS)
    ok_coq, ax = ctx.coq_build('Properties_C08')
    drv = ctx.ocaml_driver('C08')
    hexe = os.path.join(BUILD, 'bin', 'c08')
    if not ok_build or not ctx.cxx(os.path.join(ROOT, 'harness/c08.cpp'), hexe, 'rel') or not drv:
        return
    sections_tie(ctx, drv)
    n = globals().get("N_OVERRIDE") or (800 if ctx.quick else 6000)
    rng = ctx.rng
    cases = []
    corpus = os.path.join(ROOT, 'gen/corpus/C08.txt')
    if os.path.exists(corpus):
        for l in open(corpus):
            l = l.strip()
            if l and not l.startswith('#'):
                a, b = l.split('|')
                cases.append(mk_case(len(cases), 'corpus', 'grid', parse_wkt(a), parse_wkt(b), rng))
    while len(cases) < n:
        tag, A, B = gen_pair(rng, ctx.quick)
        if G.is_empty(A) or G.is_empty(B):
            continue
        tr, A, B = transform_pair(rng, A, B, tag)
        cases.append(mk_case(len(cases), tag, tr, A, B, rng))
    ctx.log('%d cases generated' % len(cases))
    run_cases(ctx, hexe, drv, cases)
    ctx.log('implementation and oracle evaluated')
    dist = {'config': {}, 'transform': {}, 'types': {}, 'clauses': {}, 'zero_distance': 0, 'positive_distance': 0, 'known': {}}
    known_by_id = {k['id']: k for k in ctx.known if k.get('status') == 'known'}      # a fixed entry excuses nothing
    nviol = 0
    for c in cases:
        dist['config'][c.tag] = dist['config'].get(c.tag, 0) + 1
        dist['transform'][c.tr] = dist['transform'].get(c.tr, 0) + 1
        ty = c.A[0] + '/' + c.B[0]; dist['types'][ty] = dist['types'].get(ty, 0) + 1
        nontriv = (len(G.all_points(c.A)) > 1 or len(G.all_points(c.B)) > 1)
        if '_raw' in c.impl:
            ctx.count((wkb(c.A), wkb(c.B)), nontriv)
            ctx.violation('crash_%d' % c.idx, dict(A=G.to_wkt(c.A), B=G.to_wkt(c.B), implementation=c.impl['_raw'],
                                                   replay='echo "%s" | %s' % (harness_line(c), hexe)), msg='harness crashed / hung: %s' % str(c.impl['_raw'])[:200])
            nviol += 1
            continue
        res = evaluate(c)
        if c.model and not c.model.startswith(('ERR', '?')):
            if c.model.split(' ')[1].startswith('0/'): dist['zero_distance'] += 1
            else: dist['positive_distance'] += 1
        for clause, st, det in res:
            ctx.count((clause, wkb(c.A), wkb(c.B)), nontriv)
            d = dist['clauses'].setdefault(clause, {'ok': 0, 'known': 0, 'viol': 0})
            if st == 'ok':
                d['ok'] += 1
            elif st.startswith('known:'):
                kid = st[6:]
                d['known'] += 1
                dist['known'][kid] = dist['known'].get(kid, 0) + 1
                if kid in known_by_id:
                    ctx.known_hit(known_by_id[kid])
                    if dist['known'][kid] <= 2:
                        ctx.notes.setdefault('known_examples', []).append('%s: A=%s B=%s : %s' % (kid, G.to_wkt(c.A)[:300], G.to_wkt(c.B)[:300], det[:300]))
                else:
                    st = 'viol'      # the finding is not (or no longer: status fixed) registered as known: it is a violation
                    det = ('REGRESSION of the fixed finding %s: %s' if any(k['id'] == kid for k in ctx.known) else 'unregistered finding class %s: %s') % (kid, det)
            if st == 'viol':
                d['viol'] += 1
                nviol += 1
                if nviol <= 6:
                    sa, sb = shrink(ctx, hexe, drv, c, clause, rng) if clause != 'model' else (c.A, c.B)
                    sc = mk_case(c.idx, c.tag, c.tr, sa, sb, random.Random(0)); sc.frac, sc.n = c.frac, c.n
                    ctx.violation('%s_%d' % (clause, c.idx),
                                  dict(clause=clause, config=c.tag, transform=c.tr, A=G.to_wkt(c.A), B=G.to_wkt(c.B), densify_fraction=c.frac,
                                       shrunk_A=G.to_wkt(sa), shrunk_B=G.to_wkt(sb), implementation=c.impl, why=det,
                                       expected='exact oracle (coq/theories/C08/DistDefs.v): ' + det,
                                       replay='echo "%s" | %s' % (harness_line(sc), hexe)),
                                  msg='%s [%s/%s]: %s | shrunk: A=%s B=%s' % (clause, c.tag, c.tr, det[:300], G.to_wkt(sa)[:200], G.to_wkt(sb)[:200]))
    ctx.cov['traces_validated_against_impl'] = ctx.cov['evaluations']
    ctx.notes['distribution'] = dist
    ctx.notes['rounding'] = {'largest |v - d| seen inside the C08-K1 envelope, in units of 2^-52 x max|ordinate| (envelope = %d)' % ROUND_C: STATS['max_round_ratio'],
                             'largest distance of a returned nearest point from its geometry, in units of 2^-52 x max|ordinate| (accepted up to 1e-9 x 2^52)': STATS['max_np_ratio']}
    for c in cases[:4]:
        ctx.sample('%s/%s A=%s B=%s' % (c.tag, c.tr, G.to_wkt(c.A)[:150], G.to_wkt(c.B)[:150]))
    # generator self-check: every configuration class and both zero / positive distances must have been drawn
    for need in ['random', 'derived', 'far', 'contain', 'collinear', 'parallel', 'tjunction', 'nearmiss', 'hole-around', 'mixed-', 'exact-', 'many', 'big', '+empty']:
        if not any(need in t for t in dist['config']):
            ctx.broken.append(dict(kind='generator', name='distribution', detail='no %s configuration generated' % need))
    if dist['zero_distance'] == 0 or dist['positive_distance'] == 0:
        ctx.broken.append(dict(kind='generator', name='distribution', detail='zero / positive distances: %d / %d' % (dist['zero_distance'], dist['positive_distance'])))


def parse_wkt(s):
    """tiny reader for the corpus file (POINT / LINESTRING / POLYGON / MULTI* / GEOMETRYCOLLECTION with EMPTY)"""
    import re
    s = s.strip()
    toks = re.findall(r'[A-Za-z]+|\(|\)|,|[-+0-9.eE]+', s)
    pos = [0]

    def peek(): return toks[pos[0]] if pos[0] < len(toks) else None
    def nxt(): t = toks[pos[0]]; pos[0] += 1; return t
    def num(t): return int(t) if re.fullmatch(r'[-+]?\d+', t) else float(t)
    def pt(): x = num(nxt()); y = num(nxt()); return (x, y)
    def ptlist():
        assert nxt() == '('; out = [pt()]
        while peek() == ',': nxt(); out.append(pt())
        assert nxt() == ')'; return out
    def rings():
        assert nxt() == '('; out = [ptlist()]
        while peek() == ',': nxt(); out.append(ptlist())
        assert nxt() == ')'; return out
    def body(t):
        if peek().upper() == 'EMPTY':
            nxt(); return (t, None if t == 'Point' else [])
        if t == 'Point':
            assert nxt() == '('; p = pt(); assert nxt() == ')'; return (t, p)
        if t == 'LineString': return (t, ptlist())
        if t == 'Polygon': return (t, rings())
        assert nxt() == '('; out = []
        while True:
            if t == 'GeometryCollection': out.append(geom())
            else:
                sub = {'MultiPoint': 'Point', 'MultiLineString': 'LineString', 'MultiPolygon': 'Polygon'}[t]
                if sub == 'Point' and peek() not in ('(',) and peek().upper() != 'EMPTY':
                    out.append(('Point', pt()))
                else:
                    out.append(body(sub))
            if peek() == ',': nxt(); continue
            break
        assert nxt() == ')'; return (t, out)
    def geom():
        name = nxt().upper()
        t = {'POINT': 'Point', 'LINESTRING': 'LineString', 'POLYGON': 'Polygon', 'MULTIPOINT': 'MultiPoint', 'MULTILINESTRING': 'MultiLineString',
             'MULTIPOLYGON': 'MultiPolygon', 'GEOMETRYCOLLECTION': 'GeometryCollection'}[name]
        return body(t)
    return geom()
