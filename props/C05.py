"""C05 — isValid and isSimple decide the OGC rules exactly.

proof:  coq/theories/Lib/{GeomDefs,LocateDefs,ValidDefs}.v (executable specification: one function per rule, each with its
        violation set), Lib/{Locate,Valid}.v (lemmas), Properties_C05.v (invariance under translation / the symmetries of the
        square / ring rotation and reversal / reordering of holes and elements, flag monotonicity, rings of a valid polygon are
        simple, violation locations lie on the geometry).
tie:    the specification is extracted to OCaml and run beside GEOSisValid_r, GEOSisValidReason_r, GEOSisValidDetail_r (both
        flag values), GEOSisSimple_r, GEOSisRing_r on generated valid and invalid grid geometries; the reported rule and
        location must lie in the specification's violation set of that rule; verdict invariance is also executed on the library.
"""
import functools, json, os, re
from fractions import Fraction
from vlib.core import ROOT, BUILD, REPO

LIMIT = 2 ** 25
MSG_CODE = {'Hole lies outside shell': 2, 'Holes are nested': 3, 'Interior is disconnected': 4, 'Self-intersection': 5,
            'Ring Self-intersection': 6, 'Nested shells': 7, 'Too few points in geometry component': 9,
            'Invalid Coordinate': 10, 'Ring is not closed': 11, 'Repeated Point': 1, 'Duplicate Rings': 8,
            'Topology Validation Error': 0}
CODE_RULE = {10: 'RInvalidCoordinate', 11: 'RRingNotClosed', 9: 'RTooFewPoints', 5: 'RSelfIntersection', 6: 'RRingSelfIntersection',
             2: 'RHoleOutsideShell', 3: 'RNestedHoles', 7: 'RNestedShells', 4: 'RDisconnectedInterior'}


# ------------------------------------------------------------------ geometry values
# ('PT', None|(x,y)) ('LS', pts) ('LR', pts) ('PG', rings) ('MPT', [None|pt]) ('MLS', [pts]) ('MPG', [rings]) ('GC', [geom])
def tok_seq(s):
    return [str(len(s))] + [str(v) for p in s for v in p]


def tokens(g):
    t, d = g
    if t == 'PT':
        return ['PT'] + (['E'] if d is None else [str(d[0]), str(d[1])])
    if t in ('LS', 'LR'):
        return [t] + tok_seq(d)
    if t == 'PG':
        return ['PG', str(len(d))] + [x for r in d for x in tok_seq(r)]
    if t == 'MPT':
        return ['MPT', str(len(d))] + [x for p in d for x in (['E'] if p is None else [str(p[0]), str(p[1])])]
    if t == 'MLS':
        return ['MLS', str(len(d))] + [x for l in d for x in tok_seq(l)]
    if t == 'MPG':
        return ['MPG', str(len(d))] + [x for p in d for x in [str(len(p))] + [y for r in p for y in tok_seq(r)]]
    if t == 'GC':
        return ['GC', str(len(d))] + [x for h in d for x in tokens(h)]
    raise ValueError(t)


def text(g):
    return ' '.join(tokens(g))


def map_rings(g, fr, fp=None):
    """apply fr to every coordinate sequence, fp to every single point"""
    t, d = g
    fp = fp or (lambda p: None if p is None else fr([p])[0])
    if t == 'PT': return (t, fp(d))
    if t in ('LS', 'LR'): return (t, fr(d))
    if t == 'PG': return (t, [fr(r) for r in d])
    if t == 'MPT': return (t, [fp(p) for p in d])
    if t == 'MLS': return (t, [fr(l) for l in d])
    if t == 'MPG': return (t, [[fr(r) for r in p] for p in d])
    if t == 'GC': return (t, [map_rings(h, fr, fp) for h in d])


def map_pts(g, f):
    return map_rings(g, lambda s: [f(p) for p in s], lambda p: None if p is None else f(p))


def all_pts(g):
    out = []
    map_pts(g, lambda p: (out.append(p), p)[1])
    return out


def in_bounds(g, lim=LIMIT):
    return all(isinstance(v, int) and abs(v) <= lim for p in all_pts(g) for v in p)


def has_nonfinite(g):
    return any(not isinstance(v, int) for p in all_pts(g) for v in p)


def cross(o, a, b):
    return (a[0] - o[0]) * (b[1] - o[1]) - (a[1] - o[1]) * (b[0] - o[0])


def angle_cmp(u, v):
    hu = 0 if (u[1] > 0 or (u[1] == 0 and u[0] > 0)) else 1
    hv = 0 if (v[1] > 0 or (v[1] == 0 and v[0] > 0)) else 1
    if hu != hv: return hu - hv
    c = u[0] * v[1] - u[1] * v[0]
    return -1 if c > 0 else (1 if c < 0 else 0)


def close(pts):
    return list(pts) + [pts[0]]


def ring_area2(r):
    return sum(r[i][0] * r[i + 1][1] - r[i + 1][0] * r[i][1] for i in range(len(r) - 1))


# ------------------------------------------------------------------ generators of base shapes
def gen_convex(rng, n, R):
    xs = sorted(rng.randint(0, R) for _ in range(n)); ys = sorted(rng.randint(0, R) for _ in range(n))
    def chain(vals):
        a = b = vals[0]; out = []
        for v in vals[1:-1]:
            if rng.random() < 0.5: out.append(v - a); a = v
            else: out.append(b - v); b = v
        out.append(vals[-1] - a); out.append(b - vals[-1]); return out
    dx = chain(xs); dy = chain(ys); rng.shuffle(dy)
    vecs = [v for v in zip(dx, dy) if v != (0, 0)]
    vecs.sort(key=functools.cmp_to_key(angle_cmp))
    pts = []; x = y = 0
    for v in vecs:
        pts.append((x, y)); x += v[0]; y += v[1]
    # drop repeated / collinear-merge is not needed: collinear vertices are legal
    out = [p for i, p in enumerate(pts) if p != pts[i - 1]]
    if len(set(out)) < 3 or ring_area2(close(out)) == 0: return None
    return close(out)


def gen_star(rng, n, R):
    dirs = set()
    while len(dirs) < n:
        d = (rng.randint(-4, 4), rng.randint(-4, 4))
        if d != (0, 0) and abs(cross((0, 0), d, (1, 0))) + abs(d[0]) > 0:
            g = abs(__import__('math').gcd(d[0], d[1]))
            dirs.add((d[0] // g, d[1] // g))
    dirs = sorted(dirs, key=functools.cmp_to_key(angle_cmp))
    pts = [(d[0] * r, d[1] * r) for d in dirs for r in [rng.randint(1, R)]]
    return close(pts)


def gen_cells(rng, W, H, p):
    return {(i, j) for i in range(W) for j in range(H) if rng.random() < p}


def trace_cells(cells, rng, split_p=0.5):
    """boundary rings of a set of unit cells; leftmost-turn linking (stays with the cell on its left); returns polygons
    [[shell, holes...]] grouped by 4-connected component; rings running twice through a vertex are split there with probability split_p"""
    if not cells: return []
    comp = {}
    for c in sorted(cells):
        if c in comp: continue
        stack = [c]; comp[c] = c
        while stack:
            i, j = stack.pop()
            for n in ((i + 1, j), (i - 1, j), (i, j + 1), (i, j - 1)):
                if n in cells and n not in comp:
                    comp[n] = c; stack.append(n)
    out_edges = {}      # start vertex -> list of (end vertex, cell)
    for (i, j) in cells:
        for a, b, nb in (((i, j), (i + 1, j), (i, j - 1)), ((i + 1, j), (i + 1, j + 1), (i + 1, j)),
                         ((i + 1, j + 1), (i, j + 1), (i, j + 1)), ((i, j + 1), (i, j), (i - 1, j))):
            if nb not in cells:
                out_edges.setdefault(a, []).append((b, (i, j)))
    used = set(); rings = []
    for a in sorted(out_edges):
        for (b, cell) in out_edges[a]:
            if (a, b) in used: continue
            ring = [a]; cur_a, cur_b, cur_cell = a, b, cell
            while True:
                used.add((cur_a, cur_b)); ring.append(cur_b)
                if cur_b == a: break
                cands = [e for e in out_edges.get(cur_b, []) if (cur_b, e[0]) not in used]
                d = (cur_b[0] - cur_a[0], cur_b[1] - cur_a[1])
                def turn(e):   # left turn first, straight, right
                    nd = (e[0][0] - cur_b[0], e[0][1] - cur_b[1]); c = d[0] * nd[1] - d[1] * nd[0]
                    return (-c, 0)
                cands.sort(key=turn)
                nxt = cands[0]
                cur_a, cur_b, cur_cell = cur_b, nxt[0], nxt[1]
            rings.append((ring, comp[cell]))
    # optional splitting at repeated vertices
    final = []
    for ring, cid in rings:
        todo = [ring]
        while todo:
            r = todo.pop(); seen = {}; done = False
            for k, v in enumerate(r[:-1]):
                if v in seen and rng.random() < split_p:
                    i0 = seen[v]
                    inner = r[i0:k + 1]; outer = r[:i0] + r[k:]
                    todo += [inner, outer]; done = True; break
                seen.setdefault(v, k)
            if not done: final.append((r, cid))
    polys = {}
    for r, cid in final:
        polys.setdefault(cid, []).append(r)
    res = []
    for cid in sorted(polys):
        rs = polys[cid]
        shells = [r for r in rs if ring_area2(r) > 0]; holes = [r for r in rs if ring_area2(r) <= 0]
        if not shells: continue
        shells.sort(key=lambda r: -ring_area2(r))
        # after splitting an inverted shell the inner part is clockwise: it is a hole; extra ccw parts become holes too (mislabelled on purpose rarely)
        res.append([shells[0]] + holes + shells[1:])
    return res


def simplify_collinear(r):
    out = [r[0]]
    for i in range(1, len(r) - 1):
        if cross(out[-1], r[i], r[i + 1]) != 0: out.append(r[i])
    out.append(r[-1]); return out


def rand_ring(rng, k, G):
    pts = []
    while len(pts) < k:
        p = (rng.randint(0, G), rng.randint(0, G))
        if not pts or p != pts[-1] or rng.random() < 0.1: pts.append(p)
    return close(pts)


def rand_line(rng, k, G):
    return [(rng.randint(0, G), rng.randint(0, G)) for _ in range(k)]


def affine(rng, g, big=False):
    """a validity-preserving integer affine map (det != 0), optionally pushing the magnitude towards the 2^25 bound"""
    pts = all_pts(g)
    if not pts: return g
    for _ in range(20):
        a, b, c, d = (rng.randint(-3, 3) for _ in range(4))
        if a * d - b * c != 0: break
    else:
        a, b, c, d = 1, 0, 0, 1
    if rng.random() < 0.4: a, b, c, d = 1, 0, 0, 1
    s = 1
    ext = max(max(abs(a * p[0] + b * p[1]), abs(c * p[0] + d * p[1])) for p in pts) or 1
    if big:
        s = max(1, (LIMIT // 2) // ext) if rng.random() < 0.5 else rng.choice([1, 2, 3, 7, 64, 1000])
        while ext * s > LIMIT // 2: s = max(1, s // 2)
    room = LIMIT - ext * s
    tx = rng.randint(-room, room) if big else rng.randint(-20, 20)
    ty = rng.randint(-room, room) if big else rng.randint(-20, 20)
    return map_pts(g, lambda p: (s * (a * p[0] + b * p[1]) + tx, s * (c * p[0] + d * p[1]) + ty))


def scale(g, k):
    return map_pts(g, lambda p: (p[0] * k, p[1] * k))


# ------------------------------------------------------------------ constructed contact cases (labelled)
def square(x0, y0, x1, y1):
    return [(x0, y0), (x1, y0), (x1, y1), (x0, y1), (x0, y0)]


def diamond(cx, cy, r):
    return [(cx - r, cy), (cx, cy - r), (cx + r, cy), (cx, cy + r), (cx - r, cy)]


def constructed(rng):
    """returns (label, intended, geom): intended is 'valid' or the rule meant to be broken"""
    k = rng.randint(0, 24)
    r = rng.choice([2, 3, 4])
    if k == 0:      # two holes touching the shell at the same vertex
        N = 12 * r
        return ('two_holes_at_shell_vertex', 'valid', ('PG', [square(0, 0, N, N), [(0, 0), (6, 1), (6, 2), (0, 0)], [(0, 0), (2, 6), (1, 6), (0, 0)]]))
    if k == 1:      # hole chain from the left edge to the right edge: disconnects; with a gap: valid
        n = rng.randint(1, 4); gap = rng.random() < 0.4
        N = 2 * r * n; M = 4 * r; hs = []
        for i in range(n):
            rr = r - 1 if (gap and i == n - 1) else r
            hs.append(diamond(r + 2 * r * i, 2 * r, rr) if rr == r else diamond(r + 2 * r * i - 1, 2 * r, rr))
        return ('hole_chain_gap' if gap else 'hole_chain', 'valid' if gap else 'RDisconnectedInterior', ('PG', [square(0, 0, N, M)] + hs))
    if k == 2:      # three triangles round a pocket: cycle among holes only
        P, Q, R_ = (10, 10), (16, 10), (13, 15)
        hs = [[R_, P, (8, 14), R_], [P, Q, (13, 6), P], [Q, R_, (18, 14), Q]]
        if rng.random() < 0.3: hs = hs[:2]; lab = ('hole_pair_touch', 'valid')
        else: lab = ('hole_cycle', 'RDisconnectedInterior')
        return lab + (('PG', [square(0, 0, 26, 22)] + hs),)
    if k == 3:      # one hole touching the shell twice
        N = 2 * r
        return ('hole_touches_shell_twice', 'RDisconnectedInterior', ('PG', [square(0, 0, N, 3 * N), diamond(r, r + 2, r)]))
    if k == 4:      # hole outside / hole containing the shell
        if rng.random() < 0.5:
            return ('hole_outside', 'RHoleOutsideShell', ('PG', [square(0, 0, 10, 10), square(12, 2, 14, 4)]))
        return ('hole_around_shell', 'RHoleOutsideShell', ('PG', [square(2, 2, 8, 8), square(0, 0, 10, 10)]))
    if k == 5:      # star shell, pentagon hole through the tips: every hole vertex is on the shell, the hole is outside
        tips = [(0, 12), (11, 4), (7, -10), (-7, -10), (-11, 4)]
        inner = [(3, 4), (5, -2), (0, -5), (-5, -2), (-3, 4)]
        shell = []
        for i in range(5): shell += [tips[i], inner[i]]
        return ('hole_through_star_tips', 'RHoleOutsideShell', ('PG', [close(shell), close(tips)]))
    if k == 6:      # nested holes, also touching from inside
        if rng.random() < 0.5:
            return ('nested_holes', 'RNestedHoles', ('PG', [square(0, 0, 20, 20), square(2, 2, 12, 12), square(4, 4, 6, 6)]))
        return ('nested_holes_touching', 'RNestedHoles', ('PG', [square(0, 0, 20, 20), square(2, 2, 12, 12), [(2, 2), (6, 4), (4, 6), (2, 2)]]))
    if k == 7:      # duplicate rings
        h = square(2, 2, 6, 6)
        return ('duplicate_hole', 'RSelfIntersection', ('PG', [square(0, 0, 10, 10), h, list(h)]))
    if k == 8:      # spike
        return ('spike', 'RSelfIntersection', ('PG', [[(0, 0), (10, 0), (10, 10), (5, 10), (5, 14), (5, 10), (0, 10), (0, 0)]]))
    if k == 9:      # bow-tie
        return ('bowtie', 'RSelfIntersection', ('PG', [[(0, 0), (10, 10), (10, 0), (0, 10), (0, 0)]]))
    if k == 10:     # multipolygon elements: overlapping / sharing an edge / touching at a point / nested / in a hole
        A = [square(0, 0, 6, 6)]
        c = rng.randint(0, 5)
        if c == 0: return ('elements_overlap', 'RSelfIntersection', ('MPG', [A, [square(3, 3, 9, 9)]]))
        if c == 1: return ('elements_share_edge', 'RSelfIntersection', ('MPG', [A, [square(6, 0, 12, 6)]]))
        if c == 2: return ('elements_share_part_edge', 'RSelfIntersection', ('MPG', [A, [square(6, 2, 12, 8)]]))
        if c == 3: return ('elements_touch_point', 'valid', ('MPG', [A, [square(6, 6, 12, 12)]]))
        if c == 4: return ('element_nested', 'RNestedShells', ('MPG', [A, [square(2, 2, 4, 4)]]))
        return ('element_in_hole', 'valid', ('MPG', [[square(0, 0, 12, 12), square(2, 2, 10, 10)], [square(4, 4, 8, 8)]]))
    if k == 11:     # element touching the inside of another element's hole / the shell from inside
        c = rng.randint(0, 2)
        if c == 0: return ('element_in_hole_touching', 'valid', ('MPG', [[square(0, 0, 12, 12), square(2, 2, 10, 10)], [[(2, 2), (6, 4), (4, 6), (2, 2)]]]))
        if c == 1: return ('element_nested_touching', 'RNestedShells', ('MPG', [[square(0, 0, 12, 12)], [[(0, 0), (6, 4), (4, 6), (0, 0)]]]))
        return ('element_nested_two_touch', 'RNestedShells', ('MPG', [[square(0, 0, 12, 12)], [[(0, 0), (12, 0), (6, 6), (0, 0)]]]))
    if k == 12:     # structure: unclosed, too few points
        c = rng.randint(0, 5)
        if c == 0: return ('unclosed_shell', 'RRingNotClosed', ('PG', [[(0, 0), (10, 0), (10, 10), (0, 10)]]))
        if c == 1: return ('unclosed_hole', 'RRingNotClosed', ('PG', [square(0, 0, 10, 10), [(2, 2), (4, 2), (4, 4), (2, 3)]]))
        if c == 2: return ('ring_3_points', 'RTooFewPoints', ('PG', [[(0, 0), (10, 0), (0, 0)]]))
        if c == 3: return ('ring_repeated_only', 'RTooFewPoints', ('PG', [[(0, 0), (0, 0), (5, 5), (5, 5), (0, 0)]]))
        if c == 4: return ('ring_all_same', 'RTooFewPoints', ('LR', [(3, 3), (3, 3), (3, 3), (3, 3)]))
        return ('line_one_distinct_point', 'RTooFewPoints', ('LS', [(1, 1), (1, 1), (1, 1)][:rng.randint(2, 3)]))
    if k == 13:     # inverted shell (self-touch forming a hole) and exverted variants, 8-shaped hole, 8-shaped shell
        c = rng.randint(0, 4)
        inv = [(0, 0), (20, 0), (20, 20), (0, 20), (0, 10), (5, 15), (10, 10), (5, 5), (0, 10), (0, 0)]
        if c == 0: return ('inverted_shell', 'RRingSelfIntersection', ('PG', [inv]))
        if c == 1: return ('inverted_shell_plus_hole_touching_shell', 'RRingSelfIntersection', ('PG', [inv, [(20, 10), (15, 8), (15, 12), (20, 10)]]))
        if c == 2: return ('shell_8', 'RRingSelfIntersection', ('PG', [[(0, 0), (4, 0), (4, 4), (8, 4), (8, 8), (4, 8), (4, 4), (0, 4), (0, 0)]]))
        if c == 3: return ('hole_8', 'RRingSelfIntersection', ('PG', [square(-4, -4, 12, 12), [(0, 0), (0, 4), (4, 4), (4, 8), (8, 8), (8, 4), (4, 4), (4, 0), (0, 0)]]))
        return ('inverted_hole', 'RRingSelfIntersection', ('PG', [square(-4, -4, 24, 24), [(0, 0), (0, 10), (5, 5), (10, 10), (5, 15), (0, 10), (0, 20), (20, 20), (20, 0), (0, 0)]]))
    if k == 14:     # lens-shaped self touch: ring through p and q twice
        return ('shell_self_touch_lens', 'RRingSelfIntersection',
                ('PG', [[(0, 0), (10, 0), (10, 10), (5, 10), (7, 5), (5, 0), (3, 5), (5, 10), (0, 10), (0, 0)]]))
    if k == 15:     # hole crossing the shell at a vertex (touch with crossing), and not crossing
        if rng.random() < 0.5:
            return ('hole_crosses_shell_at_vertex', 'RSelfIntersection', ('PG', [[(0, 0), (10, 0), (10, 10), (5, 6), (0, 10), (0, 0)], [(5, 6), (7, 12), (3, 12), (5, 6)]]))
        return ('hole_touches_shell_vertex', 'valid', ('PG', [[(0, 0), (10, 0), (10, 10), (5, 6), (0, 10), (0, 0)], [(5, 6), (7, 2), (3, 2), (5, 6)]]))
    if k == 16:     # hole vertex on shell edge / shell vertex on hole edge
        if rng.random() < 0.5:
            return ('hole_vertex_on_shell_edge', 'valid', ('PG', [square(0, 0, 12, 12), [(6, 0), (8, 4), (4, 4), (6, 0)]]))
        return ('shell_vertex_on_hole_edge', 'valid', ('PG', [[(0, 0), (12, 0), (12, 12), (6, 8), (0, 12), (0, 0)], [(4, 8), (8, 8), (6, 4), (4, 8)]]))
    if k == 17:     # lines
        c = rng.randint(0, 6)
        if c == 0: return ('line_closed_simple', 'valid', ('LS', square(0, 0, 4, 4)))
        if c == 1: return ('line_end_on_interior', 'valid', ('LS', [(0, 0), (8, 0), (8, 4), (4, 4), (4, 0)]))
        if c == 2: return ('lines_share_endpoint', 'valid', ('MLS', [[(0, 0), (4, 4)], [(4, 4), (8, 0)], [(4, 4), (4, 9)]]))
        if c == 3: return ('line_touches_closed_line_end', 'valid', ('MLS', [square(0, 0, 4, 4), [(0, 0), (-3, -3)]]))
        if c == 4: return ('lines_cross', 'valid', ('MLS', [[(0, 0), (4, 4)], [(0, 4), (4, 0)]]))
        if c == 5: return ('lines_overlap', 'valid', ('MLS', [[(0, 0), (6, 0)], [(2, 0), (9, 0)]]))
        return ('line_retrace', 'valid', ('LS', [(0, 0), (6, 0), (3, 0)]))
    if k == 18:     # points
        return ('multipoint', 'valid', ('MPT', [(1, 1), None, (2, 2), (1, 1)][:rng.randint(0, 4)]))
    if k == 19:     # empties
        return ('empty', 'valid', rng.choice([('PT', None), ('LS', []), ('LR', []), ('PG', []), ('MPT', []), ('MLS', []), ('MPG', []), ('GC', []),
                                               ('MPG', [[], [square(0, 0, 2, 2)]]), ('MLS', [[], [(0, 0), (1, 1)]]), ('GC', [('PT', None), ('PG', [])]),
                                               ('PG', [square(0, 0, 8, 8), [], square(2, 2, 4, 4)])]))
    if k == 20:     # linear ring geometries
        c = rng.randint(0, 3)
        if c == 0: return ('lr_valid', 'valid', ('LR', square(0, 0, 5, 5)))
        if c == 1: return ('lr_bowtie', 'RRingSelfIntersection', ('LR', [(0, 0), (10, 10), (10, 0), (0, 10), (0, 0)]))
        if c == 2: return ('lr_self_touch', 'RRingSelfIntersection', ('LR', [(0, 0), (4, 0), (4, 4), (8, 4), (8, 8), (4, 8), (4, 4), (0, 4), (0, 0)]))
        return ('lr_unclosed', 'RRingNotClosed', ('LR', [(0, 0), (5, 0), (5, 5), (0, 5)]))
    if k == 22:     # elements whose shells cross through vertices only (no proper crossing, no shell vertex strictly inside the other)
        A = [[(0, -2), (2, 0), (0, 2), (-2, 0), (0, -2)]]
        c = rng.randint(0, 2)
        if c == 0: return ('elements_cross_at_vertices', 'RSelfIntersection', ('MPG', [A, [square(-3, 0, 3, 1)]]))
        if c == 1: return ('elements_cross_at_vertices', 'RSelfIntersection', ('MPG', [A, [[(-3, 0), (3, 0), (0, 5), (-3, 0)]]]))
        return ('elements_touch_at_vertices', 'valid', ('MPG', [A, [[(2, 0), (5, -2), (5, 2), (2, 0)]], [[(-2, 0), (-5, 2), (-5, -2), (-2, 0)]]]))
    if k == 23:     # a ring crossing itself exactly at a vertex; and touching itself there without crossing
        if rng.random() < 0.5:
            return ('ring_crosses_itself_at_vertex', 'RRingSelfIntersection', ('PG', [[(0, 0), (2, 2), (4, 4), (4, 0), (2, 2), (0, 4), (0, 0)]]))
        return ('ring_touches_itself_at_vertex', 'RRingSelfIntersection', ('PG', [[(0, 0), (2, 2), (0, 4), (4, 4), (2, 2), (4, 0), (0, 0)]]))
    if k == 24:     # closed lines and end points (mod-2 rule: a closed line has no boundary)
        tri = [(0, 0), (6, 0), (3, 5), (0, 0)]
        c = rng.randint(0, 5)
        if c == 0: return ('line_ends_at_closed_line_start_outside', 'valid', ('MLS', [tri, [(0, 0), (-4, -2)]]))
        if c == 1: return ('line_ends_at_closed_line_start_inside', 'valid', ('MLS', [tri, [(3, 2), (0, 0)]]))
        if c == 2: return ('line_ends_at_closed_line_vertex', 'valid', ('MLS', [[(9, 1), (6, 0)], tri]))
        if c == 3: return ('closed_lines_share_start', 'valid', ('MLS', [tri, [(0, 0), (-6, 0), (-3, -5), (0, 0)]]))
        if c == 4: return ('open_lines_share_ends_both', 'valid', ('MLS', [[(0, 0), (6, 0), (3, 5)], [(3, 5), (0, 0)]]))
        return ('closed_line_and_far_line', 'valid', ('MLS', [tri, [(10, 10), (12, 12)]]))
    # shell self-touch at a vertex on an edge (vertex moved onto a non-adjacent edge)
    return ('vertex_on_own_edge', 'RRingSelfIntersection', ('PG', [[(0, 0), (12, 0), (12, 12), (6, 0 if rng.random() < 0.5 else 12), (0, 12), (0, 0)]]))


# ------------------------------------------------------------------ mutations of valid polygons (labelled)
def mutate(rng, g):
    """g: ('PG', rings) valid by construction. returns (label, intended, geom) or None"""
    rings = [list(r) for r in g[1]]
    if not rings or len(rings[0]) < 4: return None
    k = rng.randint(0, 9)
    sh = rings[0]
    if k == 0:      # vertex moved onto the midpoint of a non-adjacent edge of its own ring
        ri = rng.randrange(len(rings)); r = rings[ri]; n = len(r) - 1
        if n < 4: return None
        i = rng.randrange(n); j = (i + rng.randint(2, n - 2)) % n
        a, b = r[j], r[(j + 1)]
        if (a[0] + b[0]) % 2 or (a[1] + b[1]) % 2: return None
        m = ((a[0] + b[0]) // 2, (a[1] + b[1]) // 2)
        r[i] = m
        if i == 0: r[-1] = m
        return ('vertex_onto_own_edge', 'RRingSelfIntersection', ('PG', rings))
    if k == 1:      # vertex of a hole moved onto a shell vertex / shell edge midpoint
        if len(rings) < 2: return None
        h = rings[rng.randrange(1, len(rings))]; i = rng.randrange(len(h) - 1); j = rng.randrange(len(sh) - 1)
        a, b = sh[j], sh[j + 1]
        m = a if rng.random() < 0.5 or (a[0] + b[0]) % 2 or (a[1] + b[1]) % 2 else ((a[0] + b[0]) // 2, (a[1] + b[1]) // 2)
        h[i] = m
        if i == 0: h[-1] = m
        return ('hole_vertex_onto_shell', None, ('PG', rings))
    if k == 2:      # spike at a vertex
        r = rings[rng.randrange(len(rings))]; i = rng.randrange(1, len(r) - 1)
        v = r[i]; s = (v[0] + rng.randint(-6, 6), v[1] + rng.randint(-6, 6))
        if s == v: return None
        r[i:i + 1] = [v, s, v]
        return ('spike', 'RSelfIntersection', ('PG', rings))
    if k == 3:      # bow-tie: swap two consecutive vertices
        r = rings[rng.randrange(len(rings))]; n = len(r) - 1
        if n < 4: return None
        i = rng.randrange(1, n - 1); r[i], r[i + 1] = r[i + 1], r[i]
        return ('swap_vertices', None, ('PG', rings))
    if k == 4:      # unclosed
        r = rings[rng.randrange(len(rings))]
        if rng.random() < 0.5: r.pop()
        else: r[-1] = (r[-1][0] + 1, r[-1][1])
        return ('unclosed', 'RRingNotClosed', ('PG', rings))
    if k == 5:      # too few points
        ri = rng.randrange(len(rings)); r = rings[ri]
        c = rng.randint(0, 2)
        rings[ri] = [r[0], r[1], r[0]] if c == 0 else [r[0]] * rng.randint(1, 5) if c == 1 else [r[0], r[0], r[1], r[1], r[0]]
        return ('too_few', 'RTooFewPoints', ('PG', rings))
    if k == 6:      # hole moved outside
        if len(rings) < 2: return None
        xs = [p[0] for p in sh]; w = max(xs) - min(xs) + 1
        hi = rng.randrange(1, len(rings)); rings[hi] = [(p[0] + w + rng.randint(0, 3), p[1]) for p in rings[hi]]
        return ('hole_moved_out', 'RHoleOutsideShell', ('PG', rings))
    if k == 7:      # duplicate a ring
        if len(rings) < 2: return None
        rings.append(list(rings[rng.randrange(1, len(rings))]))
        return ('duplicate_hole', 'RSelfIntersection', ('PG', rings))
    if k == 8:      # repeated points (stays valid)
        r = rings[rng.randrange(len(rings))]; i = rng.randrange(len(r))
        r[i:i + 1] = [r[i]] * rng.randint(2, 3)
        return ('repeated_points', 'valid', ('PG', rings))
    # shell replaced by a hole and vice versa
    if len(rings) < 2: return None
    rings[0], rings[1] = rings[1], rings[0]
    return ('shell_hole_swapped', 'RHoleOutsideShell', ('PG', rings))


# ------------------------------------------------------------------ transformations (verdict invariance, executed on the library)
def rot_ring(r, k):
    if len(r) < 2 or r[0] != r[-1]: return r
    c = r[:-1]; k %= len(c); c = c[k:] + c[:k]
    return c + [c[0]]


def transforms(rng, g):
    out = []
    dx, dy = rng.randint(-1000, 1000), rng.randint(-1000, 1000)
    out.append(('translate', map_pts(g, lambda p: (p[0] + dx, p[1] + dy))))
    out.append(('reflect_x', map_pts(g, lambda p: (-p[0], p[1]))))
    out.append(('swap_xy', map_pts(g, lambda p: (p[1], p[0]))))
    out.append(('reflect_y', map_pts(g, lambda p: (p[0], -p[1]))))
    out.append(('rot90', map_pts(g, lambda p: (-p[1], p[0]))))
    if g[0] in ('PG', 'MPG', 'LR'):
        out.append(('rotate_rings', map_rings(g, lambda r: rot_ring(r, rng.randint(1, 5)), lambda p: p)))
    if g[0] not in ('PT', 'MPT'):
        out.append(('reverse', map_rings(g, lambda r: r[::-1], lambda p: p)))
    if g[0] == 'PG' and len(g[1]) > 2:
        hs = g[1][1:]; rng.shuffle(hs); out.append(('permute_holes', ('PG', [g[1][0]] + hs)))
    if g[0] == 'MPG' and any(len(p) > 2 for p in g[1]):
        ps = []
        for p in g[1]:
            hs = p[1:]; rng.shuffle(hs); ps.append(p[:1] + hs)
        out.append(('permute_holes', ('MPG', ps)))
        out.append(('reverse_holes', ('MPG', [p[:1] + p[1:][::-1] for p in g[1]])))
    if g[0] in ('MPG', 'MLS', 'MPT', 'GC') and len(g[1]) > 1:
        el = list(g[1]); rng.shuffle(el); out.append(('permute_elements', (g[0], el)))
        out.append(('reverse_elements', (g[0], list(g[1])[::-1])))
    return [(k, t) for k, t in out if in_bounds(t)]


# ------------------------------------------------------------------ shrinking candidates
def shrink_candidates(g):
    t, d = g
    if t in ('LS', 'LR'):
        for i in range(len(d)): yield (t, d[:i] + d[i + 1:])
    elif t == 'PG':
        for i in range(1, len(d)): yield (t, d[:i] + d[i + 1:])
        for i, r in enumerate(d):
            for j in range(len(r)):
                nr = r[:j] + r[j + 1:]
                if j == 0 and len(nr) > 1 and r[0] == r[-1]: nr = nr[:-1] + [nr[0]]
                yield (t, d[:i] + [nr] + d[i + 1:])
    elif t == 'MPG':
        for i in range(len(d)): yield (t, d[:i] + d[i + 1:])
        for i, p in enumerate(d):
            for q in shrink_candidates(('PG', p)): yield (t, d[:i] + [q[1]] + d[i + 1:])
    elif t == 'MLS':
        for i in range(len(d)): yield (t, d[:i] + d[i + 1:])
        for i, l in enumerate(d):
            for q in shrink_candidates(('LS', l)): yield (t, d[:i] + [q[1]] + d[i + 1:])
    elif t == 'MPT':
        for i in range(len(d)): yield (t, d[:i] + d[i + 1:])
    elif t == 'GC':
        for i in range(len(d)): yield (t, d[:i] + d[i + 1:])
        for i, h in enumerate(d):
            for q in shrink_candidates(h): yield (t, d[:i] + [q] + d[i + 1:])
    pts = all_pts(g)
    if pts and all(isinstance(v, int) and v % 2 == 0 for p in pts for v in p) and any(v for p in pts for v in p):
        yield map_pts(g, lambda p: (p[0] // 2, p[1] // 2))


def constructible(g):
    """what the harness can build: a LineString has 0 or >= 2 points; polygons with an empty shell have no holes"""
    t, d = g
    if t == 'LS': return len(d) != 1
    if t == 'MLS': return all(len(l) != 1 for l in d)
    if t == 'PG': return not d or len(d[0]) > 0 or len(d) == 1
    if t == 'MPG': return all(constructible(('PG', p)) for p in d)
    if t == 'GC': return all(constructible(h) for h in d)
    return True


# ------------------------------------------------------------------ results
def parse_model(line):
    if line is None or '#' not in line: return None
    parts = [p.strip() for p in line.split('#')]
    head = parts[0].split()
    def sets(s):
        out = {}
        for tokn in s.split():
            c, pts = tokn.split('=')
            out[int(c)] = [tuple(int(v) for v in q.split('/')) for q in pts.split(',')]
        return out
    ns = [tuple(int(v) for v in q.split('/')) for q in parts[3].split(',')] if len(parts) > 3 and parts[3] else []
    return dict(valid=(head[0] == '1', head[1] == '1'), simple=head[2] == '1', ring=head[3] == '1', sets=(sets(parts[1]), sets(parts[2])), nonsimple=ns)


def parse_impl(line):
    if line is None or not line.startswith('V='): return None
    f = dict(x.split('=', 1) for x in line.split(' '))
    def det(s):
        a = s.split(';')
        return dict(ok=a[0], msg=a[1].replace('_', ' '), x=a[2], y=a[3])
    return dict(V=f['V'], R=f['R'].replace('_', ' '), D=(det(f['D0']), det(f['D1'])), S=f['S'], G=f['G'])


def near(x, y, q, e, tol=1e-6):
    """reported double location (x, y) against the exact point q = (X, Y, W) in grid units, unit 2^e"""
    X, Y, W = q
    u = 2.0 ** e
    if abs(x - X / W * u) <= tol * u and abs(y - Y / W * u) <= tol * u: return True
    return abs(Fraction(x) - Fraction(X, W) * Fraction(2) ** e) <= Fraction(tol) * Fraction(2) ** e and \
        abs(Fraction(y) - Fraction(Y, W) * Fraction(2) ** e) <= Fraction(tol) * Fraction(2) ** e


def compare(g, e, m, im):
    """the property, decided on the implementation's answers with the specification's verdicts. returns list of (kind, text)"""
    bad = []
    if im is None: return [('impl-failure', 'no answer from the library')]
    if m is None: return [('model-failure', 'no answer from the model')]
    for flag in (0, 1):
        d = im['D'][flag]
        if d['ok'] not in ('0', '1'):
            bad.append(('exception', 'GEOSisValidDetail_r(flags=%d) returned %s' % (flag, d['ok']))); continue
        iv = d['ok'] == '1'
        if iv != m['valid'][flag]:
            bad.append(('verdict%d' % flag, 'GEOSisValidDetail_r(flags=%d) says %s (%s at %s %s), the rules say %s%s' % (
                flag, 'valid' if iv else 'invalid', d['msg'], d['x'], d['y'], 'valid' if m['valid'][flag] else 'invalid',
                '' if m['valid'][flag] else ' (broken: %s)' % ', '.join(CODE_RULE[c] for c in m['sets'][flag]))))
            continue
        if not iv:
            code = MSG_CODE.get(d['msg'], -1)
            pts = m['sets'][flag].get(code)
            if not pts:
                bad.append(('rule%d' % flag, 'reported "%s" but the rules broken are %s' % (d['msg'], ', '.join(CODE_RULE[c] for c in m['sets'][flag]))))
            else:
                try: x, y = float(d['x']), float(d['y'])
                except ValueError: x = y = float('nan')
                if not any(near(x, y, q, e) for q in pts):
                    bad.append(('location%d' % flag, 'reported "%s" at (%s, %s) which is not a place where that rule is broken (%d such places, e.g. %s)' % (
                        d['msg'], d['x'], d['y'], len(pts), pts[:3])))
    d0 = im['D'][0]
    if im['V'] != d0['ok']:
        bad.append(('isvalid-vs-detail', 'GEOSisValid_r=%s but GEOSisValidDetail_r(0)=%s' % (im['V'], d0['ok'])))
    if d0['ok'] == '1' and im['R'] != 'Valid Geometry' or d0['ok'] == '0' and not im['R'].startswith(d0['msg'] + '['):
        bad.append(('reason-text', 'GEOSisValidReason_r="%s" vs detail "%s"' % (im['R'], d0['msg'])))
    if im['S'] not in ('0', '1') or (im['S'] == '1') != m['simple']:
        bad.append(('simple', 'GEOSisSimple_r=%s, the rule says %s (non-simple at %s)' % (im['S'], m['simple'], m['nonsimple'][:3])))
    if im['G'] not in ('0', '1') or (im['G'] == '1') != m['ring']:
        bad.append(('isring', 'GEOSisRing_r=%s, closed-and-simple says %s' % (im['G'], m['ring'])))
    return bad


def compare_nonfinite(g, im):
    bad = []
    if im is None: return [('impl-failure', 'no answer')]
    for flag in (0, 1):
        d = im['D'][flag]
        if d['ok'] != '0' or MSG_CODE.get(d['msg']) != 10:
            bad.append(('nonfinite%d' % flag, 'geometry with a non-finite ordinate: got ok=%s "%s"' % (d['ok'], d['msg'])))
        elif not any(v in ('nan', 'inf', '-inf', '-nan') for v in (d['x'], d['y'])):
            bad.append(('nonfinite-location%d' % flag, 'reported location %s %s is finite' % (d['x'], d['y'])))
    if im['V'] != '0': bad.append(('nonfinite-isvalid', 'GEOSisValid_r=%s' % im['V']))
    return bad


class Runner:
    def __init__(self, ctx, drv, hexe):
        self.ctx, self.drv, self.hexe = ctx, drv, hexe

    def model(self, geoms):
        return [parse_model(l) for l in self.ctx.run_lines([self.drv], ['V ' + text(g) for g in geoms], timeout=1800)]

    def impl(self, geoms, exps):
        return [parse_impl(l) for l in self.ctx.run_lines([self.hexe], ['%d %s' % (e, text(g)) for g, e in zip(geoms, exps)], timeout=900)]

    def loc(self, g, hpts):
        out = self.ctx.run_lines([self.drv], ['LOC %d %s %s' % (len(hpts), ' '.join('%d %d %d' % q for q in hpts), text(g))], timeout=300)
        return out[0] if out else ''

    def mismatch(self, g, e):
        if not constructible(g) or not in_bounds(g): return []
        return compare(g, e, self.model([g])[0], self.impl([g], [e])[0])


def shrink(runner, g, e, kinds, budget=120):
    cur = g
    improved = True
    while improved and budget > 0:
        improved = False
        for cand in shrink_candidates(cur):
            budget -= 1
            if budget <= 0: break
            try:
                bad = runner.mismatch(cand, e)
            except Exception:
                continue
            if any(k in kinds for k, _ in bad):
                cur = cand; improved = True; break
    return cur


# ------------------------------------------------------------------ known findings (matched by a specific key)
def known_key(kind, g, m, im):
    """C05-F1 (fixed): with the self-touching-ring flag, a ring that touches itself and also touches another ring of the same polygon
    at a different point was reported as 'Interior is disconnected' although the rules hold.
    C05-F2: after a double touch the intersection scan stops; a later test then names a rule that is not broken
    (hole outside shell / nested holes) for a hole whose edge overlaps another ring."""
    if kind == 'verdict1' and m['valid'][1] and not m['valid'][0] and 6 in m['sets'][0] \
            and im['D'][1]['msg'] == 'Interior is disconnected' and g[0] in ('PG', 'MPG', 'GC'):
        return 'selftouch-ring-plus-touching-ring'
    # C05-F3: with the flag, the side of a self-touch is taken from Orientation::isCCW, which depends on the ring start for a
    # self-touching ring: a pinched ring (rule 4 at its self-touch, nothing else broken) is accepted for some starts
    if kind == 'verdict1' and not m['valid'][1] and set(m['sets'][1]) == {4} and im['D'][1]['ok'] == '1' and 6 in m['sets'][0] \
            and all(q in m['sets'][0][6] for q in m['sets'][1][4]):
        return 'selftouch-orientation-depends-on-ring-start'
    if kind in ('rule0', 'rule1'):
        flag = int(kind[-1])
        code = MSG_CODE.get(im['D'][flag]['msg'])
        if code in (2, 3) and 4 in m['sets'][flag] and 5 in m['sets'][flag] and code not in m['sets'][flag]:
            return 'rule-misreported-after-double-touch'
    return None


# ------------------------------------------------------------------ XML corpus
def parse_wkt(s):
    s = s.strip()
    toks = re.findall(r'[A-Za-z]+|\(|\)|,|[-+]?[0-9]*\.?[0-9]+(?:[eE][-+]?[0-9]+)?', s)
    pos = [0]
    def peek(): return toks[pos[0]] if pos[0] < len(toks) else None
    def nxt(): pos[0] += 1; return toks[pos[0] - 1]
    def coord():
        x = Fraction(nxt()); y = Fraction(nxt())
        while peek() not in (',', ')', None): nxt()       # drop Z / M
        return (x, y)
    def seq():
        if peek() and peek().upper() == 'EMPTY': nxt(); return []
        assert nxt() == '('
        out = [coord()]
        while peek() == ',': nxt(); out.append(coord())
        assert nxt() == ')'; return out
    def seqs():
        if peek() and peek().upper() == 'EMPTY': nxt(); return []
        assert nxt() == '('
        out = [seq()]
        while peek() == ',': nxt(); out.append(seq())
        assert nxt() == ')'; return out
    def geom():
        t = nxt().upper()
        while peek() and peek().upper() in ('Z', 'M', 'ZM'): nxt()
        if t == 'POINT':
            s_ = seq(); return ('PT', s_[0] if s_ else None)
        if t == 'LINESTRING': return ('LS', seq())
        if t == 'LINEARRING': return ('LR', seq())
        if t == 'POLYGON': return ('PG', seqs())
        if t == 'MULTIPOINT':
            if peek() and peek().upper() == 'EMPTY': nxt(); return ('MPT', [])
            assert nxt() == '('
            out = []
            while True:
                if peek() == '(': s_ = seq(); out.append(s_[0] if s_ else None)
                elif peek() and peek().upper() == 'EMPTY': nxt(); out.append(None)
                else: out.append(coord())
                if peek() == ',': nxt(); continue
                break
            assert nxt() == ')'; return ('MPT', out)
        if t == 'MULTILINESTRING': return ('MLS', seqs())
        if t == 'MULTIPOLYGON':
            if peek() and peek().upper() == 'EMPTY': nxt(); return ('MPG', [])
            assert nxt() == '('
            out = [seqs()]
            while peek() == ',': nxt(); out.append(seqs())
            assert nxt() == ')'; return ('MPG', out)
        if t == 'GEOMETRYCOLLECTION':
            if peek() and peek().upper() == 'EMPTY': nxt(); return ('GC', [])
            assert nxt() == '('
            out = [geom()]
            while peek() == ',': nxt(); out.append(geom())
            assert nxt() == ')'; return ('GC', out)
        raise ValueError(t)
    g = geom()
    return g


def to_grid(g):
    """all ordinates multiples of one power of two with magnitude <= 2^25 units -> (integer geometry, exponent) or None"""
    pts = all_pts(g)
    den = 1
    for p in pts:
        for v in p:
            d = v.denominator
            if d & (d - 1): return None
            den = max(den, d)
    if den > 2 ** 20: return None
    h = map_pts(g, lambda p: (int(p[0] * den), int(p[1] * den)))
    if not in_bounds(h): return None
    return h, -(den.bit_length() - 1)


def xml_cases(path, opname):
    txt = open(path, encoding='utf-8', errors='replace').read()
    out = []
    for cm in re.finditer(r'<case>(.*?)</case>', txt, re.S):
        c = cm.group(1)
        a = re.search(r'<a>(.*?)</a>', c, re.S)
        op = re.search(r'<op\s+name="%s"[^>]*>\s*(true|false)\s*</op>' % opname, c, re.S | re.I)
        desc = re.search(r'<desc>(.*?)</desc>', c, re.S)
        if a and op:
            out.append(((desc.group(1).strip() if desc else '')[:80], a.group(1).strip(), op.group(1).lower() == 'true'))
    return out



# ------------------------------------------------------------------ elements inside holes of other elements
D4 = [lambda p: (p[0], p[1]), lambda p: (-p[1], p[0]), lambda p: (-p[0], -p[1]), lambda p: (p[1], -p[0]),
      lambda p: (-p[0], p[1]), lambda p: (p[0], -p[1]), lambda p: (p[1], p[0]), lambda p: (-p[1], -p[0])]


def ring_points(r):
    """vertices and (where integral) edge midpoints of a closed ring"""
    out = []
    for a, b in zip(r[:-1], r[1:]):
        out.append(a)
        if (a[0] + b[0]) % 2 == 0 and (a[1] + b[1]) % 2 == 0: out.append(((a[0] + b[0]) // 2, (a[1] + b[1]) // 2))
    return out


def grow_cells(rng, G, n, taken):
    """a 4-connected set of n cells of a GxG grid that keeps one free cell (8-neighbourhood) from `taken`"""
    def free(c): return 0 <= c[0] < G and 0 <= c[1] < G and all((c[0] + dx, c[1] + dy) not in taken for dx in (-1, 0, 1) for dy in (-1, 0, 1))
    for _ in range(20):
        c = (rng.randrange(G), rng.randrange(G))
        if free(c): break
    else: return None
    cells = {c}
    for _ in range(8 * n):
        if len(cells) >= n: break
        b = rng.choice(sorted(cells)); d = rng.choice([(1, 0), (-1, 0), (0, 1), (0, -1)]); c = (b[0] + d[0], b[1] + d[1])
        if free(c): cells.add(c)
    return cells


def gen_elements_in_holes(rng):
    """MultiPolygon: element A with several holes whose envelopes overlap or nest (U / L / C shaped, or traces of random cell
    sets), other elements lying inside the holes and touching the hole ring at their first vertices, at one vertex, or not at
    all; every hole order, ring start and direction is reached through the derived copies (all of them are generated)."""
    t = rng.choice([2, 4, 6])
    c = rng.random()
    holes = []
    if c < 0.6:
        if rng.random() < 0.5:   # U-shaped hole, a rectangular hole in its notch
            H1 = [(0, 0), (7 * t, 0), (7 * t, 6 * t), (5 * t, 6 * t), (5 * t, 2 * t), (2 * t, 2 * t), (2 * t, 6 * t), (0, 6 * t), (0, 0)]
            H2 = square(2 * t + t // 2, 3 * t, 5 * t - t // 2, 6 * t - t // 2)
        else:                    # L-shaped hole, a square hole in its corner notch
            H1 = [(0, 0), (6 * t, 0), (6 * t, 2 * t), (2 * t, 2 * t), (2 * t, 6 * t), (0, 6 * t), (0, 0)]
            H2 = square(3 * t, 3 * t, 5 * t, 5 * t)
        holes = [H1, H2]
        if rng.random() < 0.4: holes.append(square(8 * t, 0, 9 * t, 6 * t))
        shell = square(-t, -t, 10 * t, 8 * t)
        cells_of = None
    else:
        G = rng.randint(5, 7); u = 4; taken = set(); sets = []
        for _ in range(rng.randint(2, 4)):
            cs = grow_cells(rng, G, rng.randint(1, 7), taken)
            if cs: sets.append(cs); taken |= cs
        for cs in sets:
            tr = trace_cells(cs, rng, split_p=0.0)
            if len(tr) == 1 and len(tr[0]) == 1:
                holes.append([(u * p[0], u * p[1]) for p in simplify_collinear(tr[0][0])])
        if not holes: return None
        shell = square(-u, -u, u * G + u, u * G + u)
    if rng.random() < 0.5: rng.shuffle(holes)
    elems = []
    for H in holes:
        if rng.random() < 0.25: continue
        rp = ring_points(H)
        xs = [p[0] for p in H]; ys = [p[1] for p in H]
        inner = []
        for _ in range(30):
            q = (rng.randint(min(xs) + 1, max(xs) - 1), rng.randint(min(ys) + 1, max(ys) - 1))
            # strictly inside by crossing parity (construction only; the specification decides the label)
            ins = False
            for a, b in zip(H[:-1], H[1:]):
                if (a[1] > q[1]) != (b[1] > q[1]) and (q[0] - a[0]) * (b[1] - a[1]) * (1 if b[1] > a[1] else -1) < (b[0] - a[0]) * (q[1] - a[1]) * (1 if b[1] > a[1] else -1): ins = not ins
            if ins and q not in rp and q not in inner: inner.append(q)
            if len(inner) >= 2: break
        if not inner: continue
        k = rng.choice([0, 1, 2, 2, 2, 3])             # how many leading vertices of the element lie on the hole ring
        on = rng.sample(rp, min(k, len(rp)))
        ring = on + inner[:max(1, 3 - len(on))]
        if len(ring) < 3: continue
        if rng.random() < 0.3: ring = ring[::-1]
        elems.append([close(ring)])
    if not elems: return None
    polys = [[shell] + holes] + elems
    if rng.random() < 0.3: polys = polys[::-1]
    f = rng.choice(D4); s = rng.choice([1, 1, 2, 3, 1000]); dx, dy = rng.randint(-500, 500), rng.randint(-500, 500)
    return map_pts(('MPG', polys), lambda p: (s * f(p)[0] + dx, s * f(p)[1] + dy))



# ------------------------------------------------------------------ single defects among innocent holes / elements
def seg_hit(a, b, c, d):
    """closed segments ab, cd have a common point (exact)"""
    o1, o2, o3, o4 = cross(a, b, c), cross(a, b, d), cross(c, d, a), cross(c, d, b)
    if ((o1 > 0) != (o2 > 0) or o1 == 0 or o2 == 0) and ((o3 > 0) != (o4 > 0) or o3 == 0 or o4 == 0):
        if o1 == o2 == o3 == o4 == 0:
            return max(min(a[0], b[0]), min(c[0], d[0])) <= min(max(a[0], b[0]), max(c[0], d[0])) and \
                max(min(a[1], b[1]), min(c[1], d[1])) <= min(max(a[1], b[1]), max(c[1], d[1]))
        return (o1 == 0 or o2 == 0 or (o1 > 0) != (o2 > 0)) and (o3 == 0 or o4 == 0 or (o3 > 0) != (o4 > 0))
    return False


def strictly_in(q, r):
    """q strictly inside ring r (construction helper only; labels are decided by the specification)"""
    ins = False
    for a, b in zip(r[:-1], r[1:]):
        if cross(a, b, q) == 0 and min(a[0], b[0]) <= q[0] <= max(a[0], b[0]) and min(a[1], b[1]) <= q[1] <= max(a[1], b[1]): return False
        if (a[1] > q[1]) != (b[1] > q[1]):
            up = b[1] > a[1]
            if (cross(a, b, q) > 0) == up: ins = not ins
    return ins


def rings_apart(r1, r2):
    if any(seg_hit(a, b, c, d) for a, b in zip(r1[:-1], r1[1:]) for c, d in zip(r2[:-1], r2[1:])): return False
    return not strictly_in(r1[0], r2) and not strictly_in(r2[0], r1)


def innocent_holes(rng, R, k):
    """k pairwise disjoint non-rectangular holes in (0,R)^2 whose bounding boxes are free to overlap: thin triangles, convex
    polygons, L shapes"""
    hs = []
    for _ in range(12 * k):
        if len(hs) >= k: break
        c = rng.random()
        if c < 0.55:
            pts = [(rng.randint(1, R - 1), rng.randint(1, R - 1)) for _ in range(3)]
            if cross(*pts) == 0: continue
            h = close(pts)
        elif c < 0.8:
            h = gen_convex(rng, rng.randint(3, 6), rng.choice([6, 10, 16]))
            if not h: continue
            dx, dy = rng.randint(1, R - 17), rng.randint(1, R - 17)
            h = [(p[0] + dx, p[1] + dy) for p in h]
        else:
            t = rng.choice([2, 3]); dx, dy = rng.randint(1, R - 6 * t - 1), rng.randint(1, R - 6 * t - 1)
            h = [(p[0] + dx, p[1] + dy) for p in [(0, 0), (6 * t, 0), (6 * t, 2 * t), (2 * t, 2 * t), (2 * t, 6 * t), (0, 6 * t), (0, 0)]]
        if rng.random() < 0.5: h = h[::-1]
        if all(0 < p[0] < R and 0 < p[1] < R for p in h) and all(rings_apart(h, o) for o in hs): hs.append(h)
    return hs


def convex_ring(r):
    c = r[:-1]; n = len(c)
    sg = [cross(c[i], c[(i + 1) % n], c[(i + 2) % n]) for i in range(n)]
    return all(x > 0 for x in sg) or all(x < 0 for x in sg)


def gen_single_defect(rng):
    """a polygon with several innocent holes (then scaled by 12 so that centroids and half-way points are lattice points) and exactly
    one intended defect; returns (label, intended rule, geometry). Some draws are controls without any defect."""
    R = rng.choice([24, 36, 48])
    hs = innocent_holes(rng, R, rng.randint(2, 5))
    if len(hs) < 2: return None
    K = 12
    hs = [[(K * p[0], K * p[1]) for p in h] for h in hs]
    shell = square(-K, -K, K * R + K, K * R + K)
    def half(o, c): return [((p[0] + c[0]) // 2, (p[1] + c[1]) // 2) for p in o]
    def free_triangle(rings_in, rings_out, size):
        for _ in range(60):
            q = (rng.randint(0, K * R), rng.randint(0, K * R)); tri = [q, (q[0] + size, q[1]), (q[0], q[1] + size), q]
            if all(all(strictly_in(v, r) for v in tri[:-1]) for r in rings_in) and all(rings_apart(tri, r) for r in rings_out): return tri
        return None
    kind = rng.choice(['nested_half', 'nested_half', 'nested_half', 'nested_vertex', 'nested_tiny', 'hole_out', 'holes_overlap', 'hole_bowtie',
                       'hole_too_few', 'hole_unclosed', 'hole_dup', 'nested_shell', 'defect_in_other_element', 'control', 'control'])
    g = None; intended = 'valid'
    if kind in ('nested_half', 'nested_vertex'):
        cand = [h for h in hs if convex_ring(h)]
        if not cand: return None
        o = rng.choice(cand)
        c = ((o[0][0] + o[1][0] + o[2][0]) // 3, (o[0][1] + o[1][1] + o[2][1]) // 3) if kind == 'nested_half' else rng.choice(o[:-1])
        i_ = half(o, c)
        if rng.random() < 0.5: i_ = i_[::-1]
        g = ('PG', [shell] + hs + [i_]); intended = 'RNestedHoles'
    elif kind == 'nested_tiny':
        o = rng.choice(hs); tri = free_triangle([o], [], rng.choice([1, 2, 5]))
        if not tri: return None
        g = ('PG', [shell] + hs + [tri]); intended = 'RNestedHoles'
    elif kind == 'hole_out':
        j = rng.randrange(len(hs)); d = K * R + 3 * K
        hs2 = list(hs); hs2[j] = [(p[0] + d, p[1]) for p in hs[j]]
        g = ('PG', [shell] + hs2); intended = 'RHoleOutsideShell'
    elif kind == 'holes_overlap':
        j = rng.randrange(len(hs)); o = hs[(j + 1) % len(hs)]
        d = (o[0][0] - hs[j][1][0], o[0][1] - hs[j][1][1])
        hs2 = list(hs); hs2[j] = [(p[0] + d[0], p[1] + d[1]) for p in hs[j]]
        g = ('PG', [shell] + hs2); intended = None
    elif kind == 'hole_bowtie':
        cand = [j for j, h in enumerate(hs) if len(h) >= 5 and convex_ring(h)]
        if not cand: return None
        j = rng.choice(cand); h = list(hs[j]); h[1], h[2] = h[2], h[1]
        hs2 = list(hs); hs2[j] = h
        g = ('PG', [shell] + hs2); intended = 'RSelfIntersection'
    elif kind == 'hole_too_few':
        j = rng.randrange(len(hs)); hs2 = list(hs); hs2[j] = [hs[j][0], hs[j][0], hs[j][0], hs[j][0]]
        g = ('PG', [shell] + hs2); intended = 'RTooFewPoints'
    elif kind == 'hole_unclosed':
        j = rng.randrange(len(hs)); hs2 = list(hs); hs2[j] = hs[j][:-1]
        g = ('PG', [shell] + hs2); intended = 'RRingNotClosed'
    elif kind == 'hole_dup':
        g = ('PG', [shell] + hs + [list(rng.choice(hs))]); intended = 'RSelfIntersection'
    elif kind == 'nested_shell':
        tri = free_triangle([shell], hs, rng.choice([1, 2, 6, 12]))
        if not tri: return None
        g = ('MPG', [[shell] + hs, [tri]]); intended = 'RNestedShells'
    elif kind == 'defect_in_other_element':
        sub = gen_single_defect(rng)
        if not sub or sub[2][0] != 'PG': return None
        d = K * R + 4 * K
        g = ('MPG', [[shell] + hs, [[(p[0] + d, p[1] + d) for p in r] for r in sub[2][1]]]); intended = sub[1]
    else:
        g = ('PG', [shell] + hs)
        if rng.random() < 0.5:      # an element inside a hole is legal
            o = rng.choice(hs); tri = free_triangle([o], [], rng.choice([1, 3]))
            if tri: g = ('MPG', [[shell] + hs, [tri]])
    if g[0] == 'PG' and rng.random() < 0.7:
        sh, holes = g[1][0], g[1][1:]; rng.shuffle(holes); g = ('PG', [sh] + holes)
    f = rng.choice(D4); dx, dy = rng.randint(-2000, 2000), rng.randint(-2000, 2000)
    return ('single:' + kind, intended, map_pts(g, lambda p: (f(p)[0] + dx, f(p)[1] + dy)))



# ------------------------------------------------------------------ EMPTY elements / rings interleaved with each kind of defect
def gen_with_empties(rng):
    """a defect (or control) geometry from the other families, re-wrapped so that EMPTY elements / EMPTY holes / EMPTY lines / EMPTY
    collection members stand before, between and after the elements that carry the defect; far-away innocent elements are added too"""
    c = rng.random()
    if c < 0.45:
        src = gen_single_defect(rng)
    elif c < 0.85:
        src = constructed(rng)
        src = ('con:' + src[0], src[1], src[2])
    else:
        r = gen_convex(rng, rng.randint(3, 7), 12)
        src = r and mutate(rng, scale(('PG', [r]), 6))
        src = src and ('mut:' + src[0], src[1], src[2])
    if not src: return None
    label, intended, g = src
    if has_nonfinite(g): return None
    def far_square():
        pts = all_pts(g); m = max([abs(v) for p in pts for v in p] + [1])
        return [square(3 * m + 10, 3 * m + 10, 3 * m + 20, 3 * m + 20)]
    def interleave(items, empty, extra=None):
        out = list(items)
        if extra is not None and rng.random() < 0.6: out.insert(rng.randint(0, len(out)), extra)
        for _ in range(rng.randint(1, 2)): out.insert(rng.randint(0, len(out)), empty)
        if rng.random() < 0.5: out.insert(0, empty)          # always also exercised: EMPTY first
        return out
    t = g[0]
    if t in ('PG', 'MPG'):
        polys = [g[1]] if t == 'PG' else list(g[1])
        polys = [p for p in polys if p]
        if not polys: return None
        if rng.random() < 0.4:       # EMPTY holes inside the elements as well
            polys = [[p[0]] + interleave(p[1:], []) if len(p[0]) > 0 else p for p in polys]
        out = ('MPG', interleave(polys, [], far_square()))
        if rng.random() < 0.25:
            out = ('GC', interleave([out], rng.choice([('PT', None), ('LS', []), ('PG', []), ('MPG', []), ('GC', [])])))
    elif t in ('LS', 'MLS'):
        ls = [g[1]] if t == 'LS' else list(g[1])
        out = ('MLS', interleave(ls, []))
        if t == 'LS' and intended and intended != 'valid': intended = None
    elif t == 'LR':
        out = ('GC', interleave([g], rng.choice([('LR', []), ('PG', []), ('PT', None)])))
    elif t == 'MPT':
        out = ('MPT', interleave(list(g[1]), None))
    else:
        out = ('GC', interleave([g] if t != 'GC' else list(g[1]), rng.choice([('PT', None), ('LS', []), ('PG', []), ('MPG', []), ('GC', [])])))
    return ('empties:' + label, intended, out)


# ------------------------------------------------------------------ case generation
def gen_cases(ctx, runner, n_target):
    rng = ctx.rng
    cases = []      # dict(label, intended, g)
    def add(label, intended, g, aff=True):
        if g is None: return
        if aff and rng.random() < 0.6:
            g = affine(rng, g, big=rng.random() < 0.3)
        if constructible(g) and in_bounds(g):
            cases.append(dict(label=label, intended=intended, g=g))
    n_each = max(4, n_target // 16)
    # valid polygons: convex, star, rectilinear traces
    shells = []
    for _ in range(n_each):
        r = gen_convex(rng, rng.randint(3, 9), rng.choice([4, 8, 20]))
        if r: shells.append(scale(('PG', [r]), 6)); add('convex', 'valid', ('PG', [r]))
    for _ in range(n_each):
        r = gen_star(rng, rng.randint(4, 9), rng.choice([3, 6, 10]))
        shells.append(scale(('PG', [r]), 6)); add('star', None, ('PG', [r]))
    for _ in range(2 * n_each):
        W, H = rng.randint(2, 6), rng.randint(2, 6)
        polys = trace_cells(gen_cells(rng, W, H, rng.choice([0.5, 0.65, 0.8, 0.9])), rng, split_p=rng.choice([0.0, 0.5, 1.0]))
        if not polys: continue
        if rng.random() < 0.5: polys = [[simplify_collinear(r) for r in p] for p in polys]
        g = ('PG', polys[0]) if len(polys) == 1 and rng.random() < 0.8 else ('MPG', polys)
        add('rectilinear', None, scale(g, 2))
        if g[0] == 'PG' and rng.random() < 0.6: shells.append(scale(g, 12))
    # holes placed by the specification's own point location
    hole_jobs = []
    for sg in shells:
        pts = all_pts(sg)
        x0, x1 = min(p[0] for p in pts), max(p[0] for p in pts); y0, y1 = min(p[1] for p in pts), max(p[1] for p in pts)
        cands = []
        for _ in range(8):
            cx, cy = rng.randint(x0, x1), rng.randint(y0, y1); rr = rng.choice([1, 2, 3, 5])
            h = rng.choice([diamond(cx, cy, rr), [(cx - rr, cy - rr), (cx + rr, cy - rr), (cx, cy + rr), (cx - rr, cy - rr)], square(cx - rr, cy - rr, cx + rr, cy + rr)])
            cands.append(h)
        hole_jobs.append((sg, cands))
    for sg, cands in hole_jobs:
        q = [(p[0], p[1], 1) for h in cands for p in h[:-1]]
        ans = runner.loc(sg, q)
        k = 0; holes = []
        for h in cands:
            n = len(h) - 1; a = ans[k:k + n]; k += n
            if a and all(c == 'I' for c in a):
                bx = (min(p[0] for p in h), max(p[0] for p in h), min(p[1] for p in h), max(p[1] for p in h))
                if all(bx[1] < o[0] or o[1] < bx[0] or bx[3] < o[2] or o[3] < bx[2] for o in [b for _, b in holes]):
                    holes.append((h, bx))
        if holes:
            g = ('PG', sg[1] + [h for h, _ in holes])
            add('with_holes', None, g)
            for _ in range(2):
                mu = mutate(rng, g)
                if mu: add('mut:' + mu[0], mu[1], mu[2])
        else:
            mu = mutate(rng, sg)
            if mu: add('mut:' + mu[0], mu[1], mu[2])
    # constructed contacts
    for _ in range(5 * n_each):
        lab, intended, g = constructed(rng)
        add('con:' + lab, intended, g)
    # tiny-grid random geometries: every kind of exact coincidence
    for _ in range(5 * n_each):
        G = rng.choice([3, 4, 5, 6])
        c = rng.random()
        if c < 0.45:
            g = ('PG', [rand_ring(rng, rng.randint(3, 6), G)] + [rand_ring(rng, rng.randint(3, 4), G) for _ in range(rng.choice([0, 0, 1, 1, 2]))])
        elif c < 0.65:
            g = ('MPG', [[rand_ring(rng, rng.randint(3, 5), G)] for _ in range(rng.randint(2, 3))])
        elif c < 0.8:
            g = ('LS', rand_line(rng, rng.randint(2, 7), G))
        elif c < 0.9:
            g = ('MLS', [rand_line(rng, rng.randint(2, 4), G) for _ in range(rng.randint(1, 3))])
        elif c < 0.95:
            g = ('LR', rand_ring(rng, rng.randint(3, 6), G))
        else:
            g = ('GC', [('PG', [rand_ring(rng, 3, G)]), ('LS', rand_line(rng, 3, G)), ('PT', (rng.randint(0, G), rng.randint(0, G)))][:rng.randint(1, 3)])
        add('tiny', None, g)
    # small polygons around the squares-with-holes theme: holes touching each other / the shell by construction on a coarse grid
    for _ in range(3 * n_each):
        N = 12
        hs = []
        for _ in range(rng.randint(1, 4)):
            cx, cy, rr = rng.choice([2, 4, 6, 8, 10]), rng.choice([2, 4, 6, 8, 10]), rng.choice([1, 2, 2, 3])
            hs.append(rng.choice([diamond(cx, cy, rr), square(cx - rr, cy - rr, cx + rr, cy + rr), [(cx - rr, cy - rr), (cx + rr, cy - rr), (cx, cy + rr), (cx - rr, cy - rr)]]))
        add('coarse_holes', None, ('PG', [square(0, 0, N, N)] + hs))
    # exactly one intended defect among several innocent non-rectangular holes / elements; all derived copies are generated
    for _ in range(2 * n_each):
        sd = gen_single_defect(rng)
        if sd is not None and constructible(sd[2]) and in_bounds(sd[2]):
            cases.append(dict(label=sd[0], intended=sd[1], g=sd[2], derive_all=True))
    # every kind of defect with EMPTY elements / rings / members before, between and after; all derived copies are generated
    for _ in range(2 * n_each):
        we = gen_with_empties(rng)
        if we is not None and constructible(we[2]) and in_bounds(we[2]):
            cases.append(dict(label=we[0], intended=we[1], g=we[2], derive_all=True))
    # elements inside holes of other elements (holes with overlapping / nested envelopes); all derived copies are generated
    for _ in range(2 * n_each):
        g = gen_elements_in_holes(rng)
        if g is not None and constructible(g) and in_bounds(g):
            cases.append(dict(label='elements_in_holes', intended=None, g=g, derive_all=True))
    # an element INSCRIBED in another one: every vertex on the container's boundary or inside it, touching it only at isolated
    # points, so that no segment pair is flagged and only the nested-shell / hole tests can reject it; with a touch on all four
    # sides the two envelopes are EQUAL.  The specification decides the verdict; all derived copies are generated.
    for _ in range(2 * n_each):
        for lab, g in gen_inscribed(rng):
            if constructible(g) and in_bounds(g):
                cases.append(dict(label=lab, intended=None, g=g, derive_all=True))
    return cases


def gen_inscribed(rng):
    W, H = rng.choice([4, 8, 12]), rng.choice([4, 8, 12])
    bx, ry, tx, ly = rng.randint(1, W - 1), rng.randint(1, H - 1), rng.randint(1, W - 1), rng.randint(1, H - 1)
    on = [(bx, 0), (W, ry), (tx, H), (0, ly)]                       # one point on each side, counter-clockwise
    k = rng.choice([4, 4, 4, 3, 3, 2])
    keep = sorted(rng.sample(range(4), k))
    inner = [on[i] for i in keep]
    if k == 2:                                                       # two touches: add an interior apex on one side of the chord
        a, b = inner
        cands = [(x, y) for x in range(1, W) for y in range(1, H) if (b[0] - a[0]) * (y - a[1]) - (b[1] - a[1]) * (x - a[0]) > 0]
        if not cands: return []
        inner = [a, b, rng.choice(cands)]
    elif rng.random() < 0.3:                                         # a corner of the container as an extra touch point
        corner = {(0, 1): (W, 0), (1, 2): (W, H), (2, 3): (0, H)}
        for j in range(len(keep) - 1):
            if (keep[j], keep[j + 1]) in corner and rng.random() < 0.5:
                inner.insert(j + 1, corner[(keep[j], keep[j + 1])]); break
    inner = inner + [inner[0]]
    cont = square(0, 0, W, H)
    if rng.random() < 0.5:                                           # the touch points are vertices of the container too
        body = [(0, 0), (bx, 0), (W, 0), (W, ry), (W, H), (tx, H), (0, H), (0, ly)]
        cont = body + [body[0]]
    out = []
    A, B = [cont], [inner]
    out.append(('inscribed_element_%d' % k, ('MPG', [A, B])))
    out.append(('inscribed_element_%d' % k, ('MPG', [B, A])))
    if rng.random() < 0.5:
        out.append(('inscribed_hole_%d' % k, ('PG', [cont, inner])))
    if rng.random() < 0.5:                                           # container with a hole that holds the inscribed element (valid when the touches are isolated)
        big = square(-2, -2, W + 2, H + 2)
        out.append(('inscribed_in_hole_%d' % k, ('MPG', [[big, cont], [inner]])))
        out.append(('inscribed_in_hole_%d' % k, ('MPG', [[inner], [big, cont]])))
    return out


GEN_UNITS = ['K_collinearZ', 'K_intersectZ', 'V_isAdjacentInRing', 'V_prevCoordinateInRing', 'V_findInvalidIntersection',
             'V_checkRingClosed', 'V_checkTooFewPoints', 'V_checkRingPointSize', 'V_isValidLine', 'V_isValidRing']


def run(ctx):
    ctx.cov['rule'] = ('grid geometries of every type (polygons convex / star-shaped / rectilinear traces of random cell sets, with holes placed by the '
                       'specification\'s point location; single mutations labelled with the rule they aim at; contacts by construction; random rings, lines and '
                       'multipolygons on a 3..6 lattice; integer affine images up to magnitude 2^25; units 2^e); non-trivial = the specification finds a broken '
                       'topological rule (codes 2..7), or the geometry is a valid polygonal one with >= 2 rings, or a non-simple line; distinct by geometry text')
    ctx.assumptions += [
        'the specification (Lib/ValidDefs.v) is the formal reading of the property text: rule-per-function, brute force over exact integers; "the rules are the OGC rules" is not a theorem',
        'grid inputs: integer coordinates times one power of two, |ordinate| <= 2^25 units (exact double arithmetic for every determinant the library evaluates)',
        'reported locations are compared with the exact rational locations of the specification to 1e-6 grid units',
        'rings refused by the constructors (unclosed, < 3 points) are installed with LinearRing::setPoints; a LineString with exactly one point and a polygon with an empty shell and non-empty holes cannot be constructed and are not exercised',
        'non-finite ordinates are outside the integer model: the expected verdict (invalid, Invalid Coordinate, non-finite location) is stated by the check itself',
        'correspondence is sampled (generator quality bounds it)']
    ok_build = ctx.build_repo('rel')
    # tie G: the leaf decision functions of src/operation/valid (and the LineIntersector units their prelude reads) are
    # regenerated from /repo's current source; a unit that no longer translates, or a theorem of C05/PIA.v / C05/IVO.v that
    # no longer holds of the regenerated text, takes the proof-broken path
    ctx.translate(GEN_UNITS)
    ok_coq, ax = ctx.coq_build('Properties_C05')
    drv = ctx.ocaml_driver('C05')
    hexe = os.path.join(BUILD, 'bin', 'c05')
    if not ok_build or not ctx.cxx(os.path.join(ROOT, 'harness/c05.cpp'), hexe, 'rel') or not drv:
        return
    runner = Runner(ctx, drv, hexe)
    if ctx.replay:
        return replay(ctx, runner)
    cases = []
    corpus = os.path.join(ROOT, 'gen/corpus/C05.txt')
    if os.path.exists(corpus) and not os.environ.get('C05_NO_CORPUS'):      # C05_NO_CORPUS=1: generators only (used to confirm seeded changes)
        for l in open(corpus):
            l = l.strip()
            if l and not l.startswith('#'):
                cases.append(dict(label='corpus', intended=None, g=None, text=l))
    cases += gen_cases(ctx, runner, 1200 if ctx.quick else 12000)
    # derived cases: verdict invariance under the listed transformations, executed on the library
    base_n = len(cases)
    for i in range(base_n):
        c = cases[i]
        if c['g'] is None or (not c.get('derive_all') and ctx.rng.random() > (0.2 if ctx.quick else 0.3)): continue
        for kind, t in transforms(ctx.rng, c['g']):
            cases.append(dict(label='derived:' + kind, intended=None, g=t, parent=i))
    exps = [ctx.rng.choice([0, 0, 0, 1, -1, -7, 5, 10, -20]) for _ in cases]
    for c in cases:
        if c['g'] is None: c['g'] = corpus_geom(c['text'])
    geoms = [c['g'] for c in cases]
    ctx.log('%d cases (%d base + %d derived)' % (len(cases), base_n, len(cases) - base_n))
    ms = runner.model(geoms)
    ims = runner.impl(geoms, exps)
    dist = {'labels': {}, 'model_rules': {}, 'intended_vs_model': {}, 'types': {}, 'valid': {'valid0': 0, 'invalid0': 0, 'valid1_only': 0}, 'simple': {'simple': 0, 'nonsimple': 0},
            'reported_codes': {}}
    viol = 0
    known_idx = {}
    for idx, (c, e, m, im) in enumerate(zip(cases, exps, ms, ims)):
        g = c['g']
        bad = compare(g, e, m, im)
        if m:
            first = min(m['sets'][0], key=lambda k: [10, 11, 9, 5, 6, 2, 3, 7, 4].index(k)) if m['sets'][0] else None
            rules = sorted(m['sets'][0])
            nontriv = any(k in (2, 3, 4, 5, 6, 7) for k in rules) or (m['valid'][0] and g[0] in ('PG', 'MPG') and sum(len(p) for p in ([g[1]] if g[0] == 'PG' else g[1])) >= 2) \
                or (g[0] in ('LS', 'MLS') and not m['simple'])
            ctx.count(text(g), nontriv)
            lab = c['label'].split(':')[0]
            dist['labels'][c['label']] = dist['labels'].get(c['label'], 0) + 1
            dist['types'][g[0]] = dist['types'].get(g[0], 0) + 1
            for k in rules or ['valid']:
                nm = CODE_RULE.get(k, 'valid') if k != 'valid' else 'valid'
                dist['model_rules'][nm] = dist['model_rules'].get(nm, 0) + 1
            fam = dist.setdefault('family_valid_share', {}).setdefault(lab, [0, 0]); fam[1] += 1; fam[0] += 1 if m['valid'][0] else 0
            if m['valid'][0]: dist['valid']['valid0'] += 1
            else:
                dist['valid']['invalid0'] += 1
                if m['valid'][1]: dist['valid']['valid1_only'] += 1
            dist['simple']['simple' if m['simple'] else 'nonsimple'] += 1
            if c.get('intended'):
                hit = (c['intended'] == 'valid' and m['valid'][0]) or (c['intended'] != 'valid' and any(CODE_RULE[k] == c['intended'] for k in rules))
                key = '%s -> %s' % (c['intended'], 'as intended' if hit else ('valid' if m['valid'][0] else '+'.join(CODE_RULE[k] for k in rules)))
                dist['intended_vs_model'][key] = dist['intended_vs_model'].get(key, 0) + 1
            if im and im['D'][0]['ok'] == '0':
                dist['reported_codes'][im['D'][0]['msg']] = dist['reported_codes'].get(im['D'][0]['msg'], 0) + 1
        else:
            ctx.count(text(g), False)
        # valid => every ring has non-zero area (the unproved half of C05_ring_area_partial, checked on every valid polygon drawn)
        if m and m['valid'][0] and g[0] in ('PG', 'MPG'):
            for poly in ([g[1]] if g[0] == 'PG' else g[1]):
                for r in poly:
                    if r:
                        dist['valid_rings_area_checked'] = dist.get('valid_rings_area_checked', 0) + 1
                        if ring_area2(r) == 0:
                            bad.append(('model-area', 'the specification calls this polygon valid although ring %s has zero area' % (r,)))
        # invariance on the library
        if 'parent' in c and im and ims[c['parent']]:
            p = ims[c['parent']]
            a = (im['D'][0]['ok'], im['D'][1]['ok'], im['S']); b = (p['D'][0]['ok'], p['D'][1]['ok'], p['S'])
            if a != b:
                bad.append(('invariance', '%s changes the library verdicts (valid, valid with flag, simple) from %s to %s' % (c['label'], b, a)))
        if not bad: continue
        kinds = [k for k, _ in bad]
        kk = m and im and next((known_key(k, g, m, im) for k in kinds if known_key(k, g, m, im)), None)
        if not kk and kinds == ['invariance'] and c.get('parent') in known_idx:
            kk = known_idx[c['parent']]      # the parent's answer was the known wrong one; this copy is answered correctly
        if kk:
            known_idx[idx] = kk
            ent = ctx.known_match(lambda f: f.get('key', {}).get('class') == kk)
            if ent:
                ctx.known_hit(ent)
                bad = [(k, t) for k, t in bad if not known_key(k, g, m, im)]
                # an invariance difference caused by the same known answer is not a new failure
                bad = [(k, t) for k, t in bad if k != 'invariance']
                if not bad: continue
        viol += 1
        if viol <= 6:
            kinds = [k for k, _ in bad]
            sg = shrink(runner, g, e, set(kinds)) if 'invariance' not in kinds and not any(k.endswith('failure') for k in kinds) else g
            sm, si = runner.model([sg])[0], runner.impl([sg], [e])[0]
            ctx.violation('%s_%d' % (kinds[0], idx), dict(
                case=c['label'], geometry=text(g), unit_exponent=e, shrunk=text(sg), failures=bad,
                implementation=ims_raw(im), expected=dict(valid=m['valid'], simple=m['simple'], is_ring=m['ring'], broken_rules={CODE_RULE[k]: v[:5] for k, v in m['sets'][0].items()},
                                                         broken_rules_flag={CODE_RULE[k]: v[:5] for k, v in m['sets'][1].items()}) if m else None,
                shrunk_implementation=ims_raw(si), shrunk_expected=dict(valid=sm['valid'], simple=sm['simple'], sets=str(sm['sets'])) if sm else None,
                replay='echo "%d %s" | %s   # model: echo "V %s" | %s' % (e, text(sg), hexe, text(sg), drv)), msg='; '.join(t for _, t in bad)[:400])
    ctx.cov['traces_validated_against_impl'] = len(cases)
    ctx.notes['distribution'] = dist
    for c in cases[:3]: ctx.sample(text(c['g'])[:300])
    # generator self-check: the case splits the proofs and the rules distinguish must all have been drawn
    need_rules = ['RRingNotClosed', 'RTooFewPoints', 'RSelfIntersection', 'RRingSelfIntersection', 'RHoleOutsideShell', 'RNestedHoles', 'RNestedShells', 'RDisconnectedInterior', 'valid']
    for r in need_rules:
        if dist['model_rules'].get(r, 0) == 0:
            ctx.broken.append(dict(kind='generator', name='distribution', detail='no case where the specification finds %s' % r))
    if dist['valid']['valid1_only'] == 0:
        ctx.broken.append(dict(kind='generator', name='distribution', detail='no geometry valid only with the self-touching-ring flag'))
    nonfinite(ctx, runner)
    if not ctx.quick or os.environ.get('C05_XML'):
        xml_corpus(ctx, runner)


def replay(ctx, runner):
    """./check C05 --replay <file>: re-run the recorded geometry (and its shrunk form) and decide the property on it again"""
    d = json.load(open(ctx.replay))
    e = int(d.get('unit_exponent', 0))
    for key in ('geometry', 'shrunk'):
        if not d.get(key): continue
        g = corpus_geom(d[key])
        if has_nonfinite(g):
            bad = compare_nonfinite(g, runner.impl([g], [e])[0])
        else:
            bad = runner.mismatch(g, e)
        ctx.count(text(g), True)
        ctx.log('replay %s: %s' % (key, bad or 'agrees'))
        if bad and not has_nonfinite(g):
            m, im = runner.model([g])[0], runner.impl([g], [e])[0]
            for k in [k for k, _ in bad]:
                kk = m and im and known_key(k, g, m, im)
                ent = kk and ctx.known_match(lambda f: f.get('key', {}).get('class') == kk)
                if ent:
                    ctx.known_hit(ent); bad = [(k2, t) for k2, t in bad if not known_key(k2, g, m, im)]
        if bad:
            ctx.violation('replay_' + key, dict(geometry=text(g), unit_exponent=e, failures=bad,
                                                replay='echo "%d %s" | %s' % (e, text(g), runner.hexe)), msg='; '.join(t for _, t in bad)[:300])


def ims_raw(im):
    return im and dict(isValid=im['V'], reason=im['R'], detail0=im['D'][0], detail1=im['D'][1], isSimple=im['S'], isRing=im['G'])


def corpus_geom(t):
    """inverse of text()"""
    tk = t.split(); pos = [0]
    def nx(): pos[0] += 1; return tk[pos[0] - 1]
    def num():
        t_ = nx()
        return t_ if t_ in ('nan', 'inf', '-inf') else int(t_)
    def seq():
        n = int(nx()); return [(num(), num()) for _ in range(n)]
    def optpt():
        if tk[pos[0]] == 'E': nx(); return None
        return (num(), num())
    def poly():
        k = int(nx()); return [seq() for _ in range(k)]
    def geom():
        ty = nx()
        if ty == 'PT': return ('PT', optpt())
        if ty in ('LS', 'LR'): return (ty, seq())
        if ty == 'PG': return ('PG', poly())
        m = int(nx())
        if ty == 'MPT': return (ty, [optpt() for _ in range(m)])
        if ty == 'MLS': return (ty, [seq() for _ in range(m)])
        if ty == 'MPG': return (ty, [poly() for _ in range(m)])
        if ty == 'GC': return (ty, [geom() for _ in range(m)])
        raise ValueError(ty)
    return geom()


def nonfinite(ctx, runner):
    """non-finite ordinates: every geometry type, the marker at a random vertex"""
    rng = ctx.rng
    base = [('PT', (1, 2)), ('LS', [(0, 0), (4, 4), (8, 0)]), ('LR', square(0, 0, 4, 4)), ('PG', [square(0, 0, 10, 10), square(2, 2, 4, 4)]),
            ('MPT', [(0, 0), (1, 1)]), ('MLS', [[(0, 0), (1, 1)], [(2, 2), (3, 3)]]), ('MPG', [[square(0, 0, 2, 2)], [square(4, 4, 6, 6)]]),
            ('GC', [('PT', (0, 0)), ('PG', [square(0, 0, 2, 2)])])]
    geoms = []
    for g in base:
        for mark in ('nan', 'inf', '-inf'):
            n = len(all_pts(g)); k = rng.randrange(n); cnt = [0]; which = rng.randint(0, 1)
            closed_first = {}
            def f(p):
                i = cnt[0]; cnt[0] += 1
                if i == k: return (mark, p[1]) if which == 0 else (p[0], mark)
                return p
            h = map_pts(g, f)
            # keep rings closed: if the first point of a ring was marked, mark the last as well (and vice versa)
            def fix(r):
                if len(r) >= 4 and (not isinstance(r[0][0], int) or not isinstance(r[0][1], int)): return r[:-1] + [r[0]]
                if len(r) >= 4 and (not isinstance(r[-1][0], int) or not isinstance(r[-1][1], int)): return [r[-1]] + r[1:]
                return r
            if g[0] in ('LR', 'PG', 'MPG', 'GC'): h = map_rings(h, fix, lambda p: p)
            geoms.append(h)
    ims = runner.impl(geoms, [0] * len(geoms))
    for g, im in zip(geoms, ims):
        ctx.count(text(g), False)
        bad = compare_nonfinite(g, im)
        if bad:
            ctx.violation('nonfinite_%s' % g[0], dict(geometry=text(g), failures=bad, implementation=ims_raw(im),
                                                      replay='echo "0 %s" | %s' % (text(g), runner.hexe)), msg='; '.join(t for _, t in bad)[:300])
    ctx.notes['nonfinite_cases'] = len(geoms)


def xml_corpus(ctx, runner):
    """the repository's own validity / simplicity cases, where grid-exact, against the specification and the library"""
    d = os.path.join(REPO, 'tests/xmltester/tests/general')
    stats = {}
    for fn, op in (('TestValid.xml', 'isValid'), ('TestValid2.xml', 'isValid'), ('TestValid2-big.xml', 'isValid'), ('TestSimple.xml', 'isSimple')):
        p = os.path.join(d, fn)
        if not os.path.exists(p): continue
        items = []; skipped = 0
        for desc, wkt, exp in xml_cases(p, op):
            try:
                g = parse_wkt(wkt); gg = to_grid(g)
            except Exception:
                gg = None
            if gg is None or not constructible(gg[0]): skipped += 1; continue
            items.append((desc, gg[0], gg[1], exp))
        ms = runner.model([i[1] for i in items]); ims = runner.impl([i[1] for i in items], [i[2] for i in items])
        agree = 0
        for (desc, g, e, exp), m, im in zip(items, ms, ims):
            ctx.count(text(g), True)
            bad = compare(g, e, m, im)
            if m is not None:
                mv = m['valid'][0] if op == 'isValid' else m['simple']
                if mv != exp: bad.append(('xml-expected', 'the repository test "%s" expects %s=%s, the specification says %s' % (desc, op, exp, mv)))
                else: agree += 1
            if bad:
                kinds = [k for k, _ in bad]
                ctx.violation('xml_%s_%d' % (fn.split('.')[0], len(ctx.violations)), dict(file=fn, desc=desc, geometry=text(g), unit_exponent=e, failures=bad, implementation=ims_raw(im),
                              replay='echo "%d %s" | %s' % (e, text(g), runner.hexe)), msg='; '.join(t for _, t in bad)[:300])
                if len(ctx.violations) > 8: break
        stats[fn] = dict(used=len(items), skipped_not_grid_exact=skipped, specification_agrees_with_expected=agree)
    ctx.notes['xml_corpus'] = stats
