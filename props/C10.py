"""C10 — written WKT/GeoJSON is re-readable and equals the input to stated precision.

proof:  coq/theories/C10/*.v, Properties_C10.v  (fixed layout value / error bound, number grammar, length bound, WKT structure
        round trip on the model printer/parser, shortest-digits round trip)
tie:    the hand models (NumDefs.v, WktDefs.v, JsonDefs.v) extracted to OCaml run beside the real library (harness/c10.cpp: GEOS_printDouble,
        GEOSWKTWriter_write_r under every setter combination, GEOSGeomToWKT_r, GEOSWKTReader_read_r, GeoJSON writer / reader) on generated
        doubles, numerals and geometry trees; exact string equality and bit equality of every re-read ordinate.
spec:   the property text is also decided directly on the implementation's output with exact rational arithmetic (this file).
"""
import json, math, os, re, struct, subprocess
from concurrent.futures import ThreadPoolExecutor
from fractions import Fraction
from vlib.core import ROOT, BUILD, NPROC

NAN = '7ff8000000000000'
ALLP = list(range(0, 21)) + [-1]


# ---------------------------------------------------------------------------------------------- doubles
def bits_of(d):
    return struct.unpack('<Q', struct.pack('<d', d))[0]


def dbl_of(b):
    return struct.unpack('<d', struct.pack('<Q', b & (2 ** 64 - 1)))[0]


def hx(b):
    return '%016x' % (b & (2 ** 64 - 1))


def is_nan_bits(b):
    return (b >> 52) & 0x7ff == 0x7ff and b & (2 ** 52 - 1) != 0


def is_inf_bits(b):
    return (b >> 52) & 0x7ff == 0x7ff and b & (2 ** 52 - 1) == 0


def canon(h):
    b = int(h, 16)
    return NAN if is_nan_bits(b) else h


def frac_of_bits(b):
    """exact value of a finite double"""
    s = -1 if b >> 63 else 1
    e = (b >> 52) & 0x7ff
    m = b & (2 ** 52 - 1)
    if e == 0:
        return s * Fraction(m, 2 ** 1074)
    return s * Fraction(2 ** 52 + m) * Fraction(2) ** (e - 1075)


def ulp_of_bits(b):
    e = (b >> 52) & 0x7ff
    return Fraction(2) ** (max(e, 1) - 1075)


def nextb(b, k):
    """k-th neighbour of a non-negative finite double pattern in magnitude order (sign kept)"""
    s = b & (1 << 63)
    m = (b & ~(1 << 63)) + k
    m = max(0, min(m, 0x7fefffffffffffff))
    return s | m


def rn(fr):
    """correctly rounded double of a Fraction (python's float(Fraction) is correctly rounded)"""
    try:
        return float(fr)
    except OverflowError:
        return math.inf if fr > 0 else -math.inf


# ---------------------------------------------------------------------------------------------- number generators
def gen_numbers(rng, quick):
    """list of (bits, class)"""
    out = []

    def add(d, cls, sign=True):
        b = d if isinstance(d, int) else bits_of(d)
        if is_nan_bits(b) or is_inf_bits(b):
            out.append((b, cls)); return
        if sign and rng.random() < 0.35:
            b ^= 1 << 63
        out.append((b, cls))

    # specials
    for b in [0, 1 << 63, 0x7ff0000000000000, 0xfff0000000000000, 0x7ff8000000000000, 0xfff8000000000000, 0x7ff0000000000001, 0xffffffffffffffff]:
        out.append((b, 'special'))
    # notation thresholds and precision-lift boundaries: +-ulps around 1e-4, 1e17, 1, 0.1, 0.01, 0.001
    for c, w in [(1e-4, 12), (1e17, 12), (1.0, 6), (0.1, 70), (0.01, 70), (0.001, 70), (1e-3, 3), (1e16, 4), (1e-5, 4), (1e18, 4)]:
        cb = bits_of(c)
        ks = range(-w, w + 1) if not quick or w <= 12 else sorted(set(list(range(-8, 9)) + [rng.randint(-w, w) for _ in range(12)]))
        for k in ks:
            add(nextb(cb, k), 'threshold')
    # every power of ten and its neighbours
    ks = range(-323, 309)
    for k in ks:
        if quick and not (-25 <= k <= 25) and rng.random() > 0.12:
            continue
        c = bits_of(rn(Fraction(10) ** k))
        for j in ((-2, -1, 0, 1, 2) if not quick else (-1, 0, 1)):
            add(nextb(c, j), 'pow10')
    # every decimal exponent from -25 to +25 with random mantissas (exponent notation below 1e-4 and from 1e17 on: one-, two-digit exponents, both signs)
    for k in range(-25, 26):
        for _ in range(2 if quick else 8):
            add(rn(Fraction(rng.randint(10 ** 15, 10 ** 16 - 1), 10 ** 15) * Fraction(10) ** k), 'exponent')
    # halves at every decimal position: (2j+1) * 5 * 10^(-p-1) at several magnitudes (exact ties where representable)
    for p in range(0, 21):
        for _ in range(3 if quick else 12):
            mag = rng.choice([0, 0, 1, 2, 3, 5, 8, 12])
            j = rng.randint(0, 10 ** rng.randint(0, max(1, min(15 - 0, mag + p))))
            add(rn(Fraction((2 * j + 1) * 5, 10 ** (p + 1))), 'half')
    for q in [0.5, 1.5, 2.5, 3.5, 0.25, 0.75, 0.125, 0.375, 0.0625, 2.5e-4 * 0.5, 0.00015, 0.00025, 0.5e16 + 0.5, 4503599627370496.5, 1e16 + 1, 0.15, 0.25e-3, 0.45, 0.95, 0.995, 0.9995, 0.99995, 9.5, 99.5, 999.5, 0.05, 0.005, 0.0005]:
        add(q, 'half')
    # integers up to 2^53 and beyond
    for k in range(0, 18):
        for dlt in (-1, 0, 1):
            v = 10 ** k + dlt
            if v > 0:
                add(float(v), 'integer')
    for v in [2 ** 53 - 1, 2 ** 53, 2 ** 53 + 2, 2 ** 52, 2 ** 52 + 1, 99999999999999984, 10 ** 17, 10 ** 17 + 16, 123456789012345678, 2 ** 63, 2 ** 64]:
        add(float(v), 'integer')
    for _ in range(40 if quick else 400):
        add(float(rng.randint(1, 2 ** rng.randint(1, 53))), 'integer')
    # subnormals and the ends of the range
    for b in [1, 2, 3, 0x000fffffffffffff, 0x0010000000000000, 0x0010000000000001, bits_of(1e-320), bits_of(1e-310), bits_of(2.2250738585072014e-308),
              0x7fefffffffffffff, 0x7feffffffffffffe, 0x7fefffffffffffe0, bits_of(1.797693134862315e308), bits_of(1e308), bits_of(1.5e308), bits_of(4.9e-324), bits_of(9.8e-324)]:
        add(b, 'range-end')
    for _ in range(10 if quick else 150):
        add(rng.getrandbits(52), 'subnormal')
    # whole range: random bit patterns, and a random mantissa in (a random part of) every decade — every table entry of the
    # implementation's digit generation is indexed by the decimal exponent
    for _ in range(60 if quick else 1500):
        b = rng.getrandbits(64)
        if (b >> 52) & 0x7ff == 0x7ff:
            continue
        out.append((b, 'random-bits'))
    for k in range(-323, 309):
        if quick and rng.random() > 0.3:
            continue
        for _ in range(1 if quick else 3):
            add(rn(Fraction(rng.randint(10 ** 16, 10 ** 17 - 1), 10 ** 16) * Fraction(10) ** k), 'decade')
    # coordinates as applications have them: short decimals, long decimals, moderate magnitudes
    for _ in range(500 if quick else 12000):
        r = rng.random()
        if r < 0.3:
            v = round(rng.uniform(-180, 180), rng.randint(0, 9))
        elif r < 0.5:
            v = rng.uniform(-1, 1) * 10 ** rng.randint(-6, 18)
        elif r < 0.7:
            v = rng.randint(-10 ** 7, 10 ** 7) / 10 ** rng.randint(0, 12)
        elif r < 0.85:
            v = rng.uniform(1e-4, 1.2e-4) if rng.random() < 0.5 else rng.uniform(0.9e17, 1.1e17)
        else:
            v = dbl_of(bits_of(rng.uniform(0.5, 1)) + rng.randint(-3, 3)) * 10 ** rng.randint(-5, 17)
        add(v, 'coordinate', sign=False)
    return out


def gen_numerals(rng, quick):
    """decimal strings for the reader tie (strtod vs strtod_spec): midpoints, near-midpoints, grammar forms, rejects"""
    out = []
    fixed = ['1e23', '8.5e22', '9007199254740993', '9007199254740992.5', '9007199254740993.0000000000000000000000001', '9007199254740992.9999999999999999999',
             '+1', '.5', '5.', '1.e2', '1E+02', '1e-02', '0e0', '-0', '-0.0e-999', '0.0', '00012.50', '1e400', '-1e400', '1e-400', '4.9e-324', '2.47e-324',
             '2.4703282292062327e-324', '2.4703282292062328e-324', '2.4703282292062327208051355972538991e-324', '1.7976931348623157e308', '1.7976931348623158e308',
             '1.797693134862315807e308', '1.797693134862315808e308', '179769313486231580793728971405303415079934132710037826936173778980444968292764750946649017977587207096330286416692887910946555547851940402630657488671505820681908902000708383676273854845817711531764475730270069855571366959622842914819860834936475292719074168444365510704342711559699508093042880177904174497791.9999999',
             'inf', '-INF', 'Infinity', 'iNfInItY', '+infinity', 'nan', 'NaN', '-nan', '+nan', 'NAN',
             'e5', '.', '+', '-', '1e', '1e+', '1.2.3', '1x', 'infin', 'nanx', '--1', '1_0', '1e5.5', '+-1', 'E', '1ee5', '.e1', 'in', 'infinit', '1e+-5', '0.1e', '12abc']
    out += [(s, 'fixed') for s in fixed]
    n = 40 if quick else 600
    for _ in range(n):
        # exact midpoint between two adjacent doubles of moderate exponent, and a hair above / below
        e = rng.randint(-60, 70)
        m = rng.getrandbits(52) | (1 << 52)
        mid = Fraction(2 * m + 1) * Fraction(2) ** (e - 53 - 1)
        s = frac_to_decimal(mid)
        out.append((s, 'midpoint'))
        if '.' not in s:
            s += '.0'
        out.append((s + '0' * rng.randint(0, 30) + '1', 'above-midpoint'))
        t = dec_minus_epsilon(s)
        out.append((t, 'below-midpoint'))
    for _ in range(n):
        # random decimal numerals in all grammatical forms
        digs = ''.join(rng.choice('0123456789') for _ in range(rng.randint(1, 25)))
        k = rng.randint(0, len(digs))
        s = digs[:k] + ('.' if rng.random() < 0.7 else '') + digs[k:] if rng.random() < 0.8 else digs
        if not any(ch.isdigit() for ch in s):
            s = '7' + s
        if rng.random() < 0.5:
            s += rng.choice('eE') + rng.choice(['', '+', '-']) + str(rng.randint(0, 330))
        s = rng.choice(['', '', '-', '+']) + s
        out.append((s, 'random-numeral'))
    return out


def frac_to_decimal(fr):
    """exact finite decimal expansion of a positive dyadic rational"""
    num, den = fr.numerator, fr.denominator
    k = den.bit_length() - 1
    assert den == 1 << k
    n = num * 5 ** k
    s = str(n)
    if k == 0:
        return s
    if len(s) <= k:
        s = '0' * (k - len(s) + 1) + s
    return (s[:-k] + '.' + s[-k:]).rstrip('0').rstrip('.') if False else s[:-k] + '.' + s[-k:]


def dec_minus_epsilon(s):
    """a decimal string slightly below s (s has a fractional part): decrement the last non-zero digit, append 9s"""
    t = list(s.rstrip('0'))
    i = len(t) - 1
    while i >= 0 and t[i] in '.0':
        i -= 1
    if i < 0:
        return s
    t[i] = str(int(t[i]) - 1)
    return ''.join(t) + '9' * 25


# ---------------------------------------------------------------------------------------------- the property on one number
NUM_RE = re.compile(r'^[+-]?(\d+\.?\d*|\.\d+)([eE][+-]?\d+)?$')
SPECIAL_RE = re.compile(r'^[+-]?(inf|infinity|nan)$', re.I)


def numeral_value(s):
    """(Fraction value, Fraction unit of the last emitted digit) of a decimal numeral"""
    m = re.match(r'^([+-]?)(\d*)\.?(\d*)(?:[eE]([+-]?\d+))?$', s)
    sign, ip, fp, ex = m.group(1), m.group(2), m.group(3), int(m.group(4) or 0)
    n = int((ip + fp) or '0')
    e = ex - len(fp)
    v = Fraction(n) * Fraction(10) ** e
    return (-v if sign == '-' else v), Fraction(10) ** e


def sig_digits(s):
    m = re.match(r'^[+-]?(\d*)\.?(\d*)', s)
    return len((m.group(1) + m.group(2)).lstrip('0'))


def allowed_sig_digits(d, text, prec):
    """how many significant digits the requested precision lets the trimmed writer emit for the value d (a non-zero Fraction)"""
    if 'e' in text:
        return prec + 1                      # d.ddd...e+X : one digit before the point
    a = abs(d)
    if a >= 1:
        n = len(str(int(a)))                 # integer digits
        return n + prec
    z = 0                                    # zeros between the point and the first significant digit
    while a * 10 < 1:
        a *= 10; z += 1
    return prec - z


def check_number(ctx, d_bits, text, reread_hex, trimmed, what, prec=None):
    """decide the property clauses for one emitted number. returns None if fine, else (key, message)"""
    if reread_hex == 'REJECT':
        return ('rejected', '%s: emitted number %r is not accepted by the WKT reader' % (what, text))
    if any(ch in text for ch in '\n\r\t() ,'):
        return ('delimiter', '%s: emitted number %r contains a tokenizer delimiter' % (what, text))
    if trimmed and len(text) > 27:
        return ('length', '%s: %r is %d characters, the buffer holds 27 + NUL' % (what, text, len(text)))
    r_bits = int(reread_hex, 16)
    if is_nan_bits(d_bits):
        return None if is_nan_bits(r_bits) and SPECIAL_RE.match(text) else ('nan', '%s: NaN written as %r re-read as %s' % (what, text, reread_hex))
    if is_inf_bits(d_bits):
        return None if r_bits == d_bits else ('inf', '%s: infinity written as %r re-read as %s' % (what, text, reread_hex))
    if not NUM_RE.match(text):
        return ('grammar', '%s: finite value written as %r' % (what, text))
    d = frac_of_bits(d_bits)
    if is_nan_bits(r_bits):
        return ('nan', '%s: %r re-read as NaN' % (what, text))
    v, unit = numeral_value(text)
    if is_inf_bits(r_bits):
        # the emitted decimal is beyond the largest finite double
        if abs(v - d) <= unit / 2 + ulp_of_bits(d_bits):
            return ('overflow-on-reread', '%s: %s written as %r (within half a unit of the last digit) re-reads as infinity' % (what, hx(d_bits), text))
        return ('bound', '%s: %r re-read as infinity' % (what, text))
    r = frac_of_bits(r_bits)
    if abs(r - d) > unit / 2 + max(ulp_of_bits(d_bits), ulp_of_bits(r_bits)):
        return ('bound', '%s: |reread - d| = %s exceeds half a unit of the last emitted digit (%s) + 1 ulp; text %r' % (what, float(abs(r - d)), float(unit), text))
    if sig_digits(text) >= 17 and r != d:
        return ('exact17', '%s: %r carries >= 17 significant digits but re-reads as %s, not %s' % (what, text, reread_hex, hx(d_bits)))
    if trimmed and prec is not None and d != 0 and r != d and allowed_sig_digits(d, text, prec) >= 17:
        return ('exact17', '%s: the requested precision allows 17 significant digits, but %r re-reads as %s, not %s' % (what, text, reread_hex, hx(d_bits)))
    if trimmed and text.startswith('-') and v == 0:
        return ('minus-zero', '%s: trimmed writer printed %r' % (what, text))
    return None


def parse_fields(line):
    """'T0=..:bits|U3=..:bits' -> dict"""
    res = {}
    for f in line.split('|'):
        k, _, rest = f.partition('=')
        s, _, b = rest.rpartition(':')
        res[k] = (s, b)
    return res


# ---------------------------------------------------------------------------------------------- geometry trees
# tree = ('P'|'L'|'R'|'C', d, [coords (x,y,z,m) as bit patterns]) | (node code, [children]);   d = Z + 2*M
LEAVES = 'PLRC'


def tree_words(t):
    if t[0] in LEAVES:
        w = [t[0], str(t[1]), str(len(t[2]))]
        for c in t[2]:
            w += [hx(v) for v in c]
        return w
    w = [t[0], str(len(t[1]))]
    for c in t[1]:
        w += tree_words(c)
    return w


def tree_dump(t):
    if t[0] in LEAVES:
        d = t[1]
        parts = []
        for c in t[2]:
            o = [canon(hx(c[0])), canon(hx(c[1]))] + ([canon(hx(c[2]))] if d & 1 else []) + ([canon(hx(c[3]))] if d & 2 else [])
            parts.append(' ' + ','.join(o))
        return '(%s %d %d%s)' % (t[0], d, len(t[2]), ''.join(parts))
    return '(%s %d%s)' % (t[0], len(t[1]), ''.join(' ' + tree_dump(c) for c in t[1]))


def parse_dump(s):
    """inverse of the dump format -> tree with coords as lists of hex strings (only the present ordinates)"""
    toks = s.replace('(', ' ( ').replace(')', ' ) ').split()
    pos = [0]

    def rec():
        assert toks[pos[0]] == '('; pos[0] += 1
        code = toks[pos[0]]; pos[0] += 1
        if code in LEAVES:
            d = int(toks[pos[0]]); n = int(toks[pos[0] + 1]); pos[0] += 2
            cs = []
            for _ in range(n):
                cs.append(toks[pos[0]].split(',')); pos[0] += 1
            assert toks[pos[0]] == ')'; pos[0] += 1
            return (code, d, cs)
        n = int(toks[pos[0]]); pos[0] += 1
        kids = [rec() for _ in range(n)]
        assert toks[pos[0]] == ')'; pos[0] += 1
        return (code, kids)
    return rec()


def t_hasz(t):
    return bool(t[1] & 1) if t[0] in LEAVES else any(t_hasz(c) for c in t[1])


def t_hasm(t):
    return bool(t[1] & 2) if t[0] in LEAVES else any(t_hasm(c) for c in t[1])


def t_empty(t):
    if t[0] in LEAVES:
        return len(t[2]) == 0
    if t[0] in ('PG', 'CP'):
        return t_empty(t[1][0]) if t[1] else True
    return all(t_empty(c) for c in t[1])


def t_shape(t):
    """type tree + emptiness + coordinate counts, dimensions and ordinates erased"""
    if t[0] in LEAVES:
        return (t[0], len(t[2]))
    return (t[0], tuple(t_shape(c) for c in t[1]))


def t_depth(t):
    return 1 if t[0] in LEAVES else 1 + max([t_depth(c) for c in t[1]] + [0])


def t_leaves(t):
    if t[0] in LEAVES:
        yield t
    else:
        for c in t[1]:
            yield from t_leaves(c)


def t_has_curve_family(t):
    if t[0] in LEAVES:
        return t[0] == 'C'
    return t[0] in ('CC', 'CP', 'MC', 'MS') or any(t_has_curve_family(c) for c in t[1])


POOL = [0.0, 1.0, -1.0, 2.5, 0.1, -0.5, 1e-5, 123456.789, 1e17, 0.00015, 12345678.125, -179.99999999, 3.0000000000000004, 1e22, 0.3, 1 / 3.0, 7.0, 0.5, 1e-4, 99999999999999984.0]
RARE = [1.5e300, 5e-324, -1.7976931348623157e308, 2.2250738585072014e-308]


def gen_ord(rng, allow_special):
    r = rng.random()
    if allow_special and r < 0.08:
        return rng.choice([0x7ff8000000000000, 0x7ff0000000000000, 0xfff0000000000000, 1 << 63, 0xfff8000000000001])
    if r < 0.45:
        return bits_of(rng.choice(POOL))
    if r < 0.8:
        return bits_of(round(rng.uniform(-1000, 1000), rng.randint(0, 6)))
    if r < 0.985:
        return bits_of(rng.uniform(-1, 1) * 10 ** rng.randint(-8, 19))
    if r < 0.995:
        return bits_of(rng.choice(RARE))
    b = rng.getrandbits(64)
    return b if (b >> 52) & 0x7ff != 0x7ff else bits_of(1.25)


def gen_coord(rng, special_xy=False):
    return (gen_ord(rng, special_xy), gen_ord(rng, special_xy), gen_ord(rng, True), gen_ord(rng, True))


def finite_xy(c):
    return not any(((v >> 52) & 0x7ff) == 0x7ff for v in c[:2])


class TreeGen:
    def __init__(self, rng, json_safe=False):
        self.rng = rng
        self.base = rng.choice([0, 0, 1, 1, 2, 3])
        self.mixed = rng.random() < 0.35
        self.json_safe = json_safe

    def dims(self):
        return self.rng.choice([0, 1, 2, 3]) if self.mixed and self.rng.random() < 0.5 else self.base

    def coord(self, anchor=False):
        c = gen_coord(self.rng, special_xy=not anchor and not self.json_safe and self.rng.random() < 0.3)
        if anchor or self.json_safe:
            while not finite_xy(c):
                c = gen_coord(self.rng)
        if self.json_safe:      # GeoJSON carries finite values only: Z either finite or NaN (dropped)
            z = c[2]
            if is_inf_bits(z):
                z = bits_of(7.5)
            c = (c[0], c[1], z, c[3])
        return c

    def point(self):
        return ('P', self.dims(), [] if self.rng.random() < 0.2 else [self.coord()])

    def line(self, empty_ok=True, n=None):
        if empty_ok and self.rng.random() < 0.15:
            return ('L', self.dims(), [])
        n = n or self.rng.choice([2, 2, 3, 5, 11, 12])
        return ('L', self.dims(), [self.coord() for _ in range(n)])

    def ring(self, empty_ok=False):
        if empty_ok and self.rng.random() < 0.2:
            return ('R', self.dims(), [])
        n = self.rng.choice([3, 3, 4, 7])
        cs = [self.coord(anchor=(i == 0)) for i in range(n)]
        return ('R', self.dims(), cs + [cs[0]])

    def circ(self, empty_ok=True, start=None, closed=False):
        if empty_ok and self.rng.random() < 0.12:
            return ('C', self.dims(), [])
        n = self.rng.choice([3, 3, 5])
        cs = [self.coord(anchor=True) for _ in range(n)]
        if start is not None:
            cs[0] = start
        if closed:
            cs[-1] = cs[0]
        return ('C', self.dims(), cs)

    def compound(self, closed=False):
        if not closed and self.rng.random() < 0.12:
            return ('CC', [])
        k = self.rng.randint(1, 3)
        secs = []
        start = self.coord(anchor=True)
        first = start
        for i in range(k):
            last = (i == k - 1)
            if self.rng.random() < 0.5:
                s = self.circ(False, start=start)
            else:
                s = ('L', self.dims(), [start] + [self.coord(anchor=True) for _ in range(self.rng.randint(1, 3))])
            if last and closed:
                s = (s[0], s[1], s[2][:-1] + [first])
            secs.append(s)
            start = s[2][-1]
        return ('CC', secs)

    def polygon(self):
        if self.rng.random() < 0.15:
            return ('PG', [('R', self.dims(), [])])
        holes = [self.ring(empty_ok=self.rng.random() < 0.1) for _ in range(self.rng.choice([0, 0, 1, 2]))]
        return ('PG', [self.ring()] + holes)

    def closed_curve(self):
        r = self.rng.random()
        if r < 0.35:
            t = self.ring(); return ('L', t[1], t[2])
        if r < 0.7:
            return self.circ(False, closed=True)
        return self.compound(closed=True)

    def curvepolygon(self):
        if self.rng.random() < 0.15:
            return ('CP', [('R', self.dims(), [])])
        return ('CP', [self.closed_curve() for _ in range(self.rng.choice([1, 1, 2, 3]))])

    def curve(self):
        r = self.rng.random()
        return self.line() if r < 0.4 else self.circ() if r < 0.75 else self.compound()

    def any(self, depth):
        kinds = ['P', 'L', 'R', 'C', 'CC', 'PG', 'CP', 'MP', 'ML', 'MG', 'MC', 'MS'] + (['GC', 'GC'] if depth > 0 else [])
        if self.json_safe:
            kinds = ['P', 'L', 'R', 'PG', 'MP', 'ML', 'MG'] + (['GC', 'GC'] if depth > 0 else []) + (['MC', 'CP'] if self.rng.random() < 0.08 else [])
        k = self.rng.choice(kinds)
        n = self.rng.choice([0, 1, 1, 2, 3])
        if k == 'P': return self.point()
        if k == 'L': return self.line()
        if k == 'R': return self.ring(empty_ok=True)
        if k == 'C': return self.circ()
        if k == 'CC': return self.compound()
        if k == 'PG': return self.polygon()
        if k == 'CP': return self.curvepolygon()
        if k == 'MP': return ('MP', [self.point() for _ in range(n)])
        if k == 'ML': return ('ML', [self.line() for _ in range(n)])
        if k == 'MG': return ('MG', [self.polygon() for _ in range(n)])
        if k == 'MC': return ('MC', [self.curve() for _ in range(n)])
        if k == 'MS': return ('MS', [self.polygon() if self.rng.random() < 0.5 else self.curvepolygon() for _ in range(n)])
        return ('GC', [self.any(depth - 1) for _ in range(n)])


def gen_dimension_mix(rng):
    """one tree whose parts disagree on dimensionality: per coordinate (NaN vs finite Z / M), per ring, per multi member, per collection member;
    the part that carries the ordinate comes first or later (both orders), the others lack it (flags) or hold only NaN. X, Y and finite Z are
    plain finite values so that the same tree is valid input for the GeoJSON writer."""
    NANB = 0x7ff8000000000000
    fin = lambda: bits_of(round(rng.uniform(-500, 500), rng.randint(0, 4)))

    def part_dims(has):         # how a part without the ordinate is represented: no flag, or flag with NaN everywhere
        return rng.choice(['noflag', 'allnan']) if not has else rng.choice(['all', 'all', 'some'])

    def coords(n, zmode, mmode, closed=False):
        cs = []
        for i in range(n):
            z = fin() if zmode == 'all' or (zmode == 'some' and rng.random() < 0.5) else NANB
            m = fin() if mmode == 'all' or (mmode == 'some' and rng.random() < 0.5) else NANB
            cs.append((fin(), fin(), z, m))
        if zmode == 'some' and all(is_nan_bits(c[2]) for c in cs):
            cs[-2 if closed else -1] = cs[-2 if closed else -1][:2] + (fin(), cs[-1][3])
        if zmode == 'some' and rng.random() < 0.5:            # the first coordinate without the ordinate, a later one with it
            cs[0] = cs[0][:2] + (NANB, cs[0][3])
        if closed:
            cs[-1] = cs[0]
        return cs

    def flags(zmode, mmode):
        return (0 if zmode == 'noflag' else 1) + (0 if mmode == 'noflag' else 2)

    use_m = rng.random() < 0.3          # GeoJSON ignores M; WKT carries it
    n = rng.choice([2, 2, 3])
    who = rng.randrange(n)              # which part carries Z
    if rng.random() < 0.25:
        who = -1 if rng.random() < 0.5 else None   # none / all
    zs = [part_dims(who is None or i == who) for i in range(n)]
    ms = [part_dims(use_m and rng.random() < 0.5) if use_m else 'noflag' for i in range(n)]
    leaf = lambda k, i, cnt, closed=False: (k, flags(zs[i], ms[i]), coords(cnt, zs[i], ms[i], closed))
    ring = lambda i: leaf('R', i, rng.choice([4, 5]), True)
    line = lambda i: leaf('L', i, rng.choice([2, 3, 4]))
    point = lambda i: leaf('P', i, 1)
    kind = rng.choice(['PG', 'PG', 'MG', 'MG2', 'ML', 'MP', 'L', 'GC', 'GC2', 'CP', 'MC', 'MS'])
    if kind == 'PG': return ('PG', [ring(i) for i in range(n)])
    if kind == 'MG': return ('MG', [('PG', [ring(i)]) for i in range(n)])
    if kind == 'MG2': return ('MG', [('PG', [ring(0)]), ('PG', [ring(i) for i in range(1, n)] if n > 1 else [ring(0)])][::rng.choice([1, -1])])
    if kind == 'ML': return ('ML', [line(i) for i in range(n)])
    if kind == 'MP': return ('MP', [point(i) for i in range(n)])
    if kind == 'L': return leaf('L', 0, 4) if zs[0] != 'noflag' else ('L', 1, coords(4, 'some', 'noflag'))
    if kind == 'GC': return ('GC', [rng.choice([point, line])(i) for i in range(n)])
    if kind == 'GC2': return ('GC', [('PG', [ring(0)]), ('GC', [line(i) for i in range(1, n)]) if n > 1 else point(0)][::rng.choice([1, -1])])
    if kind == 'CP': return ('CP', [('L', flags(zs[i], ms[i]), coords(5, zs[i], ms[i], True)) for i in range(n)])
    if kind == 'MC': return ('MC', [line(i) for i in range(n)])
    return ('MS', [('PG', [ring(i)]) for i in range(n)])


def gen_empty_positions(rng):
    """one Multi* / collection (possibly nested in a collection) of a single dimensionality with EMPTY members at chosen positions:
    first, middle, last, several, all"""
    d = rng.choice([0, 1, 1, 2, 3, 3])
    fin = lambda: bits_of(round(rng.uniform(-500, 500), rng.randint(0, 3)))
    co = lambda: (fin(), fin(), fin(), fin())

    def closed(n):
        cs = [co() for _ in range(n)]
        return cs + [cs[0]]
    n = rng.choice([2, 3, 3, 4, 5])
    pat = rng.choice(['first', 'first', 'middle', 'last', 'several', 'first+last', 'all'])
    empty = [False] * n
    if pat in ('first', 'first+last'): empty[0] = True
    if pat in ('last', 'first+last'): empty[-1] = True
    if pat == 'middle': empty[n // 2 if n > 2 else 0] = True
    if pat == 'several': empty = [rng.random() < 0.6 for _ in range(n)]; empty[rng.randrange(n)] = True
    if pat == 'all': empty = [True] * n
    kind = rng.choice(['MP', 'MP', 'ML', 'ML', 'MG', 'MC', 'MS', 'GC', 'GC', 'PGh', 'CPh'])

    def member(k, e):
        if k == 'P': return ('P', d, [] if e else [co()])
        if k == 'L': return ('L', d, [] if e else [co() for _ in range(rng.choice([2, 3]))])
        if k == 'C': return ('C', d, [] if e else [co() for _ in range(3)])
        if k == 'R': return ('R', d, [] if e else closed(3))
        if k == 'PG': return ('PG', [('R', d, [] if e else closed(3))])
        if k == 'CP': return ('CP', [('R', d, [])] if e else [('L', d, closed(3))])
        if k == 'CC':
            if e: return ('CC', [])
            a, b, c = co(), co(), co()
            return ('CC', [('L', d, [a, b]), ('C', d, [b, co(), c])])
        if k == 'MPn': return ('MP', [('P', d, [] if (e or i == 0) else [co()]) for i in range(2)])
        raise ValueError(k)
    if kind == 'MP': t = ('MP', [member('P', e) for e in empty])
    elif kind == 'ML': t = ('ML', [member('L', e) for e in empty])
    elif kind == 'MG': t = ('MG', [member('PG', e) for e in empty])
    elif kind == 'MC': t = ('MC', [member(rng.choice(['L', 'L', 'C', 'CC']), e) for e in empty])
    elif kind == 'MS': t = ('MS', [member(rng.choice(['PG', 'PG', 'CP']), e) for e in empty])
    elif kind == 'GC': t = ('GC', [member(rng.choice(['P', 'L', 'R', 'PG', 'MPn', 'C']), e) for e in empty])
    elif kind == 'PGh': t = ('PG', [('R', d, closed(3))] + [member('R', e) for e in empty[1:]])
    else: t = ('CP', [('L', d, closed(3))] + [('L', d, [] if e else closed(3)) for e in empty[1:]])
    if rng.random() < 0.3:
        t = ('GC', [t] if rng.random() < 0.5 else [t, ('P', d, [co()])][::rng.choice([1, -1])])
    return t, pat


# ---------------------------------------------------------------------------------------------- shrinking of trees
def shrink_candidates(t):
    """smaller variants of a tree (one step)"""
    if t[0] in LEAVES:
        cs = t[2]
        if t[0] in 'PL' and len(cs) > (2 if t[0] == 'L' else 0):
            yield (t[0], t[1], cs[:-1])
        if cs and t[0] in 'PL':
            yield (t[0], t[1], [])
        for i, c in enumerate(cs):
            for j in range(4):
                if c[j] != bits_of(1.0) and j >= 2:
                    nc = list(c); nc[j] = bits_of(1.0)
                    yield (t[0], t[1], cs[:i] + [tuple(nc)] + cs[i + 1:])
        return
    kids = t[1]
    for i in range(len(kids)):
        if not (t[0] in ('PG', 'CP') and i == 0) and t[0] != 'CC':
            yield (t[0], kids[:i] + kids[i + 1:])
        if t[0] == 'GC':
            yield kids[i]
    for i, k in enumerate(kids):
        for k2 in shrink_candidates(k):
            yield (t[0], kids[:i] + [k2] + kids[i + 1:])


def shrink(tree, fails, budget=120):
    cur = tree
    progress = True
    while progress and budget > 0:
        progress = False
        for cand in shrink_candidates(cur):
            budget -= 1
            if budget <= 0:
                break
            try:
                if fails(cand):
                    cur = cand; progress = True; break
            except Exception:
                pass
    return cur


# ---------------------------------------------------------------------------------------------- running
def run_parallel(ctx, argv, lines, timeout=900, env=None, jobs=None, pairs=0):
    """run line-in/line-out over chunks in parallel; the first 2*pairs lines are kept in (N, D) pairs"""
    jobs = jobs or max(1, min(NPROC, 16))
    n = len(lines)
    if n == 0:
        return []
    size = max(2, (n + jobs - 1) // jobs)
    size += size % 2
    chunks = [lines[i:i + size] for i in range(0, n, size)]
    with ThreadPoolExecutor(max_workers=jobs) as ex:
        res = list(ex.map(lambda ch: ctx.run_lines(argv, ch, timeout=timeout, env=env), chunks))
    return [x for r in res for x in r]


def build_locale(ctx):
    """a locale with decimal comma, compiled with localedef from a source written here (the sandbox ships only C / C.utf8 / POSIX)"""
    d = os.path.join(ctx.work, 'loc')
    os.makedirs(d, exist_ok=True)
    if os.path.exists(os.path.join(d, 'xx_XX', 'LC_NUMERIC')):
        return d
    with open(os.path.join(d, 'ASCII.cm'), 'w') as f:
        f.write('<code_set_name> ANSI_X3.4-1968\n<comment_char> %\n<escape_char> /\n<mb_cur_min> 1\n<mb_cur_max> 1\nCHARMAP\n')
        for i in range(128):
            f.write('<U%04X> /x%02x CH%d\n' % (i, i, i))
        f.write('END CHARMAP\n')
    cats = ['LC_IDENTIFICATION', 'LC_CTYPE', 'LC_COLLATE', 'LC_TIME', 'LC_NUMERIC', 'LC_MONETARY', 'LC_MESSAGES', 'LC_PAPER', 'LC_NAME', 'LC_ADDRESS', 'LC_TELEPHONE', 'LC_MEASUREMENT']
    with open(os.path.join(d, 'xx_XX.src'), 'w') as f:
        f.write('comment_char %\nescape_char /\nLC_IDENTIFICATION\ntitle "decimal comma test locale"\nsource ""\naddress ""\ncontact ""\nemail ""\ntel ""\nfax ""\nlanguage ""\nterritory ""\nrevision "1.0"\ndate "2026-10-01"\n')
        for c in cats:
            f.write('category "i18n:2012";%s\n' % c)
        f.write('END LC_IDENTIFICATION\nLC_NUMERIC\ndecimal_point "<U002C>"\nthousands_sep "<U002E>"\ngrouping 3;3\nEND LC_NUMERIC\n')
    subprocess.run(['localedef', '-c', '-i', 'xx_XX.src', '-f', './ASCII.cm', './xx_XX'], cwd=d, stdout=subprocess.PIPE, stderr=subprocess.STDOUT, timeout=60)
    return d if os.path.exists(os.path.join(d, 'xx_XX', 'LC_NUMERIC')) else None


def known(ctx, fid):
    return ctx.known_match(lambda k: k.get('id') == fid)


def report(ctx, fid, name, replay, msg):
    """a property failure: KNOWN-FINDING if its class is listed, otherwise a violation"""
    k = known(ctx, fid) if fid else None
    if k:
        ctx.known_hit(k)
        ctx.notes.setdefault('known_finding_hits', {}).setdefault(fid, 0)
        ctx.notes['known_finding_hits'][fid] += 1
        ctx.notes.setdefault('known_finding_example', {}).setdefault(fid, replay)
        return False
    if len(ctx.violations) < 8:
        ctx.violation(name, replay, msg=msg)
    return True


def mixed_collection(t, dim, old3d):
    """the input class of F20: a GEOMETRYCOLLECTION that gets a Z/M word while a member ends with a different dimensionality"""
    def out(t):
        z, m = t_hasz(t), t_hasm(t)
        if dim == 2: return (False, False)
        if dim == 3 and z and m: return (True, False)
        return (z, m)
    def tagged(o):
        return (not o[0] and o[1]) if old3d else (o[0] or o[1])
    def rec(t):
        if t[0] in LEAVES: return False
        if t[0] == 'GC':
            o = out(t)
            if tagged(o) and any(out(c) != o or (old3d and t_empty(c) and False) for c in t[1]):
                return True
        return any(rec(c) for c in t[1])
    return rec(t)


def run(ctx):
    ctx.cov['rule'] = ('numbers: doubles by class (specials, +-ulps around 1e-4/1e17/1/0.1/0.01/0.001, every power of ten +-ulps, halves at decimal positions 0..20, '
                       'integers to 2^53 and beyond, subnormals, range ends, random bit patterns, application-like coordinates) x precision -1..20 x trim on/off; '
                       'numerals: midpoints / near-midpoints / grammar forms / rejects; geometries: random trees over all 13 types (nesting, EMPTY at any level, '
                       'mixed dimensions, NaN/Inf ordinates) x writer settings. non-trivial = a number whose output depends on the precision or uses exponent '
                       'notation, a numeral that is a (near-)midpoint or a reject, a geometry with >= 2 levels or an EMPTY component or mixed dimensions; distinct by case text')
    ctx.assumptions += [
        'Ryu d2d (table-driven shortest digits) is not modelled: `shortest` is an exact search; equality of digits is checked on every generated double',
        'libc strtod is modelled by strtod_spec (correct rounding of the decimal value; hexadecimal floats excluded); compared on every emitted number and on generated numerals',
        'libm log10/floor in the precision lift are modelled by the exact floor(log10); printf("%.*f") by exact decimal rounding',
        'nlohmann JSON dump/parse is not modelled: the JSON text is parsed here and every number token must denote the written double exactly',
        'geometry construction in the harness uses the C++ GeometryFactory; LinearRing/CircularString/CompoundCurve constructors validate closure/contiguity, so such junction points are finite',
        'correspondence is sampled (generator classes listed in notes.distribution)']
    ok_build = ctx.build_repo('rel')
    ok_coq, ax = ctx.coq_build('Properties_C10')
    drv = ctx.ocaml_driver('C10')
    hexe = os.path.join(BUILD, 'bin', 'c10')
    if not ok_build or not ctx.cxx(os.path.join(ROOT, 'harness/c10.cpp'), hexe, 'rel'):
        return
    rng = ctx.rng
    quick = ctx.quick
    dist = {'numbers': {}, 'numerals': {}, 'geometry_kinds': {}, 'cfg': {}, 'json': 0, 'reject_predicted': 0, 'notation': {'fixed': 0, 'exp': 0, 'special': 0}}

    # ------------------------------------------------------------------ corpus first
    corpus = []
    cdir = os.path.join(ROOT, 'gen', 'corpus')
    cfile = os.path.join(cdir, 'C10.txt')
    if os.path.exists(cfile):
        corpus = [l.strip() for l in open(cfile) if l.strip() and not l.startswith('#')]

    # ------------------------------------------------------------------ numbers
    nums = gen_numbers(rng, quick)
    P = ','.join(map(str, ALLP))
    nlines = []
    for b, cls in nums:
        dist['numbers'][cls] = dist['numbers'].get(cls, 0) + 1
        big = ((b >> 52) & 0x7ff) > 1023 + 90          # untrimmed text of huge values is hundreds of digits: fewer precisions
        up = '0,2,-1' if big else '0,1,2,3,5,8,15,16,17,20,-1'
        nlines.append('N %s %s %s' % (hx(b), P, up))
    # every power of two 2^-1074 .. 2^1023 (the doubles whose lower neighbour is at half the distance, plus the subnormal ones) at precisions that keep all digits
    for k in range(-1074, 1024):
        b = (1 << (k + 1074)) if k < -1022 else ((k + 1023) << 52)
        if rng.random() < 0.3:
            b |= 1 << 63
        nums.append((b, 'power-of-two')); dist['numbers']['power-of-two'] = dist['numbers'].get('power-of-two', 0) + 1
        nlines.append('N %s %s %s' % (hx(b), '17,20' if quick else '0,5,16,17,20,-1', '-'))
    numerals = gen_numerals(rng, quick)
    slines = ['S ' + s for s, _ in numerals]
    for _, cls in numerals:
        dist['numerals'][cls] = dist['numerals'].get(cls, 0) + 1

    # ------------------------------------------------------------------ geometries
    glines, gcases = [], []
    ng = 260 if quick else 5000
    for i in range(ng):
        js = rng.random() < 0.3
        tg = TreeGen(rng, json_safe=js)
        t = tg.any(2 if rng.random() < 0.8 else 3)
        dist['geometry_kinds'][t[0]] = dist['geometry_kinds'].get(t[0], 0) + 1
        words = ' '.join(tree_words(t))
        cfgs = []
        for _ in range(3 if quick else 4):
            cfgs.append((rng.choice([0, 1, 1]), rng.choice(ALLP), rng.choice([2, 3, 4, 4]), rng.choice([0, 0, 1])))
        if rng.random() < 0.25:
            cfgs.append('L')
        for c in cfgs:
            if c == 'L':
                glines.append('G L - - - ' + words); gcases.append(('G', 'L', t))
            else:
                glines.append('G %d %d %d %d %s' % (c + (words,))); gcases.append(('G', c, t))
            key = 'legacy' if c == 'L' else 'trim%d old3d%d dim%d' % (c[0], c[3], c[2])
            dist['cfg'][key] = dist['cfg'].get(key, 0) + 1
        if js or rng.random() < 0.15:
            ind = rng.choice([-1, -1, 0, 2, 4])
            glines.append('J %d %s' % (ind, words)); gcases.append(('J', ind, t)); dist['json'] += 1
    # dimensionality mixes: per coordinate / ring / member, carrier first or later, through every writer setting and GeoJSON
    for i in range(70 if quick else 1200):
        t = gen_dimension_mix(rng)
        dist['dimension_mix'] = dist.get('dimension_mix', 0) + 1
        words = ' '.join(tree_words(t))
        for c in [(rng.choice([0, 1]), rng.choice(ALLP), rng.choice([3, 4]), 0), (1, rng.choice(ALLP), rng.choice([2, 3, 4]), rng.choice([0, 1]))]:
            glines.append('G %d %d %d %d %s' % (c + (words,))); gcases.append(('G', c, t))
            key = 'trim%d old3d%d dim%d' % (c[0], c[3], c[2]); dist['cfg'][key] = dist['cfg'].get(key, 0) + 1
        ind = rng.choice([-1, -1, 2])
        glines.append('J %d %s' % (ind, words)); gcases.append(('J', ind, t)); dist['json'] += 1
    # EMPTY members at every position of every Multi* / collection type, one dimensionality, every old-3D x output-dimension setting
    for i in range(45 if quick else 800):
        t, pat = gen_empty_positions(rng)
        dist.setdefault('empty_positions', {}); dist['empty_positions'][pat] = dist['empty_positions'].get(pat, 0) + 1
        words = ' '.join(tree_words(t))
        for old3 in (0, 1):
            for dim in (2, 3, 4):
                if dim == 2 and rng.random() < 0.5:
                    continue
                c = (rng.choice([0, 1, 1]), rng.choice(ALLP), dim, old3)
                glines.append('G %d %d %d %d %s' % (c + (words,))); gcases.append(('G', c, t))
                key = 'trim%d old3d%d dim%d' % (c[0], c[3], c[2]); dist['cfg'][key] = dist['cfg'].get(key, 0) + 1
        if not t_has_curve_family(t) and rng.random() < 0.5:
            glines.append('J -1 ' + words); gcases.append(('J', -1, t)); dist['json'] += 1
    for l in corpus:
        if l.startswith(('G ', 'J ')):
            w = l.split()
            try:
                if w[0] == 'G':
                    t = parse_tree_words(w[5:]); c = 'L' if w[1] == 'L' else (int(w[1]), int(w[2]), int(w[3]), int(w[4]))
                    glines.append(l); gcases.append(('G', c, t))
                else:
                    t = parse_tree_words(w[2:]); glines.append(l); gcases.append(('J', int(w[1]), t))
            except Exception as e:
                ctx.log('bad corpus line', l[:80], e)
        elif l.startswith('N '):
            nlines.append(l); nums.append((int(l.split()[1], 16), 'corpus'))
        elif l.startswith('S '):
            slines.append(l); numerals.append((l[2:], 'corpus'))

    all_lines = nlines + slines + glines
    ctx.log('cases: %d numbers, %d numerals, %d geometry lines' % (len(nlines), len(slines), len(glines)))
    # the model additionally reports, for every double, the digits its search returns and whether they are in the rounding interval / in range
    # (the hypothesis of shortest_roundtrip_partial); the D line follows its N line so that the digits are computed once
    model_in = []
    for l in nlines:
        model_in += [l, 'D ' + l.split()[1]]
    model_in += slines + glines
    model_raw = run_parallel(ctx, [drv], model_in, timeout=1500, pairs=len(nlines)) if drv else None
    impl = run_parallel(ctx, [hexe], all_lines, timeout=600)
    ctx.log('model and implementation ran')
    model = None
    if model_raw is not None and len(model_raw) == len(model_in):
        model = model_raw[0:2 * len(nlines):2] + model_raw[2 * len(nlines):]
        dl = model_raw[1:2 * len(nlines):2]
        n_fin = n_ok = 0
        for l, o in zip(nlines, dl):
            w = o.split()
            if w[:1] == ['special']:
                continue
            n_fin += 1
            try:
                k, g = int(w[0]), int(w[1])
                if w[2] == 'true' and 1 <= k < 10 ** 17 and -400 <= g <= 380:
                    n_ok += 1
                else:
                    ctx.broken.append(dict(kind='proof', name='hypothesis of shortest_roundtrip_partial', detail='digits of %s: %s' % (l.split()[1], o)))
            except Exception:
                ctx.broken.append(dict(kind='correspondence', name='model D line', detail=l + ' -> ' + o[:200]))
        ctx.notes['digits_in_range'] = '%d/%d finite non-zero doubles: 1 <= k < 10^17, -400 <= g <= 380, k*10^g in the rounding interval' % (n_ok, n_fin)
    elif model_raw is not None:
        ctx.broken.append(dict(kind='correspondence', name='model driver output', detail='%d lines for %d cases' % (len(model_raw), len(model_in))))

    disagreements = []

    def disagree(name, case, m, i):
        disagreements.append((name, case, m, i))

    # ------------------------------------------------------------------ numbers: correspondence + property
    maxlen = 0
    for idx, (b, cls) in enumerate(nums):
        line = nlines[idx]
        got = impl[idx]
        if got.startswith(('CRASH', 'TIMEOUT', 'HARNESS-ERROR')):
            report(ctx, None, 'num_crash_%d' % idx, dict(case=line, implementation=got, replay='echo "%s" | %s' % (line, hexe)), 'implementation %s on %s' % (got[:200], line))
            continue
        fi = parse_fields(got)
        fm = parse_fields(model[idx]) if model is not None and not model[idx].startswith(('CRASH', 'TIMEOUT', 'MODEL-ERROR')) else None
        if model is not None and fm is None:
            ctx.broken.append(dict(kind='correspondence', name='model failed on a number', detail=line + ' -> ' + model[idx][:300]))
        t20 = fi.get('T20', ('', ''))[0]
        depends = False
        for k, (s, rb) in fi.items():
            trimmed = k.startswith('T')
            if '!writer=' in s:
                s0, _, w = s.partition('!writer=')
                report(ctx, None, 'writer_vs_printDouble_%d' % idx, dict(case=line, field=k, GEOS_printDouble=s0, GEOSWKTWriter_write_r=w, replay='echo "%s" | %s' % (line, hexe)),
                       'GEOSWKTWriter_write_r prints %r where GEOS_printDouble prints %r' % (w, s0))
                s = s0
            if s.startswith('OVERFLOW'):
                report(ctx, None, 'buffer_%d' % idx, dict(case=line, field=k, implementation=s, replay='echo "%s" | %s' % (line, hexe)), 'GEOS_printDouble %s for %s precision %s' % (s, hx(b), k[1:]))
                continue
            if trimmed:
                maxlen = max(maxlen, len(s))
                if s != t20: depends = True
                if k == 'T20':
                    key = 'special' if not NUM_RE.match(s) else 'exp' if 'e' in s else 'fixed'
                    dist['notation'][key] += 1
            pk = int(k[1:]); pk = 16 if pk < 0 else pk
            bad = check_number(ctx, b, s, rb, trimmed, '%s precision %s' % ('trimmed' if trimmed else 'untrimmed', k[1:]), prec=pk)
            if bad:
                rep = dict(case=line, double=hx(b), value=repr(dbl_of(b)), field=k, written=s, reread=rb, why=bad[1], replay='echo "%s" | %s' % (line, hexe))
                fid = 'C10-E' if bad[0] == 'overflow-on-reread' else None
                report(ctx, fid, 'num_%s_%d_%s' % (bad[0], idx, k), rep, bad[1])
            if fm is not None and fm.get(k) != (s if '!writer=' not in fi[k][0] else fi[k][0], rb) and fm.get(k) != (s, rb):
                disagree('number %s' % k, line, fm.get(k), (s, rb))
        ctx.count(('N', hx(b)), depends or 'e' in t20)
    ctx.notes['max_trimmed_length_seen'] = maxlen

    # ------------------------------------------------------------------ numerals: strtod tie
    off = len(nlines)
    for j, (s, cls) in enumerate(numerals):
        got = impl[off + j]
        ctx.count(('S', s), cls != 'random-numeral' or True)
        # S decides directly where python can: python's float() is correctly rounded for decimal numerals
        exp = None
        if NUM_RE.match(s):
            try:
                exp = hx(bits_of(float(s)))
            except (ValueError, OverflowError):
                exp = None
        elif SPECIAL_RE.match(s):
            exp = NAN if 'n' == s.lstrip('+-')[0].lower() else hx(bits_of(-math.inf if s.startswith('-') else math.inf))
        else:
            exp = 'REJECT'
        if exp is not None and got != exp and not (exp == NAN and got == NAN):
            report(ctx, None, 'numeral_%d' % j, dict(numeral=s, implementation=got, expected=exp, replay='echo "S %s" | %s' % (s, hexe)),
                   'WKT reader reads the numeral %r as %s, correct rounding gives %s' % (s[:60], got, exp))
        if model is not None and model[off + j] != got:
            disagree('numeral', 'S ' + s, model[off + j], got)

    # ------------------------------------------------------------------ geometries
    off2 = len(nlines) + len(slines)
    for j, (kind, c, t) in enumerate(gcases):
        line = glines[j]
        got = impl[off2 + j]
        mod = model[off2 + j] if model is not None else None
        nontriv = t_depth(t) >= 2 or any(len(l[2]) == 0 for l in t_leaves(t)) or len(set(l[1] for l in t_leaves(t))) > 1
        ctx.count((kind, line), nontriv)
        replay = 'echo "%s" | %s' % (line, hexe)
        if got.startswith(('CRASH', 'TIMEOUT')):
            report(ctx, None, 'geom_crash_%d' % j, dict(case=line, implementation=got, replay=replay), 'implementation %s' % got[:200]); continue
        if got.startswith('HARNESS-ERROR'):
            ctx.notes.setdefault('unconstructible', 0); ctx.notes['unconstructible'] += 1
            continue
        gi = dict(f.split('=', 1) for f in got.split('|') if '=' in f)
        gm = dict(f.split('=', 1) for f in mod.split('|') if '=' in f) if mod and not mod.startswith(('CRASH', 'TIMEOUT', 'MODEL-ERROR')) else None
        if mod is not None and gm is None:
            ctx.broken.append(dict(kind='correspondence', name='model failed on a geometry', detail=line[:300] + ' -> ' + mod[:300]))
        want_i = tree_dump(t)
        if gi.get('I') != want_i:
            ctx.broken.append(dict(kind='harness', name='geometry construction', detail='wanted %s got %s' % (want_i[:300], gi.get('I', '')[:300]))); continue
        if kind == 'G':
            check_wkt(ctx, j, line, c, t, gi, gm, replay, dist, disagree, hexe)
        else:
            check_json(ctx, j, line, c, t, gi, gm, replay, dist, disagree)

    # ------------------------------------------------------------------ model / implementation disagreements
    if disagreements:
        name, case, m, i = disagreements[0]
        ctx.broken.append(dict(kind='correspondence', name='C10 ' + name,
                               detail='%d disagreements; first: case %s\nmodel: %s\nimpl:  %s' % (len(disagreements), case[:400], str(m)[:600], str(i)[:600])))
        ctx.notes['disagreements'] = [dict(what=n, case=cs[:300], model=str(mm)[:300], impl=str(ii)[:300]) for n, cs, mm, ii in disagreements[:10]]
    ctx.cov['traces_validated_against_impl'] = ctx.cov['evaluations'] if model is not None else 0

    # ------------------------------------------------------------------ locale independence
    locdir = build_locale(ctx)
    ctx.notes['locale'] = dict(available=os.popen('locale -a 2>/dev/null').read().split(), built='xx_XX (decimal comma) via localedef' if locdir else None)
    if locdir:
        env = dict(os.environ, LOCPATH=locdir)
        sub = ['LOCALE'] + nlines[::max(1, len(nlines) // (300 if quick else 3000))] + slines[:60] + glines[::max(1, len(glines) // (150 if quick else 1500))]
        ref = run_parallel(ctx, [hexe], sub, timeout=600)
        loc = run_parallel(ctx, [hexe, 'xx_XX'], sub, timeout=600, env=env)
        ctx.notes['locale']['probe'] = loc[0] if loc else None
        if not loc or 'printf(1.5)=1,50' not in loc[0]:
            ctx.broken.append(dict(kind='harness', name='locale run', detail='the decimal-comma locale did not take effect: %s' % (loc[:1],)))
        else:
            nbad = 0
            for l, a, b in list(zip(sub, ref, loc))[1:]:
                ctx.count(('loc', l), True)
                if a != b:
                    nbad += 1
                    report(ctx, None, 'locale_%d' % nbad, dict(case=l, C_locale=a[:1000], decimal_comma_locale=b[:1000],
                                                              replay='echo "%s" | LOCPATH=%s %s xx_XX' % (l, locdir, hexe)),
                           'output under a decimal-comma LC_NUMERIC differs from the C locale')
                    if nbad > 3: break
            ctx.notes['locale']['cases'] = len(sub) - 1
    else:
        ctx.assumptions.append('no non-C locale exists in the sandbox and localedef could not build one: locale independence not exercised')

    ctx.notes['distribution'] = dist
    for l in (nlines[:2] + slines[:1] + glines[:3]):
        ctx.sample(l[:300])
    # generator self-check: every case split of the proofs must have been drawn
    need = [('fixed', dist['notation']['fixed']), ('exp', dist['notation']['exp']), ('special', dist['notation']['special']),
            ('threshold', dist['numbers'].get('threshold', 0)), ('half', dist['numbers'].get('half', 0)), ('subnormal', dist['numbers'].get('subnormal', 0)),
            ('json', dist['json']), ('old3d', sum(v for k, v in dist['cfg'].items() if 'old3d1' in k)), ('legacy', dist['cfg'].get('legacy', 0))]
    for k, v in need:
        if v == 0:
            ctx.broken.append(dict(kind='generator', name='distribution', detail='no case of class %s generated' % k))
    for k in ['P', 'L', 'R', 'C', 'CC', 'PG', 'CP', 'MP', 'ML', 'MG', 'MC', 'MS', 'GC']:
        if not quick and dist['geometry_kinds'].get(k, 0) == 0:
            ctx.broken.append(dict(kind='generator', name='distribution', detail='no top-level geometry of kind %s generated' % k))


def parse_tree_words(w):
    pos = [0]

    def rec():
        k = w[pos[0]]; pos[0] += 1
        if k in LEAVES:
            d = int(w[pos[0]]); n = int(w[pos[0] + 1]); pos[0] += 2
            cs = []
            for _ in range(n):
                cs.append(tuple(int(x, 16) for x in w[pos[0]:pos[0] + 4])); pos[0] += 4
            return (k, d, cs)
        n = int(w[pos[0]]); pos[0] += 1
        return (k, [rec() for _ in range(n)])
    return rec()


def expected_top_dims(t, c):
    """the writer's documented dropping rule at top level: output dimension 3 keeps Z over M, 2 drops both; old-3D has no Z/ZM tag,
    so an all-EMPTY geometry loses Z (and ZM)"""
    trim, prec, dim, old = c
    if t[0] == 'GC':        # every member of a collection is tagged (and clipped) on its own
        ds = [expected_top_dims(ch, c) for ch in t[1]]
        return any(d[0] for d in ds), any(d[1] for d in ds)
    z, m = t_hasz(t), t_hasm(t)
    if dim == 2: z, m = False, False
    elif dim == 3 and z and m: m = False
    return z, m


WKT_NUM = re.compile(r'(?<![A-Za-z])[+-]?(?:\d[\d.]*(?:[eE][+-]?\d+)?|\.\d+(?:[eE][+-]?\d+)?|[Nn]a[Nn]|nan|inf|Infinity)(?![A-Za-z])')


def check_wkt(ctx, j, line, c, t, gi, gm, replay, dist, disagree, hexe):
    cc = (0, 16, 2, 0) if c == 'L' else c
    trim, prec, dim, old = cc
    W, R = gi.get('W', ''), gi.get('R', '')
    # a finite ordinate next to DBL_MAX rounded up past the largest double: the text carries an infinity the geometry never had (C10-E);
    # the constructors of curved geometries then refuse it ("orientationIndex encountered NaN/Inf numbers"), which the structural model does not model
    overflowed = any(NUM_RE.match(x) and math.isinf(float(x)) for x in (m.group(0) for m in WKT_NUM.finditer(W)))
    if gm is not None:
        if gm.get('W') != W:
            disagree('WKT text', line, gm.get('W'), W)
        if (gm.get('R', '').split(' ')[0] == 'FAIL') != (R.split(' ')[0] == 'FAIL') or (not R.startswith('FAIL') and gm.get('R') != R):
            if not (overflowed and R.startswith('FAIL') and 'NaN/Inf' in R):
                disagree('WKT re-read', line, gm.get('R'), R)
    if W.startswith('WRITE-FAIL'):
        report(ctx, None, 'wkt_write_%d' % j, dict(case=line, implementation=W, replay=replay), 'WKT writer failed: ' + W[:200]); return
    if R.startswith('FAIL'):
        if gm is not None and gm.get('X') == 'NONE':
            dist['reject_predicted'] += 1
        fid = ('C10-B' if old else 'C10-A') if (gm is None or gm.get('X') == 'NONE') else None
        if fid == 'C10-B' and mixed_collection(t, dim, True):
            fid = 'C10-A'
        if fid is None and overflowed:
            fid = 'C10-E'

        def fails(t2):
            l2 = 'G %d %d %d %d %s' % (trim, prec, dim, old, ' '.join(tree_words(t2))) if c != 'L' else 'G L - - - ' + ' '.join(tree_words(t2))
            o = ctx.run_lines([hexe], [l2], timeout=20)[0]
            return '|R=FAIL' in o
        small = t
        if not (fid and known(ctx, fid)):
            small = shrink(t, fails)
        rep = dict(case=line, settings=dict(trim=trim, precision=prec, dimension=dim, old3D=old, legacy_GEOSGeomToWKT=(c == 'L')), written=W, reader=R,
                   shrunk='G %d %d %d %d %s' % (trim, prec, dim, old, ' '.join(tree_words(small))), replay=replay,
                   expected='every string the WKT writer produces is accepted by the WKT reader')
        report(ctx, fid, 'wkt_unreadable_%d' % j, rep, 'WKT writer output is rejected by the reader: %s  (%s)' % (W[:150], R[:120]))
        return
    try:
        rt = parse_dump(R)
    except Exception as e:
        ctx.broken.append(dict(kind='harness', name='dump parse', detail=R[:300])); return
    # type tree, emptiness
    if t_shape(rt) != t_shape(t):
        report(ctx, None, 'wkt_shape_%d' % j, dict(case=line, written=W, reread=R, input=gi.get('I'), replay=replay), 'type tree / emptiness changed by WKT write+read'); return
    ez, em = expected_top_dims(t, cc)
    rz, rm = t_hasz(rt), t_hasm(rt)
    if (rz, rm) != (ez, em):
        # old-3D is documented to carry no Z / ZM word: a sequence that is EMPTY (or read before any coordinate) comes back without Z
        lost_by_old3d = old and rz <= ez and rm <= em and any(len(l[2]) == 0 for l in t_leaves(t))
        if not lost_by_old3d:
            report(ctx, None, 'wkt_dims_%d' % j, dict(case=line, written=W, reread=R, expected_dims=dict(z=ez, m=em), got=dict(z=rz, m=rm), replay=replay),
                   'dimensionality after re-read is Z=%s M=%s, the dropping rule gives Z=%s M=%s' % (rz, rm, ez, em)); return
    # ordinates: the numbers of the text, in order, against the kept ordinates of the input
    texts = [m.group(0) for m in WKT_NUM.finditer(W)]
    kept = kept_ordinates(t, cc)
    rords = [int(o, 16) for l in t_leaves(rt) for cs in l[2] for o in cs]
    if len(texts) == len(kept) == len(rords):
        for (ob, s, rb) in zip(kept, texts, rords):
            bad = check_number(ctx, ob, s, hx(rb), bool(trim), 'ordinate', prec=(16 if prec < 0 else prec))
            if bad:
                fid = 'C10-E' if bad[0] == 'overflow-on-reread' else None
                if report(ctx, fid, 'wkt_ord_%s_%d' % (bad[0], j), dict(case=line, ordinate=hx(ob), written=s, reread=hx(rb), why=bad[1], replay=replay), bad[1]):
                    break
    else:
        ctx.notes.setdefault('ordinate_alignment_skipped', 0); ctx.notes['ordinate_alignment_skipped'] += 1


def kept_ordinates(t, c):
    """the ordinates the writer prints, in order: every sequence under one tagged element is written with that element's output ordinates"""
    trim, prec, dim, old = c

    def out(t):
        z, m = t_hasz(t), t_hasm(t)
        if dim == 2: return (False, False)
        if dim == 3 and z and m: return (True, False)
        return (z, m)
    res = []

    def walk(t, o):
        if t[0] in LEAVES:
            for cidx, cd in enumerate(t[2]):
                res.append(cd[0]); res.append(cd[1])
                if o[0]: res.append(cd[2] if t[1] & 1 else 0x7ff8000000000000)
                if o[1]: res.append(cd[3] if t[1] & 2 else 0x7ff8000000000000)
            return
        if t[0] == 'GC':
            for ch in t[1]:
                walk(ch, out(ch))
            return
        if t[0] in ('PG', 'CP', 'CC') and t_empty(t):
            return
        if t[0] == 'MP':
            for ch in t[1]:
                walk((ch[0], ch[1], ch[2][:1]), o)
            return
        for ch in t[1]:
            walk(ch, o)
    walk(t, out(t))
    return res


def json_canon(text):
    """the JSON tree an implementation string denotes, in the canonical form of the model driver; numbers as bit patterns"""
    def num(s):
        return '#' + hx(bits_of(float(s)))
    class N(str):
        pass
    obj = json.loads(text, parse_float=lambda s: N(num(s)), parse_int=lambda s: N(num(s)), object_pairs_hook=lambda kv: ('obj', kv))

    def rec(o):
        if o is None: return 'null'
        if isinstance(o, N): return str(o)
        if isinstance(o, str): return '"%s"' % o
        if isinstance(o, list): return '[' + ','.join(rec(x) for x in o) + ']'
        if isinstance(o, tuple) and o[0] == 'obj': return '{' + ','.join('"%s":%s' % (k, rec(v)) for k, v in o[1]) + '}'
        return '?%r' % (o,)
    return rec(obj)


def json_expected_shape(t):
    """documented GeoJSON mapping: LinearRing is written as LineString; nothing else may change"""
    if t[0] in LEAVES:
        return ('L' if t[0] == 'R' else t[0], len(t[2]))
    if t[0] == 'PG':
        return ('PG', tuple(('R', len(r[2])) for r in t[1]))
    if t[0] == 'MG':
        return ('MG', tuple(json_expected_shape(c) for c in t[1]))
    if t[0] == 'MP':
        return ('MP', tuple(('P', min(1, len(c[2]))) for c in t[1]))
    return (t[0], tuple(json_expected_shape(c) for c in t[1]))


def has_empty_multipoint_member(t):
    if t[0] in LEAVES: return False
    if t[0] == 'MP' and any(len(c[2]) == 0 for c in t[1]): return True
    return any(has_empty_multipoint_member(c) for c in t[1])


def curve_family_without_arc(t):
    """a CompoundCurve / CurvePolygon / MultiCurve / MultiSurface node none of whose parts is a CircularString"""
    def arc(t):
        return t[0] == 'C' if t[0] in LEAVES else any(arc(c) for c in t[1])
    def rec(t):
        if t[0] in LEAVES: return False
        if t[0] in ('CC', 'CP', 'MC', 'MS') and not arc(t): return True
        return any(rec(c) for c in t[1])
    return rec(t)


def check_json(ctx, j, line, ind, t, gi, gm, replay, dist, disagree):
    W, R = gi.get('W', ''), gi.get('R', '')
    text = W.replace('\\n', '\n').replace('\\p', '|')
    wrote = not W.startswith('WRITE-FAIL')
    can = None
    if wrote:
        try:
            can = json_canon(text)
        except Exception as e:
            report(ctx, None, 'json_syntax_%d' % j, dict(case=line, written=W, error=str(e), replay=replay), 'GeoJSON writer output is not JSON: %s' % e); return
    if gm is not None:
        if (gm.get('E') == 'NOWRITE') != (not wrote) or (wrote and gm.get('E') != can):
            disagree('GeoJSON tree', line, gm.get('E'), can if wrote else W)
        if wrote and ((gm.get('R') == 'FAIL') != R.startswith('FAIL') or (not R.startswith('FAIL') and gm.get('R') != R)):
            disagree('GeoJSON re-read', line, gm.get('R'), R)
    if not wrote:
        return          # an exception, not a string: curved geometry is documented as unsupported
    nonfinite = any(((v >> 52) & 0x7ff) == 0x7ff for l in t_leaves(t) for cd in l[2] for v in (cd[0], cd[1]) + ((cd[2],) if l[1] & 1 and not is_nan_bits(cd[2]) else ()))
    if R.startswith('FAIL'):
        if nonfinite:
            ctx.notes.setdefault('json_nonfinite_unreadable', 0); ctx.notes['json_nonfinite_unreadable'] += 1
            return      # the property promises GeoJSON exactness for finite values only
        fid = 'C10-C' if curve_family_without_arc(t) else None
        report(ctx, fid, 'json_unreadable_%d' % j, dict(case=line, written=W[:2000], reader=R, replay=replay, expected='every string the GeoJSON writer produces is accepted by the GeoJSON reader'),
               'GeoJSON writer output is rejected by the reader: %s (%s)' % (W[:120], R[:120]))
        return
    rt = parse_dump(R)
    if t_shape(rt) != json_expected_shape(t):
        fid = 'C10-D' if has_empty_multipoint_member(t) else None
        report(ctx, fid, 'json_shape_%d' % j, dict(case=line, written=W[:2000], reread=R, input=gi.get('I'), replay=replay), 'type tree / emptiness changed by GeoJSON write+read')
        return
    # exact values: X, Y always; Z where present and not NaN
    for lo, lr in zip(t_leaves_json(t), t_leaves(rt)):
        for co, cr in zip(lo[2], lr[2]):
            want = [hx(co[0]), hx(co[1])] + ([hx(co[2])] if lo[1] & 1 and not is_nan_bits(co[2]) else [])
            got = cr[:2] + ([cr[2]] if len(cr) > 2 and cr[2] != NAN else [])
            if want != got:
                report(ctx, None, 'json_value_%d' % j, dict(case=line, written=W[:2000], wanted=want, reread=cr, replay=replay), 'GeoJSON re-read ordinates %s differ from the written %s' % (cr, want))
                return


def t_leaves_json(t):
    if t[0] in LEAVES:
        yield t
    elif t[0] == 'MP':
        for c in t[1]:
            if c[2]:
                yield (c[0], c[1], c[2][:1])
    else:
        for c in t[1]:
            yield from t_leaves_json(c)
