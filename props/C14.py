"""C14 — an interrupt at any checkpoint aborts cleanly and leaves the library usable.

proof:   coq/theories/C14/*.v, Properties_C14.v : Interrupt state machine (request/cancel/check/registerCallback/process/interrupt),
         interruptible operation = program of polls under try/catch clauses; interrupt_clears, no_request_no_throw,
         interrupt_at_any_k, cancel_before_poll, interrupt_reaches_boundary (catch clauses), execute maps the exception to the error value.
tie G:   translator units Intr_* (src/util/Interrupt.cpp) proven equal to the hand model (coq/theories/C14/IntrGen.v);
         generated inventories (coq/theories/Gen/C14_Inventory.v): checkpoint sites, catch clauses on the call paths from the C API
         entry points to the checkpoints, error values of the entry points -- `catch_inventory_ok` is closed by computation.
tie M:   the extracted model (ocaml/drv_C14.ml) predicts, for an operation with N polls, the outcome of an interrupt at every poll k;
         harness/c14.cpp performs exactly that fault enumeration on the real library (ASan + LeakSanitizer build).
"""
import hashlib, json, math, os, re, struct, subprocess, time
from concurrent.futures import ThreadPoolExecutor
from vlib.core import ROOT, BUILD, REPO, COQ, NPROC, sh

# ===================================================================== geometry values and WKB (written here, not by GEOS)
def _pt(x, y): return struct.pack('<dd', float(x), float(y))
def wkb(g):
    t, v = g
    code = {'Point': 1, 'LineString': 2, 'Polygon': 3, 'MultiPoint': 4, 'MultiLineString': 5, 'MultiPolygon': 6, 'GeometryCollection': 7}[t]
    b = b'\x01' + struct.pack('<I', code)
    if t == 'Point':
        return b + (_pt(*v) if v is not None else struct.pack('<dd', float('nan'), float('nan')))
    if t == 'LineString':
        return b + struct.pack('<I', len(v)) + b''.join(_pt(*p) for p in v)
    if t == 'Polygon':
        return b + struct.pack('<I', len(v)) + b''.join(struct.pack('<I', len(r)) + b''.join(_pt(*p) for p in r) for r in v)
    return b + struct.pack('<I', len(v)) + b''.join(wkb(x) for x in v)
def hexwkb(g): return wkb(g).hex().upper()

def wkt(g):
    t, v = g
    f = lambda p: '%r %r' % (float(p[0]), float(p[1]))
    if t == 'Point': return 'POINT(%s)' % f(v) if v is not None else 'POINT EMPTY'
    if t == 'LineString': return 'LINESTRING(%s)' % ','.join(map(f, v)) if v else 'LINESTRING EMPTY'
    if t == 'Polygon': return 'POLYGON(%s)' % ','.join('(%s)' % ','.join(map(f, r)) for r in v) if v else 'POLYGON EMPTY'
    return '%s(%s)' % (t.upper(), ','.join(wkt(x) for x in v)) if v else t.upper() + ' EMPTY'

def nverts(g):
    t, v = g
    if t == 'Point': return 1
    if t == 'LineString': return len(v)
    if t == 'Polygon': return sum(len(r) for r in v)
    return sum(nverts(x) for x in v)

# ---------------------------------------------------------------------- shapes
def rnd(rng, grid):
    return (lambda x: round(x)) if grid else (lambda x: round(x, 6))

def star(rng, cx, cy, n, r, grid=False, ratio=0.5):
    q = rnd(rng, grid); n = max(4, n - n % 2)
    ph = rng.random() * 6.28
    pts = [(q(cx + (r if i % 2 == 0 else r * ratio) * math.cos(ph + 2 * math.pi * i / n)), q(cy + (r if i % 2 == 0 else r * ratio) * math.sin(ph + 2 * math.pi * i / n))) for i in range(n)]
    ded = [p for i, p in enumerate(pts) if p != pts[i - 1]]
    return ('Polygon', [ded + [ded[0]]])

def blob(rng, cx, cy, n, r, grid=False, hole=False):
    q = rnd(rng, grid)
    angs = sorted(rng.random() * 2 * math.pi for _ in range(n))
    pts = []
    for a in angs:
        rr = r * (0.55 + 0.45 * rng.random())
        p = (q(cx + rr * math.cos(a)), q(cy + rr * math.sin(a)))
        if not pts or p != pts[-1]: pts.append(p)
    if len(pts) > 1 and pts[0] == pts[-1]: pts.pop()
    if len(pts) < 3: pts = [(q(cx - r), q(cy - r)), (q(cx + r), q(cy - r)), (q(cx), q(cy + r))]
    rings = [pts + [pts[0]]]
    if hole:
        hr = r * 0.2
        rings.append([(q(cx - hr), q(cy - hr)), (q(cx - hr), q(cy + hr)), (q(cx + hr), q(cy + hr)), (q(cx + hr), q(cy - hr)), (q(cx - hr), q(cy - hr))])
    return ('Polygon', rings)

def comb(rng, x0, y0, teeth, w, hgt, vertical=False):
    pts = [(x0, y0)]
    for i in range(teeth):
        xa = x0 + 2 * i * w
        pts += [(xa, y0 + hgt), (xa + w, y0 + hgt), (xa + w, y0 + 1), (xa + 2 * w, y0 + 1)]
    pts += [(x0 + 2 * teeth * w, y0), (x0, y0)]
    if vertical: pts = [(y, x) for x, y in pts][::-1]
    return ('Polygon', [pts])

def squares(rng, n, size, gap, jitter=0.0):
    polys = []
    m = max(1, int(math.sqrt(n)))
    for i in range(n):
        x = (i % m) * (size + gap) + rng.uniform(-jitter, jitter); y = (i // m) * (size + gap) + rng.uniform(-jitter, jitter)
        x, y = round(x, 6), round(y, 6)
        polys.append(('Polygon', [[(x, y), (x + size, y), (x + size, y + size), (x, y + size), (x, y)]]))
    return polys

def bowtie(rng, n, r):
    """self-intersecting ring: a star polygon {n/k} (invalid), input of make-valid / isvalid"""
    k = rng.choice([2, 3]) if n > 6 else 2
    n = n | 1 if k == 2 else n
    ph = rng.random()
    idx = [(i * k) % n for i in range(n)]
    pts = [(round(r * math.cos(ph + 2 * math.pi * i / n), 5), round(r * math.sin(ph + 2 * math.pi * i / n), 5)) for i in idx]
    ded = [p for i, p in enumerate(pts) if p != pts[i - 1]]
    return ('Polygon', [ded + [ded[0]]])

def zigzag(rng, n, x0, y0, dx, amp, grid=False):
    q = rnd(rng, grid)
    return ('LineString', [(q(x0 + i * dx), q(y0 + (amp if i % 2 else -amp) * (0.5 + 0.5 * rng.random()))) for i in range(n)])

def randlines(rng, n, R, grid=False):
    q = rnd(rng, grid)
    out = []
    for _ in range(n):
        a = (q(rng.uniform(0, R)), q(rng.uniform(0, R))); b = (q(rng.uniform(0, R)), q(rng.uniform(0, R)))
        if a != b: out.append(('LineString', [a, b]))
    return out

def gridlines(rng, n, step):
    """n horizontal + n vertical lines, fully noded afterwards -> (n-1)^2 square faces for the polygonizer"""
    L = []
    for i in range(n):
        L.append(('LineString', [(0, i * step), ((n - 1) * step, i * step)]))
        L.append(('LineString', [(i * step, 0), (i * step, (n - 1) * step)]))
    return L

def noded_grid(rng, n, step, dangles=0, cut=False):
    L = []
    for i in range(n):
        for j in range(n - 1):
            L.append(('LineString', [(j * step, i * step), ((j + 1) * step, i * step)]))
            L.append(('LineString', [(i * step, j * step), (i * step, (j + 1) * step)]))
    for d in range(dangles):
        L.append(('LineString', [(d * step + step / 2.0, 0), (d * step + step / 2.0, -step / 2.0)]))
    if cut:
        L.append(('LineString', [((n - 1) * step, 0), ((n + 1) * step, 0)]))
        s = (n + 1) * step
        L += [('LineString', [(s, 0), (s + step, 0)]), ('LineString', [(s + step, 0), (s + step, step)]), ('LineString', [(s + step, step), (s, step)]), ('LineString', [(s, step), (s, 0)])]
    return L

def points(rng, n, R, grid=False):
    q = rnd(rng, grid); seen = set(); out = []
    while len(out) < n:
        p = (q(rng.uniform(0, R)), q(rng.uniform(0, R)))
        if p not in seen: seen.add(p); out.append(('Point', p))
    return out

def translate(g, dx, dy):
    t, v = g
    if t == 'Point': return (t, (v[0] + dx, v[1] + dy))
    if t == 'LineString': return (t, [(x + dx, y + dy) for x, y in v])
    if t == 'Polygon': return (t, [[(x + dx, y + dy) for x, y in r] for r in v])
    return (t, [translate(x, dx, dy) for x in v])

# ---------------------------------------------------------------------- cases
OVERLAY = ['intersection', 'union', 'difference', 'symdifference']
PREDS = ['intersects', 'disjoint', 'touches', 'crosses', 'within', 'contains', 'overlaps', 'equals', 'covers', 'coveredby']
PREP = ['prep_intersects', 'prep_contains', 'prep_containsproperly', 'prep_covers', 'prep_coveredby', 'prep_touches', 'prep_crosses',
        'prep_overlaps', 'prep_within', 'prep_disjoint', 'prep_relate']
# operations named by the property text (every one of them must be exercised with N >= 1 polls on some input, see self-check)
REQUIRED_GROUPS = {
    'overlay': OVERLAY, 'union': ['unaryunion'], 'buffer': ['buffer'], 'relate': ['relate'] + PREDS, 'validity repair': ['makevalid'],
    'polygonize': ['polygonize'], 'convex hull': ['convexhull'], 'interior point': ['pointonsurface'], 'inscribed circle': ['mic'],
    'empty circle': ['lec'], 'noding': ['node'], 'snapping': ['snap'],
}


def pair_inputs(rng, quick):
    """pairs (A, B, tag) for binary operations: overlapping areas of several kinds, area/line, line/line, shared edges"""
    out = []
    n = rng.choice([12, 24, 40])
    A = star(rng, 0, 0, n, 10); B = star(rng, 3, 2, n - 4, 9)
    out.append((A, B, 'stars'))
    A = star(rng, 0, 0, 16, 1000, grid=True); B = star(rng, 300, 100, 12, 900, grid=True)
    out.append((A, B, 'stars-grid'))
    out.append((blob(rng, 0, 0, rng.randint(20, 60), 10, hole=True), blob(rng, 4, 3, rng.randint(20, 60), 8), 'blobs-hole'))
    out.append((comb(rng, 0, 0, rng.randint(4, 10), 2, 20), comb(rng, 0, 0, rng.randint(4, 10), 2, 20, vertical=True), 'combs'))
    sq = squares(rng, 9, 10, 0)
    out.append((('MultiPolygon', sq[:5]), ('MultiPolygon', [translate(p, 5, 5) for p in sq[2:8]]), 'multi-shared-edges'))
    out.append((star(rng, 0, 0, 20, 10), zigzag(rng, rng.randint(8, 30), -12, 0, 1.0, 6), 'area-line'))
    out.append((zigzag(rng, rng.randint(10, 40), 0, 0, 1.0, 5), zigzag(rng, rng.randint(10, 40), 0.5, 0, 1.1, 5), 'line-line'))
    out.append((('MultiLineString', randlines(rng, 15, 50)), ('MultiLineString', randlines(rng, 15, 50)), 'mlines'))
    out.append((('GeometryCollection', [star(rng, 0, 0, 12, 10), zigzag(rng, 6, -5, 0, 2, 3), ('Point', (1, 1))]), blob(rng, 2, 2, 15, 7), 'collection-area'))
    A = blob(rng, 0, 0, 30, 10)
    out.append((A, A, 'identical'))
    out.append((star(rng, 0, 0, 12, 5), star(rng, 100, 100, 12, 5), 'disjoint'))
    if not quick:
        out.append((star(rng, 0, 0, 400, 100), star(rng, 10, 5, 360, 95), 'stars-big'))
        out.append((('MultiPolygon', squares(rng, 100, 10, 2)), ('MultiPolygon', [translate(p, 4, 4) for p in squares(rng, 100, 10, 2)]), 'multi-100'))
    return out


def gen_cases(rng, quick):
    C = []
    def add(op, A, B=None, p1=0.0, p2=0, tag=''):
        C.append(dict(op=op, p1=p1, p2=p2, A=A, B=B, tag=tag))
    pairs = pair_inputs(rng, quick)
    # --- overlay x4 (floating and fixed precision) on every pair kind
    for A, B, tag in pairs:
        for op in OVERLAY:
            add(op, A, B, tag=tag)
    for A, B, tag in pairs[:4]:
        for op in OVERLAY:
            add(op + '_prec', A, B, p1=rng.choice([0.001, 0.5, 1.0]), tag=tag + '-prec')
    # --- unary union
    add('unaryunion', ('GeometryCollection', [pairs[0][0], pairs[0][1]]), tag='2 stars')
    add('unaryunion', ('MultiPolygon', [translate(p, rng.uniform(-3, 3), rng.uniform(-3, 3)) for p in squares(rng, 16 if quick else 64, 10, -2)]), tag='overlapping squares')
    add('unaryunion', ('MultiLineString', randlines(rng, 20, 40)), tag='lines')
    add('unaryunion', ('GeometryCollection', [star(rng, 0, 0, 12, 10), zigzag(rng, 10, -8, 1, 2, 4)] + points(rng, 5, 10)), tag='mixed')
    add('unaryunion', ('MultiPoint', points(rng, 30, 20)), tag='points')
    add('unaryunion_prec', ('MultiPolygon', squares(rng, 9, 10, -3, jitter=1)), p1=0.25, tag='squares-prec')
    add('coverageunion', ('GeometryCollection', squares(rng, 9, 10, 0)), tag='coverage')
    add('disjointsubsetunion', ('MultiPolygon', squares(rng, 12, 10, -1) + [translate(p, 200, 0) for p in squares(rng, 4, 10, -1)]), tag='two clusters')
    # --- buffer
    for A, tag in [(pairs[0][0], 'star'), (pairs[2][0], 'blob-hole'), (zigzag(rng, 25, 0, 0, 1, 4), 'line'), (('MultiPoint', points(rng, 12, 30)), 'points'),
                   (('MultiPolygon', squares(rng, 6, 10, 3)), 'multi'), (('GeometryCollection', [star(rng, 0, 0, 12, 10), zigzag(rng, 8, 20, 0, 2, 3)]), 'collection')]:
        add('buffer', A, p1=rng.choice([0.5, 1.0, 3.0]), p2=rng.choice([1, 4, 8]), tag=tag)
        add('buffer', A, p1=-rng.choice([0.3, 1.0]), p2=8, tag=tag + '-neg')
    add('buffer_style', zigzag(rng, 15, 0, 0, 1, 3), p1=1.5, p2=rng.randint(0, 8), tag='line-styles')
    add('buffer_style', pairs[0][0], p1=2.0, p2=rng.randint(0, 8), tag='star-styles')
    add('buffer_single', zigzag(rng, 12, 0, 0, 2, 3), p1=1.0, p2=0, tag='single-left')
    add('buffer_single', zigzag(rng, 12, 0, 0, 2, 3), p1=1.0, p2=1, tag='single-right')
    add('offsetcurve', zigzag(rng, 14, 0, 0, 2, 3), p1=1.0, tag='offset+')
    add('offsetcurve', zigzag(rng, 14, 0, 0, 2, 3), p1=-1.5, tag='offset-')
    # --- relate, predicates, prepared predicates
    for A, B, tag in pairs:
        add('relate', A, B, tag=tag)
        add(rng.choice(PREDS), A, B, tag=tag)
        add(rng.choice(PREP), A, B, tag=tag)
    for op in PREDS + PREP + ['relate_pattern', 'relate_bnr']:
        A, B, tag = pairs[rng.randrange(len(pairs))]
        add(op, A, B, p2=rng.randint(0, 3), tag=tag)
    add('isvalid', pairs[2][0], tag='valid blob'); add('isvalid', bowtie(rng, 9, 10), tag='bowtie')
    add('isvalid', ('MultiPolygon', squares(rng, 16, 10, 1)), tag='multi'); add('isvalidreason', bowtie(rng, 7, 10), tag='bowtie')
    add('issimple', zigzag(rng, 30, 0, 0, 1, 3), tag='zigzag'); add('issimple', ('MultiLineString', randlines(rng, 10, 20)), tag='crossing lines')
    # --- make valid
    for n in ([5, 9, 15] if quick else [5, 9, 15, 41, 101]):
        add('makevalid', bowtie(rng, n, 10), tag='bowtie-%d' % n)
        add('makevalid_structure', bowtie(rng, n, 10), p2=n & 1, tag='bowtie-%d' % n)
    add('makevalid', ('MultiPolygon', [bowtie(rng, 5, 10), translate(bowtie(rng, 7, 5), 3, 3)]), tag='multi-bowtie')
    add('makevalid', ('Polygon', [[(0, 0), (10, 0), (10, 10), (0, 10), (0, 0)], [(2, 2), (12, 2), (12, 4), (2, 4), (2, 2)]]), tag='hole crossing shell')
    add('makevalid', pairs[0][0], tag='already valid')
    add('makevalid', ('LineString', [(0, 0), (1, 1), (1, 1), (2, 0)]), tag='line')
    # --- polygonize family
    for n in ([3, 6] if quick else [3, 6, 20]):
        G = ('MultiLineString', noded_grid(rng, n, 10, dangles=2, cut=True))
        for op in ['polygonize', 'polygonize_valid', 'polygonize_full', 'polygonize_cutedges', 'buildarea']:
            add(op, G, tag='noded-grid-%d' % n)
    rings = [('LineString', blob(rng, 0, 0, 12, 20)[1][0]), ('LineString', blob(rng, 0, 0, 10, 8)[1][0]), ('LineString', blob(rng, 50, 0, 10, 8)[1][0])]
    add('polygonize', ('MultiLineString', rings), tag='nested rings'); add('buildarea', ('MultiLineString', rings), tag='nested rings')
    add('polygonize', ('MultiLineString', randlines(rng, 12, 30)), tag='unnoded lines')
    # --- hull, interior point, circles
    add('convexhull', ('MultiPoint', points(rng, 40, 100)), tag='points'); add('convexhull', ('MultiPoint', points(rng, 60, 10, grid=True)), tag='grid points (collinear)')
    add('convexhull', pairs[0][0], tag='star'); add('convexhull', ('MultiPoint', points(rng, 3, 10)), tag='3 points'); add('convexhull', zigzag(rng, 9, 0, 0, 1, 0), tag='collinear')
    add('minrotrect', pairs[0][0], tag='star'); add('minwidth', pairs[2][0], tag='blob')
    add('pointonsurface', pairs[0][0], tag='star'); add('pointonsurface', pairs[2][0], tag='blob-hole')
    add('pointonsurface', ('MultiPolygon', squares(rng, 6, 10, 4)), tag='multi'); add('pointonsurface', zigzag(rng, 9, 0, 0, 1, 2), tag='line')
    add('pointonsurface', ('GeometryCollection', [star(rng, 0, 0, 8, 5), zigzag(rng, 5, 10, 0, 1, 1)]), tag='collection')
    add('mic', pairs[0][0], p1=rng.choice([0.5, 0.1] if quick else [0.1, 0.01]), tag='star'); add('mic', pairs[2][0], p1=0.2, tag='blob-hole')
    add('mic', ('MultiPolygon', squares(rng, 4, 10, 5)), p1=0.5, tag='multi'); add('mic', comb(rng, 0, 0, 4, 2, 20), p1=0.3, tag='comb')
    add('lec', ('MultiPoint', points(rng, 12, 50)), p1=0.5, tag='points'); add('lec', ('MultiLineString', randlines(rng, 6, 50)), p1=1.0, tag='lines')
    add('lec', ('MultiPolygon', squares(rng, 4, 10, 15)), p1=0.5, tag='polys')
    add('lec_boundary', ('MultiPoint', points(rng, 10, 50)), ('Polygon', [[(-10, -10), (60, -10), (60, 60), (-10, 60), (-10, -10)]]), p1=0.5, tag='points in box')
    # --- noding, snapping
    add('node', ('MultiLineString', randlines(rng, 12 if quick else 40, 30)), tag='random lines'); add('node', ('MultiLineString', gridlines(rng, 5, 10)), tag='grid lines')
    add('node', zigzag(rng, 10, 0, 0, 1, 3), tag='simple line'); add('node', ('LineString', blob(rng, 0, 0, 20, 10)[1][0]), tag='ring')
    for A, B, tag in pairs[:6] + pairs[6:8]:
        add('snap', A, B, p1=rng.choice([0.1, 1.0, 5.0]), tag=tag)
    # --- other entry points that reach checkpoints through the operations above
    add('sharedpaths', ('MultiLineString', gridlines(rng, 3, 10)), ('LineString', [(0, 0), (20, 0), (20, 20)]), tag='shared')
    add('linemerge', ('MultiLineString', noded_grid(rng, 3, 10)), tag='grid')
    add('clipbyrect', pairs[0][0], p1=6.0, tag='star'); add('setprecision', pairs[0][0], p1=0.5, p2=0, tag='star'); add('setprecision', pairs[2][0], p1=1.0, p2=0, tag='blob-hole')
    add('voronoi', ('MultiPoint', points(rng, 15, 50)), p2=0, tag='points'); add('delaunay', ('MultiPoint', points(rng, 15, 50)), p2=0, tag='points')
    add('constrained_delaunay', pairs[2][0], tag='blob-hole'); add('concavehull', ('MultiPoint', points(rng, 25, 50)), p1=0.3, p2=0, tag='points')
    add('simplify', pairs[0][0], p1=1.0, tag='star'); add('tpsimplify', pairs[2][0], p1=1.0, tag='blob-hole')
    add('boundary', pairs[2][0], tag='blob-hole'); add('centroid', pairs[0][0], tag='star')
    add('distance', pairs[0][0], translate(pairs[0][1], 40, 0), tag='stars apart'); add('hausdorff', pairs[0][0], pairs[0][1], tag='stars')
    add('minclearance', pairs[0][0], tag='star'); add('area', pairs[0][0], tag='star')
    return C


def case_line(c, ks):
    return '%s %r %d %s %s %s' % (c['op'], float(c['p1']), int(c['p2']), hexwkb(c['A']), hexwkb(c['B']) if c['B'] is not None else '-', ks)


# ===================================================================== static inventory (regenerated from the source tree REPO on every run)
# A small C++ reader: comments / literals / preprocessor lines blanked (line numbers kept), `#if ...DEBUG...` / `#if 0` regions dropped,
# brace-structured scan for namespaces, classes, function definitions; per function: call names (with receiver / qualifier kind),
# checkpoint macros, try/catch clauses.  Name-based call graph (over-approximation, resolution rules in `resolve`).
KEYWORDS = set('if for while switch return sizeof catch throw new delete static_cast dynamic_cast const_cast reinterpret_cast decltype alignof typeid '
               'assert noexcept defined operator else do case default try using typedef typename template class struct union enum namespace '
               'static const constexpr inline virtual explicit friend public private protected override final volatile mutable auto void int '
               'long short unsigned signed char bool double float true false nullptr this extern'.split())
TOK = re.compile(r'[A-Za-z_]\w*|::|->|\.\.\.|\d[\w.]*|\S')


DEFINES = {}      # NAME -> 0/1 for object-like macros defined once to 0 or 1 anywhere in the tree (filled by build_inventory)


def strip_source(txt):
    out = []; i = 0; n = len(txt)
    while i < n:
        c = txt[i]
        if c == '/' and i + 1 < n and txt[i + 1] == '/':
            j = txt.find('\n', i); j = n if j < 0 else j
            out.append(' ' * (j - i)); i = j
        elif c == '/' and i + 1 < n and txt[i + 1] == '*':
            j = txt.find('*/', i + 2); j = n - 2 if j < 0 else j
            out.append(''.join(ch if ch == '\n' else ' ' for ch in txt[i:j + 2])); i = j + 2
        elif c == '"':
            if i >= 1 and txt[i - 1] == 'R':        # raw string R"delim( ... )delim"
                m = re.match(r'"([^(\s]*)\(', txt[i:])
                if m:
                    end = txt.find(')' + m.group(1) + '"', i)
                    end = n if end < 0 else end + len(m.group(1)) + 2
                    out.append('""' + ''.join(ch if ch == '\n' else ' ' for ch in txt[i + 2:end])); i = end; continue
            j = i + 1
            while j < n and txt[j] != '"':
                j += 2 if txt[j] == '\\' else 1
            out.append('"' + ' ' * (j - i - 1) + '"'); i = j + 1
        elif c == "'":
            j = i + 1
            while j < n and txt[j] != "'" and j - i < 8:
                j += 2 if txt[j] == '\\' else 1
            if j < n and txt[j] == "'" and j - i < 8:
                out.append("'" + ' ' * (j - i - 1) + "'"); i = j + 1
            else:
                out.append(c); i += 1       # digit separator
        else:
            out.append(c); i += 1
    txt = ''.join(out)
    # preprocessor
    lines = txt.split('\n'); res = []; stack = []; cont = False
    for ln in lines:
        s = ln.strip()
        if cont:
            cont = s.endswith('\\'); res.append(''); continue
        if s.startswith('#'):
            cont = s.endswith('\\')
            d = s[1:].strip()
            if d.startswith('ifdef') or d.startswith('ifndef') or d.startswith('if'):
                expr = d.split(None, 1)[1] if len(d.split(None, 1)) > 1 else ''
                dead = None
                if d.startswith('ifdef'): dead = True if 'DEBUG' in expr else None
                elif d.startswith('ifndef'): dead = False if 'DEBUG' in expr else None
                else:
                    e = expr.strip()
                    dead = True if ('DEBUG' in e or e == '0') else None
                    if dead is None and re.match(r'!?\s*[A-Za-z_]\w*$', e):
                        nm = e.lstrip('! ').strip()
                        if nm in DEFINES: dead = (DEFINES[nm] == 0) != e.startswith('!')
                stack.append(dead)
            elif d.startswith('else') or d.startswith('elif'):
                if stack and stack[-1] is not None: stack[-1] = not stack[-1] if d.startswith('else') else None
            elif d.startswith('endif'):
                if stack: stack.pop()
            res.append(''); continue
        res.append('' if any(x is True for x in stack) else ln)
    return '\n'.join(res)


def tokenize(txt):
    toks = []; line = 1; pos = 0
    for m in TOK.finditer(txt):
        line += txt.count('\n', pos, m.start()); pos = m.start()
        toks.append((m.group(0), line))
    return toks


def scan_file(path, rel):
    raw = open(path, errors='replace').read()
    includes = set('include/' + m for m in re.findall(r'#\s*include\s*[<"](geos/[^>"]+)[>"]', raw))
    txt = strip_source(raw)
    T = tokenize(txt); n = len(T)
    funcs = []; classes = {}; statics = set(); nonstatics = set()
    stack = []            # dict(kind, name, open)
    stmt = 0
    i = 0
    def scope_names():
        return [s['name'] for s in stack if s['kind'] in ('ns', 'class') and s['name']]
    def classify(head, last):
        h = [t for t, _ in head]
        # drop template<...> prefix
        while h and h[0] == 'template':
            d = 0; j = 1
            while j < len(h):
                if h[j] == '<': d += 1
                elif h[j] == '>':
                    d -= 1
                    if d == 0: j += 1; break
                j += 1
            h = h[j:]
        if not h: return ('block', None, None)
        if 'namespace' in h[:2] or (h[0] == 'extern' and '(' not in h):
            nm = h[h.index('namespace') + 1] if 'namespace' in h and h.index('namespace') + 1 < len(h) and re.match(r'[A-Za-z_]', h[h.index('namespace') + 1]) else ''
            return ('ns', nm, None)
        par = h.index('(') if '(' in h else len(h)
        if 'enum' in h[:par]: return ('block', None, None)
        for kw in ('class', 'struct', 'union'):
            if kw in h[:par] and '(' not in h:
                k = h.index(kw); seg = h[k + 1:]
                if ':' in seg: seg = seg[:seg.index(':')]
                ids = [t for t in seg if re.match(r'[A-Za-z_]\w*$', t) and t not in ('final', 'GEOS_DLL') and not t.isupper()]
                bases = [t for t in h[k + 1:][(h[k + 1:].index(':') + 1 if ':' in h[k + 1:] else len(h)):] if re.match(r'[A-Za-z_]\w*$', t) and t not in KEYWORDS and t != 'std']
                return ('class', ids[-1] if ids else '', bases)
        if '(' in h:
            if last in ('=', ',', '(', 'return') : return ('block', None, None)
            # constructor initialiser with braces:  X::X() : a{1} {
            depth = 0; after = False; colon = False
            for k, t in enumerate(h):
                if t == '(': depth += 1
                elif t == ')':
                    depth -= 1
                    if depth == 0: after = True
                elif t == ':' and depth == 0 and after: colon = True
            if colon and re.match(r'[A-Za-z_]\w*$', last or '') and last not in ('const', 'override', 'noexcept', 'final', 'try'):
                return ('init', None, None)
            p = h.index('(')
            if 'operator' in h[:p + 1] or (p + 2 < len(h) and 'operator' in h[:p + 3] and h[p - 1] == 'operator'):
                k = h.index('operator'); quals = []
                j = k - 1
                while j >= 1 and h[j] == '::' and re.match(r'[A-Za-z_]\w*$', h[j - 1]): quals.insert(0, h[j - 1]); j -= 2
                return ('func', 'operator', quals)
            j = p - 1
            if j < 0 or not re.match(r'[A-Za-z_~]\w*$', h[j]) or h[j] in KEYWORDS: return ('block', None, None)
            name = h[j]; quals = []
            if j >= 1 and h[j - 1] == '~': name = '~' + name; j -= 1
            j -= 1
            while j >= 1 and h[j] == '::':
                if re.match(r'[A-Za-z_]\w*$', h[j - 1]): quals.insert(0, h[j - 1]); j -= 2
                elif h[j - 1] == '>':       # Foo<T>::f
                    d = 0
                    while j >= 1:
                        j -= 1
                        if h[j] == '>': d += 1
                        elif h[j] == '<':
                            d -= 1
                            if d == 0: break
                    if j >= 1 and re.match(r'[A-Za-z_]\w*$', h[j - 1]): quals.insert(0, h[j - 1]); j -= 2
                    else: break
                else: break
            return ('func', name, quals)
        return ('block', None, None)
    while i < n:
        t, ln = T[i]
        infn = any(s['kind'] == 'func' for s in stack)
        if t == '{':
            if infn:
                stack.append(dict(kind='block', name=None, open=i))
            else:
                kind, name, extra = classify(T[stmt:i], T[i - 1][0] if i else None)
                e = dict(kind=kind, name=name, open=i, line=ln)
                if kind == 'class':
                    classes.setdefault(name, set()).update(extra or [])
                if kind == 'func':
                    e['quals'] = extra; e['scope'] = scope_names(); e['head'] = stmt
                stack.append(e)
                if kind != 'init': stmt = i + 1
        elif t == '}':
            if stack:
                e = stack.pop()
                if e['kind'] == 'func':
                    cls = e['quals'][-1] if e['quals'] else next((s['name'] for s in reversed(stack) if s['kind'] == 'class'), None)
                    if e['quals'] and not (e['quals'][-1][:1].isupper()): cls = None     # namespace qualifier (geos namespaces are lower case)
                    head = [x for x, _ in T[e['head']:e['open']]]
                    funcs.append(dict(file=rel, line=T[e['head']][1] if e['head'] < n else e['line'], name=e['name'], cls=cls, scope=e['scope'] + e['quals'],
                                      static=('static' in head), body=(e['open'] + 1, i)))
                if e['kind'] != 'init' and not any(s['kind'] == 'func' for s in stack): stmt = i + 1
        elif t == ';' and not infn:
            if stack and stack[-1]['kind'] == 'class':
                h = [x for x, _ in T[stmt:i]]
                if '(' in h and 'friend' not in h and 'typedef' not in h and 'using' not in h:
                    p = h.index('(')
                    if p >= 1 and re.match(r'[A-Za-z_]\w*$', h[p - 1]):
                        (statics if 'static' in h[:p] else nonstatics).add((stack[-1]['name'], h[p - 1]))
            stmt = i + 1
        elif t == ':' and not infn and stack and stack[-1]['kind'] == 'class' and i >= 1 and T[i - 1][0] in ('public', 'private', 'protected'):
            stmt = i + 1
        i += 1
    # per-function details
    for f in funcs:
        a, b = f['body']; calls = []; polls = []; tries = []; idents = set()
        j = a
        while j < b:
            t, ln = T[j]
            if t == 'GEOS_CHECK_FOR_INTERRUPTS': polls.append(ln)
            elif re.match(r'[A-Za-z_]\w*$', t):
                idents.add(t)
                nxt = T[j + 1][0] if j + 1 < b else ''
                tmpl_call = False
                if nxt == '<':       # f<T>(...)
                    d = 0; q = j + 1
                    while q < b and q < j + 40:
                        if T[q][0] == '<': d += 1
                        elif T[q][0] == '>':
                            d -= 1
                            if d == 0: break
                        elif T[q][0] in (';', '{', '}'): break
                        q += 1
                    if q + 1 < b and T[q][0] == '>' and T[q + 1][0] == '(': tmpl_call = True
                if (nxt == '(' or tmpl_call) and t not in KEYWORDS:
                    prev = T[j - 1][0] if j > a else ''
                    if prev in ('.', '->'): calls.append((t, 'm', None, j))
                    elif prev == '::': calls.append((t, 'q', T[j - 2][0] if j - 2 >= a else None, j))
                    else: calls.append((t, 'u', None, j))
            if t == 'try' and j + 1 < b and T[j + 1][0] == '{':
                d = 0; q = j + 1
                while q < b:
                    if T[q][0] == '{': d += 1
                    elif T[q][0] == '}':
                        d -= 1
                        if d == 0: break
                    q += 1
                tr = dict(body=(j + 2, q), catches=[], line=ln)
                q += 1
                while q < b and T[q][0] == 'catch':
                    p0 = q + 1; d = 0; p = p0
                    while p < b:
                        if T[p][0] == '(': d += 1
                        elif T[p][0] == ')':
                            d -= 1
                            if d == 0: break
                        p += 1
                    ty = [x for x, _ in T[p0 + 1:p]]
                    hb = p + 1; d = 0; r = hb
                    while r < b:
                        if T[r][0] == '{': d += 1
                        elif T[r][0] == '}':
                            d -= 1
                            if d == 0: break
                        r += 1
                    tr['catches'].append(dict(ty=ty, line=T[q][1], handler=(hb + 1, r)))
                    q = r + 1
                tries.append(tr)
            j += 1
        f['calls'] = calls; f['polls'] = polls; f['tries'] = tries; f['idents'] = idents
    return dict(T=T, funcs=funcs, classes=classes, statics=statics, nonstatics=nonstatics, includes=includes, rel=rel)


def catch_type_name(ty):
    if ty == ['...']: return '...'
    ids = [t for t in ty if re.match(r'[A-Za-z_]\w*$', t) and t not in ('const', 'volatile')]
    if not ids: return ' '.join(ty)
    # the declared type is the last identifier that looks like a type (a trailing lower-case identifier is the variable name)
    cand = [t for t in ids if t.endswith('Exception') or t in ('exception', 'runtime_error', 'logic_error', 'bad_alloc', 'invalid_argument', 'out_of_range', 'domain_error', 'range_error', 'overflow_error', 'bad_cast')]
    name = cand[-1] if cand else (ids[-2] if len(ids) >= 2 else ids[-1])
    if name == 'exception' and 'std' not in ids: name = '::'.join(ids[:ids.index('exception') + 1])     # e.g. json::exception is not std::exception
    return name


def handler_action(T, rng):
    """Rethrow (unconditional `throw;` at the top level of the handler) | RethrowCond | Convert (throws another object) | Swallow"""
    a, b = rng; d = 0; paren = 0; top_rethrow = cond_rethrow = top_conv = cond_conv = False
    for j in range(a, b):
        t = T[j][0]
        if t == '{': d += 1
        elif t == '}': d -= 1
        elif t == 'throw':
            bare = j + 1 < b and T[j + 1][0] == ';'
            # unconditional iff at handler depth 0 and the previous statement token is ; { } (not an `if (...)` / else)
            prev = T[j - 1][0] if j > a else '{'
            uncond = d == 0 and prev in (';', '{', '}')
            if bare: top_rethrow |= uncond; cond_rethrow |= not uncond
            else: top_conv |= uncond; cond_conv |= not uncond
    if top_rethrow: return 'Rethrow'
    if top_conv: return 'Convert'
    if cond_rethrow or cond_conv: return 'RethrowCond'
    return 'Swallow'


def build_inventory(repo):
    t0 = time.time()
    files = []
    for top in ('src', 'include', 'capi'):
        for dp, dn, fn in os.walk(os.path.join(repo, top)):
            if '/deps' in dp or '/vend' in dp: continue
            for f in sorted(fn):
                if f.endswith(('.cpp', '.h', '.inl', '.hpp')): files.append(os.path.join(dp, f))
    files.sort()
    DEFINES.clear(); seen = {}
    for p in files:
        for m in re.finditer(r'^[ \t]*#[ \t]*define[ \t]+([A-Za-z_]\w*)[ \t]+([01])[ \t]*$', open(p, errors='replace').read(), re.M):
            seen.setdefault(m.group(1), set()).add(int(m.group(2)))
    for nm, vals in seen.items():
        if len(vals) == 1: DEFINES[nm] = vals.pop()
    with ThreadPoolExecutor(max_workers=1) as ex:
        scans = [scan_file(p, os.path.relpath(p, repo)) for p in files]
    funcs = []; classes = {}; statics = set(); nonstatics = set()
    inc = {s['rel']: s['includes'] for s in scans}
    declared = {s['rel']: set(s['classes']) for s in scans}
    vis_cache = {}
    def visible(rel):
        """classes whose definition can be visible in this file: declared in it or in a transitively included geos header"""
        if rel not in vis_cache:
            seen = {rel}; todo = [rel]
            while todo:
                x = todo.pop()
                for y in inc.get(x, ()):
                    if y not in seen: seen.add(y); todo.append(y)
            v = set()
            for x in seen: v |= declared.get(x, set())
            vis_cache[rel] = v
        return vis_cache[rel]
    for s in scans:
        for f in s['funcs']:
            f['T'] = s['T']; funcs.append(f)
        for c, b in s['classes'].items(): classes.setdefault(c, set()).update(b)
        statics |= s['statics']; nonstatics |= s['nonstatics']
    for f in funcs:
        key = (f['cls'], f['name'])
        if f['cls'] and key in statics: f['static'] = True
        if f['cls'] and key in nonstatics: f['static'] = False       # overloads of both kinds: cannot tell them apart by name, keep reachable
    for k, f in enumerate(funcs): f['id'] = k
    by_name = {}
    for f in funcs: by_name.setdefault(f['name'], []).append(f)
    # class hierarchy (name based): ancestors and descendants
    def ancestors(c, seen=None):
        seen = seen if seen is not None else set()
        for b in classes.get(c, ()):
            if b not in seen: seen.add(b); ancestors(b, seen)
        return seen
    anc = {c: ancestors(c) for c in classes}
    def resolve(f, call):
        name, kind, qual, _ = call
        cands = by_name.get(name, [])
        if not cands:
            return []
        if kind == 'm':          # obj.f( / obj->f( : non-static member functions of that name in a class visible here, or overriding one
            V = visible(f['file'])
            return [g for g in cands if g['cls'] and not g['static'] and (g['cls'] in V or (anc.get(g['cls'], set()) & V) or g['cls'] not in classes)]
        if kind == 'q':
            if qual in classes or any(g['cls'] == qual for g in cands):
                r = [g for g in cands if g['cls'] == qual or g['cls'] in anc.get(qual, ())]
                return r if r else [g for g in cands if g['cls'] is None]
            r = [g for g in cands if qual in g['scope']]
            return r if r else [g for g in cands if g['cls'] is None]
        # unqualified: own class (or its bases / derived overriders), else free functions, else anything
        if f['cls']:
            fam = {f['cls']} | anc.get(f['cls'], set())
            r = [g for g in cands if g['cls'] in fam or (g['cls'] and f['cls'] in anc.get(g['cls'], ()))]
            if r: return r
        r = [g for g in cands if g['cls'] is None]
        if r: return r
        # a functor / local object named like a function, or a constructor call  T(args)
        return [g for g in cands if g['name'] == g['cls']]
    edges = {}
    for f in funcs:
        out = set()
        for c in f['calls']:
            for g in resolve(f, c): out.add(g['id'])
        for idn in f['idents']:           # mention of a class: its constructors (and destructor) may run
            if idn in classes and idn != f['cls']:
                for g in by_name.get(idn, []):
                    if g['cls'] == idn: out.add(g['id'])
        edges[f['id']] = out
    redges = {}
    for a, bs in edges.items():
        for b in bs: redges.setdefault(b, set()).add(a)
    def closure(start, E):
        seen = set(start); todo = list(start)
        while todo:
            x = todo.pop()
            for y in E.get(x, ()):
                if y not in seen: seen.add(y); todo.append(y)
        return seen
    poll_funcs = [f for f in funcs if f['polls'] and not f['file'].endswith('Interrupt.h')]
    reaches_poll = closure([f['id'] for f in poll_funcs], redges)
    entries = [f for f in funcs if f['file'] == 'capi/geos_ts_c.cpp' and re.match(r'(GEOS\w*_r|initGEOS_r|finishGEOS_r)$', f['name']) and f['cls'] is None]
    entry_ids = {f['id']: f['name'] for f in entries}
    sites = [dict(file=f['file'], line=l, func=(f['cls'] + '::' if f['cls'] else '') + f['name']) for f in poll_funcs for l in f['polls']]
    catches = []; try_id = 0
    for f in funcs:
        for tr in f['tries']:
            try_id += 1
            a, b = tr['body']; T = f['T']
            direct = any(T[j][0] == 'GEOS_CHECK_FOR_INTERRUPTS' for j in range(a, b))
            callee = set()
            for c in f['calls']:
                if a <= c[3] < b:
                    for g in resolve(f, c): callee.add(g['id'])
            for j in range(a, b):
                if T[j][0] in classes and T[j][0] != f['cls']:
                    for g in by_name.get(T[j][0], []):
                        if g['cls'] == T[j][0]: callee.add(g['id'])
            polls_in_try = direct or bool(callee & reaches_poll)
            anc_f = closure([f['id']], redges)
            ents = sorted(entry_ids[x] for x in anc_f if x in entry_ids)
            for ci, c in enumerate(tr['catches']):
                h = [T[j][0] for j in range(*c['handler'])]
                boundary = f['file'].startswith('capi/') and ('ERROR_MESSAGE' in h)
                catches.append(dict(file=f['file'], line=c['line'], func=(f['cls'] + '::' if f['cls'] else '') + f['name'], ty=catch_type_name(c['ty']),
                                    action=handler_action(T, c['handler']), boundary=boundary, polls_in_try=polls_in_try, entries=ents, fid=f['id'],
                                    try_id=try_id, index=ci))
    # exception hierarchy of the interrupt exception, from the class heads in the source
    chain = ['InterruptedException']; cur = 'InterruptedException'; guard = 0
    while guard < 8:
        guard += 1
        bs = [b for b in classes.get(cur, ()) if b.endswith('Exception') or b in ('runtime_error', 'exception', 'logic_error')]
        if not bs: break
        cur = bs[0]; chain.append(cur)
    if chain[-1] == 'runtime_error' or chain[-1] == 'logic_error': chain.append('exception')
    # entry points: error value given to execute(...)
    eps = []
    for f in entries:
        T = f['T']; a, b = f['body']; errval = None
        for j in range(a, b - 3):
            if T[j][0] == 'execute' and T[j + 1][0] == '(':
                k = j + 2; d = 0; args = [[]]
                while k < b:
                    t = T[k][0]
                    if t in ('(', '{'): d += 1
                    elif t in (')', '}'):
                        if d == 0: break
                        d -= 1
                    if t == '[' and d == 0: break
                    if t == ',' and d == 0: args.append([])
                    else: args[-1].append(t)
                    k += 1
                args = [x for x in args if x]
                errval = ''.join(args[1]) if len(args) >= 2 else 'nullptr'
                break
        eps.append(dict(name=f['name'], errval=errval if errval is not None else 'manual', interruptible=f['id'] in reaches_poll, fid=f['id'],
                        delegates=[c[0] for c in f['calls'] if c[1] == 'u' and re.match(r'GEOS\w*_r$', c[0]) and c[0] != f['name']]))
    byn = {e['name']: e for e in eps}
    for e in eps:         # a wrapper that only forwards to another entry point returns that one's error value
        if e['errval'] == 'manual' and len(set(e['delegates'])) == 1 and byn.get(e['delegates'][0], {}).get('errval') not in (None, 'manual'):
            e['errval'] = byn[e['delegates'][0]]['errval']
    return dict(sites=sites, catches=catches, chain=chain, entries=eps, funcs=funcs, edges=edges, nfiles=len(files), nfuncs=len(funcs),
                reaches_poll=reaches_poll, wall=time.time() - t0, closure=closure)


# ---------------------------------------------------------------------- the same acceptance test as coq/theories/C14/CatchDefs.v (catch_ok),
# used only to PREDICT (which entry points may see a swallowed interrupt); the verdict on the inventory is Coq's (C14_catch_inventory_ok)
def py_matches(chain, ty): return ty == '...' or ty in chain
def py_shadowed(inv, c): return any(d['try_id'] == c['try_id'] and d['index'] < c['index'] and py_matches(inv['chain'], d['ty']) for d in inv['catches'])
def py_on_path(c): return c['polls_in_try'] and bool(c['entries'])
def py_catch_ok(inv, c):
    return c['boundary'] or not py_matches(inv['chain'], c['ty']) or py_shadowed(inv, c) or c['action'] == 'Rethrow' or not py_on_path(c)
def py_exempt(keys, c): return any(k == (c['file'], c['func'], c['ty']) for k in keys)


def coq_str(x): return '"%s"' % x.replace('"', '""')


def write_inventory_v(inv, exempt_keys, path):
    L = ['(* GENERATED by props/C14.py from the source of the library tree on every run -- do not edit, not committed.',
         '   %d files, %d function definitions scanned; %d checkpoint sites, %d catch clauses, %d C API entry points *)'
         % (inv['nfiles'], inv['nfuncs'], len(inv['sites']), len(inv['catches']), len(inv['entries'])),
         'From Coq Require Import List String ZArith Bool.', 'From GeosV.C14 Require Import CatchDefs.', 'Import ListNotations.',
         'Local Open Scope string_scope.', 'Local Open Scope Z_scope.',
         '(* base classes of the interrupt exception, from the class heads (most derived first) *)',
         'Definition chain : list string := [%s].' % '; '.join(coq_str(x) for x in inv['chain']),
         'Definition sites : list site_rec := [']
    L.append(';\n'.join('  mkSite %s %d %s' % (coq_str(x['file']), x['line'], coq_str(x['func'])) for x in inv['sites']) + '].')
    L.append('Definition inventory : list catch_rec := [')
    L.append(';\n'.join('  mkCatch %s %d %s %d %d %s %s %s %s [%s]' % (coq_str(c['file']), c['line'], coq_str(c['func']), c['try_id'], c['index'], coq_str(c['ty']), c['action'],
                                                                 'true' if c['boundary'] else 'false', 'true' if c['polls_in_try'] else 'false',
                                                                 '; '.join(coq_str(e) for e in c['entries'])) for c in inv['catches']) + '].')
    L.append('Definition entry_points : list entry_rec := [')
    L.append(';\n'.join('  mkEntry %s %s %s' % (coq_str(e['name']), coq_str(e['errval']), 'true' if e['interruptible'] else 'false') for e in inv['entries']) + '].')
    L.append('(* sites exempted because known_findings.json lists them with status "known": (file, function, caught type) *)')
    L.append('Definition exempt_keys : list (string * string * string) := [%s].' % '; '.join('(%s, %s, %s)' % tuple(coq_str(x) for x in k) for k in exempt_keys))
    txt = '\n'.join(L) + '\n'
    os.makedirs(os.path.dirname(path), exist_ok=True)
    if not os.path.exists(path) or open(path).read() != txt:
        open(path, 'w').write(txt)
    return hashlib.sha256(txt.encode()).hexdigest()


# ===================================================================== the check
G_, C_, S_, D_ = 'nullptr', '2', 'nullptr', '0'
OP_ENTRY = {  # harness op -> (C API entry point whose return value is observed, error value the harness treats as "error")
    'intersection': ('GEOSIntersection_r', G_), 'union': ('GEOSUnion_r', G_), 'difference': ('GEOSDifference_r', G_), 'symdifference': ('GEOSSymDifference_r', G_),
    'intersection_prec': ('GEOSIntersectionPrec_r', G_), 'union_prec': ('GEOSUnionPrec_r', G_), 'difference_prec': ('GEOSDifferencePrec_r', G_),
    'symdifference_prec': ('GEOSSymDifferencePrec_r', G_), 'unaryunion': ('GEOSUnaryUnion_r', G_), 'unaryunion_prec': ('GEOSUnaryUnionPrec_r', G_),
    'coverageunion': ('GEOSCoverageUnion_r', G_), 'disjointsubsetunion': ('GEOSDisjointSubsetUnion_r', G_), 'buffer': ('GEOSBuffer_r', G_),
    'buffer_style': ('GEOSBufferWithStyle_r', G_), 'buffer_single': ('GEOSSingleSidedBuffer_r', G_), 'offsetcurve': ('GEOSOffsetCurve_r', G_),
    'makevalid': ('GEOSMakeValid_r', G_), 'makevalid_structure': ('GEOSMakeValidWithParams_r', G_), 'polygonize': ('GEOSPolygonize_r', G_),
    'polygonize_valid': ('GEOSPolygonize_valid_r', G_), 'polygonize_cutedges': ('GEOSPolygonizer_getCutEdges_r', G_), 'polygonize_full': ('GEOSPolygonize_full_r', G_),
    'buildarea': ('GEOSBuildArea_r', G_), 'convexhull': ('GEOSConvexHull_r', G_), 'minrotrect': ('GEOSMinimumRotatedRectangle_r', G_), 'minwidth': ('GEOSMinimumWidth_r', G_),
    'pointonsurface': ('GEOSPointOnSurface_r', G_), 'mic': ('GEOSMaximumInscribedCircle_r', G_), 'lec': ('GEOSLargestEmptyCircle_r', G_), 'lec_boundary': ('GEOSLargestEmptyCircle_r', G_),
    'node': ('GEOSNode_r', G_), 'snap': ('GEOSSnap_r', G_), 'sharedpaths': ('GEOSSharedPaths_r', 'manual'), 'linemerge': ('GEOSLineMerge_r', G_), 'clipbyrect': ('GEOSClipByRect_r', G_),
    'setprecision': ('GEOSGeom_setPrecision_r', G_), 'voronoi': ('GEOSVoronoiDiagram_r', G_), 'delaunay': ('GEOSDelaunayTriangulation_r', G_),
    'constrained_delaunay': ('GEOSConstrainedDelaunayTriangulation_r', G_), 'concavehull': ('GEOSConcaveHull_r', G_), 'simplify': ('GEOSSimplify_r', G_),
    'tpsimplify': ('GEOSTopologyPreserveSimplify_r', G_), 'boundary': ('GEOSBoundary_r', G_), 'centroid': ('GEOSGetCentroid_r', G_),
    'relate': ('GEOSRelate_r', S_), 'relate_bnr': ('GEOSRelateBoundaryNodeRule_r', S_), 'relate_pattern': ('GEOSRelatePattern_r', C_),
    'intersects': ('GEOSIntersects_r', C_), 'disjoint': ('GEOSDisjoint_r', C_), 'touches': ('GEOSTouches_r', C_), 'crosses': ('GEOSCrosses_r', C_), 'within': ('GEOSWithin_r', C_),
    'contains': ('GEOSContains_r', C_), 'overlaps': ('GEOSOverlaps_r', C_), 'equals': ('GEOSEquals_r', C_), 'covers': ('GEOSCovers_r', C_), 'coveredby': ('GEOSCoveredBy_r', C_),
    'isvalid': ('GEOSisValid_r', C_), 'issimple': ('GEOSisSimple_r', C_), 'isvalidreason': ('GEOSisValidReason_r', S_),
    'prep_intersects': ('GEOSPreparedIntersects_r', C_), 'prep_contains': ('GEOSPreparedContains_r', C_), 'prep_containsproperly': ('GEOSPreparedContainsProperly_r', C_),
    'prep_covers': ('GEOSPreparedCovers_r', C_), 'prep_coveredby': ('GEOSPreparedCoveredBy_r', C_), 'prep_touches': ('GEOSPreparedTouches_r', C_),
    'prep_crosses': ('GEOSPreparedCrosses_r', C_), 'prep_overlaps': ('GEOSPreparedOverlaps_r', C_), 'prep_within': ('GEOSPreparedWithin_r', C_),
    'prep_disjoint': ('GEOSPreparedDisjoint_r', C_), 'prep_relate': ('GEOSPreparedRelate_r', S_), 'distance': ('GEOSDistance_r', D_), 'hausdorff': ('GEOSHausdorffDistance_r', D_),
    'minclearance': ('GEOSMinimumClearance_r', '2'), 'area': ('GEOSArea_r', D_),
}
CODE_RE = re.compile(r'^([AC])(m?)(f?)p(\d+)(w?)(d?)(?:(r?)n(\d+)(F?)(W?))?(L?)(v?)(?:s(\d+))?$')


def parse_code(c):
    m = CODE_RE.match(c)
    if not m: return None
    return dict(out=m.group(1), m=bool(m.group(2)), f=bool(m.group(3)), p=int(m.group(4)), w=bool(m.group(5)), d=bool(m.group(6)), r=bool(m.group(7)),
                n=int(m.group(8)) if m.group(8) is not None else None, F=bool(m.group(9)), W=bool(m.group(10)), L=bool(m.group(11)), v=bool(m.group(12)), s=int(m.group(13)) if m.group(13) is not None else None)


def parse_out(line):
    d = {}
    for tok in line.strip().split(' '):
        if '=' in tok:
            k, v = tok.split('=', 1); d[k] = v
    if 'N' not in d: return None
    d['N'] = int(d['N'])
    if 'K' in d:
        d['Kc'] = {}
        for item in d['K'].split(';'):
            if item:
                k, c = item.split(':', 1); d['Kc'][int(k)] = c
    d['site_list'] = [x for x in d.get('sites', '').split(',') if x]
    d['ctx_list'] = [[x for x in c.split(',') if x] for c in d.get('ctx', '').split('|') if c]
    d['stack_map'] = {}
    for item in d.get('stacks', '').split('|'):
        if item and ':' in item:
            i, fr = item.split(':', 1); d['stack_map'][int(i)] = [x for x in fr.split(',') if x]
    return d


def choose_ks(N, cap, rng):
    if N <= cap: return list(range(1, N + 1))
    if cap < 120: return sorted(set(1 + (j * (N - 1)) // max(1, cap - 1) for j in range(cap)))
    ks = set(range(1, 41)) | set(range(N - 39, N + 1))
    m = cap - len(ks) - 20
    for j in range(m): ks.add(1 + (j * (N - 1)) // max(1, m - 1))
    while len(ks) < cap: ks.add(rng.randint(1, N))
    return sorted(ks)


def rle(ks):
    out = []; i = 0
    while i < len(ks):
        j = i
        while j + 1 < len(ks) and ks[j + 1] == ks[j] + 1: j += 1
        out.append('%d-%d' % (ks[i], ks[j]) if j > i else '%d' % ks[i]); i = j + 1
    return ','.join(out)


LEAK_HDR = re.compile(r'^(Direct|Indirect) leak of (\d+) byte\(s\) in (\d+) object\(s\) allocated from:')
FRAME = re.compile(r'^\s+#\d+ 0x[0-9a-f]+ in (.*?) (?:/|\.\./|\()')


def parse_lsan(stderr):
    """-> {k: dict(total=bytes, blocks={signature: (kind, bytes, objects, [function names])})} for every marker of the (single) case"""
    res = {}; k = None; cur = None; blocks = None
    for ln in stderr.split('\n'):
        if ln.startswith('@@case'):
            k = int(ln.split('k=')[1]); blocks = {}; res[k] = dict(total=0, blocks=blocks); cur = None; continue
        if ln.startswith('@@end'):
            k = None; continue
        if k is None: continue
        m = LEAK_HDR.match(ln)
        if m:
            cur = [m.group(1), int(m.group(2)), int(m.group(3)), []]; continue
        m = FRAME.match(ln)
        if m and cur is not None:
            cur[3].append(m.group(1)); continue
        if cur is not None and not ln.strip():
            sig = (cur[0],) + tuple(cur[3]); old = blocks.get(sig)
            blocks[sig] = (cur[0], cur[1] + (old[1] if old else 0), cur[2] + (old[2] if old else 0), cur[3]); cur = None
        m = re.match(r'SUMMARY: AddressSanitizer: (\d+) byte\(s\) leaked', ln)
        if m: res[k]['total'] = int(m.group(1))
    return res


class Symbolizer:
    def __init__(self, libdir):
        self.libs = {'g': os.path.join(libdir, 'libgeos.so'), 'c': os.path.join(libdir, 'libgeos_c.so')}; self.cache = {}
    def resolve(self, tag_offsets):
        """[(tag, int offset of a RETURN address)] -> {(tag, off): [(function, file, line), ...] innermost first (inlined frames included)}"""
        todo = {}
        for t, o in tag_offsets:
            if (t, o) not in self.cache: todo.setdefault(t, set()).add(o)
        for t, offs in todo.items():
            offs = sorted(offs)
            rc, out = sh(['addr2line', '-f', '-C', '-i', '-a', '-e', self.libs[t]] + ['0x%x' % (o - 1) for o in offs], timeout=300)
            cur = None; pend = None
            for ln in out.split('\n'):
                if ln.startswith('0x'):
                    cur = (t, int(ln, 16) + 1); self.cache[cur] = []; pend = None
                elif cur is not None and ln.strip():
                    if pend is None: pend = ln.strip()
                    else:
                        fl = ln.strip().split(' ')[0]; f, _, l = fl.rpartition(':')
                        self.cache[cur].append((pend, f, int(l) if l.isdigit() else 0)); pend = None
        return {(t, o): self.cache.get((t, o), []) for t, o in tag_offsets}


def run_proc(argv, line, env, timeout):
    try:
        p = subprocess.run(argv, input=line + '\n', stdout=subprocess.PIPE, stderr=subprocess.PIPE, timeout=timeout, text=True, env=env, errors='replace')
        return p.returncode, p.stdout, p.stderr
    except subprocess.TimeoutExpired as e:
        so = e.stdout or b''; se = e.stderr or b''
        return -9, so.decode('utf-8', 'replace') if isinstance(so, bytes) else so, se.decode('utf-8', 'replace') if isinstance(se, bytes) else se


def big_cases(rng, quick):
    """inputs large enough to reach the checkpoints that fire only every 100000 chain overlaps (MCIndexNoder, EdgeSetIntersector)"""
    def grid(n):
        return [('LineString', [(0, i), (n + 1, i)]) for i in range(1, n + 1)], [('LineString', [(i, 0), (i, n + 1)]) for i in range(1, n + 1)]
    out = []
    # GEOSNode_r iterates its noder: a grid of n x n crossing lines has n^2 chain overlaps in the first pass and several times more in the later passes
    # (the lines are split), so the every-100000 checkpoint is polled in pass >= 2 from about 130 x 130 on and in every pass from 317 x 317 on.
    # EVERY poll of these cases is enumerated (quick: two mid-size grids; thorough: also the 320 x 320 one).
    for n in ([rng.randrange(150, 190), rng.randrange(220, 250)] if quick else [rng.randrange(150, 190), rng.randrange(220, 250), 320]):
        H, V = grid(n)
        out.append(dict(op='node', p1=0.0, p2=0, A=('MultiLineString', H + V), B=None, tag='grid %dx%d (>100000 chain overlaps in the later noding passes)' % (n, n), big=True))
    n = 320; H, V = grid(n)
    # one long zigzag (every segment is its own monotone chain, neighbours overlap: > 100000 chain overlaps in EVERY noding pass that sees it --
    # the overlay noding pass, its validation pass, snap-rounding, the validity / simplicity noders, the buffer noder) and a short crossing line
    m = 110000 + rng.randrange(0, 20000)
    amp = rng.choice([1, 2, 3])
    zz = ('LineString', [(i, amp if i % 2 else -amp) for i in range(m + 1)])
    x0 = rng.randrange(m // 4, 3 * m // 4)
    cr = ('LineString', [(x0 + 0.25, -3 * amp), (x0 + 0.75, 3 * amp)])
    tag = 'zigzag %d segments + crossing line (>100000 chain overlaps per noding pass)' % m
    out.append(dict(op=rng.choice(['union', 'symdifference']), p1=0.0, p2=0, A=zz, B=cr, tag=tag, big=True))
    if not quick:
        out.append(dict(op='relate', p1=0.0, p2=0, A=('MultiLineString', H), B=('MultiLineString', V), tag='grid lines %d vs %d' % (n, n), big=True))
        out.append(dict(op='intersects', p1=0.0, p2=0, A=('MultiLineString', H), B=('MultiLineString', V), tag='grid lines %d vs %d' % (n, n), big=True))
        poly = ('Polygon', [[(0, -10 * amp)] + zz[1] + [(m, -10 * amp), (0, -10 * amp)]])
        for op, A, B, p1 in [('intersection', zz, cr, 0.0), ('difference', zz, cr, 0.0), ('unaryunion', ('MultiLineString', [zz, cr]), None, 0.0), ('union_prec', zz, cr, 1.0),
                             ('issimple', zz, None, 0.0), ('isvalid', poly, None, 0.0), ('buffer', zz, None, 1.0), ('relate', zz, cr, 0.0)]:
            out.append(dict(op=op, p1=p1, p2=4, A=A, B=B, tag=tag, big=True))
    return out


def shrink_case(case, still_fails, budget=24, deadline=None):
    """drop components / thin out vertices of A and B while the failure persists (best effort)"""
    def variants(g):
        t, v = g
        if t in ('MultiPoint', 'MultiLineString', 'MultiPolygon', 'GeometryCollection') and len(v) > 1:
            yield (t, v[:len(v) // 2]); yield (t, v[len(v) // 2:])
            if len(v) > 2: yield (t, v[1:]); yield (t, v[:-1])
        if t == 'LineString' and len(v) > 3:
            yield (t, v[:len(v) // 2 + 1]); yield (t, v[::2] + ([v[-1]] if (len(v) - 1) % 2 else []))
        if t == 'Polygon':
            if len(v) > 1: yield (t, v[:1])
            r = v[0]
            if len(r) > 5:
                thin = r[:-1][::2]
                if len(thin) >= 3: yield (t, [thin + [thin[0]]] + v[1:])
    cur = dict(case); changed = True
    while changed and budget > 0:
        changed = False
        for which in ('A', 'B'):
            if cur[which] is None: continue
            for g2 in variants(cur[which]):
                budget -= 1
                if budget <= 0 or (deadline and time.time() > deadline): budget = 0; break
                cand = dict(cur); cand[which] = g2
                try:
                    if still_fails(cand): cur = cand; changed = True; break
                except Exception:
                    pass
    return cur


def run(ctx):
    ctx.cov['rule'] = ('fault-enumeration steps: (operation, input, k) with the interrupt requested at poll k of the N polls of the never-interrupted run '
                       '(every k up to the tier cap, sub-sampled above it), plus request-before-call, request-then-cancel, callback request+cancel, pending request '
                       'without callback; non-trivial = N >= 1 and the uninterrupted result is not an error; distinct by (operation, WKB of inputs, parameters, k)')
    ctx.assumptions += [
        'model: a registered callback acts on the library only through request/cancel/check (its net effect per invocation is a new flag value, possibly depending on everything it observed before); it does not re-register callbacks, throw, or re-enter GEOS',
        'model: the work between two checkpoints does not read or write the Interrupt state (checked by the site inventory: only Interrupt.cpp touches the statics)',
        'single thread (concurrent use of the process-wide flag is C13)',
        'catch inventory and call graph come from a textual C++ reader (props/C14.py build_inventory): name-based call resolution restricted by include visibility; '
        'its reachability claims are cross-checked against the checkpoint sites and call stacks observed at run time',
        'release of memory is observed (LeakSanitizer at every k), not proved; inputs unchanged = identical WKB (4 dimensions, SRID) before/after',
        'sub-sampling of k above %d polls per case (quick) / %d (thorough)' % (300, 2000)]
    t0 = time.time()
    relb = ctx.build_repo('rel'); asanb = ctx.build_repo('asan')
    # ---------------- G: inventories from the source, translator units, Coq
    inv = build_inventory(REPO)
    f12 = [k for k in ctx.known if k.get('status') == 'known' and k.get('key', {}).get('catch_site')]
    exempt = [(k['key']['catch_site']['file'], k['key']['catch_site']['function'], k['key']['catch_site']['caught']) for k in f12]
    sha = write_inventory_v(inv, exempt, os.path.join(COQ, 'theories', 'Gen', 'C14_Inventory.v'))
    offending = [c for c in inv['catches'] if not py_catch_ok(inv, c)]
    ctx.notes['inventory'] = dict(files=inv['nfiles'], functions=inv['nfuncs'], checkpoint_sites=len(inv['sites']), catch_clauses=len(inv['catches']),
                                  entry_points=len(inv['entries']), entry_points_reaching_a_checkpoint=sum(1 for e in inv['entries'] if e['interruptible']),
                                  exception_chain=inv['chain'], sha256=sha, scan_s=round(inv['wall'], 1),
                                  clauses=[dict(site='%s:%d' % (c['file'], c['line']), func=c['func'], caught=c['ty'], action=c['action'], boundary=c['boundary'],
                                                on_path=py_on_path(c), ok=py_catch_ok(inv, c), entries=len(c['entries'])) for c in inv['catches']])
    ctx.log('inventory: %d sites, %d catch clauses (%d rejected: %s), %d/%d entry points reach a checkpoint, %.1fs'
            % (len(inv['sites']), len(inv['catches']), len(offending), ['%s:%d' % (c['file'], c['line']) for c in offending],
               sum(1 for e in inv['entries'] if e['interruptible']), len(inv['entries']), inv['wall']))
    from translator.units import BY_PROPERTY
    units = BY_PROPERTY.get('C14', [])
    ctx.translate(units)
    ok_coq, ax = ctx.coq_build('Properties_C14')
    drv = ctx.ocaml_driver('C14')
    for c in offending:
        if py_exempt(exempt, c):
            k = next(k for k in f12 if (k['key']['catch_site']['file'], k['key']['catch_site']['function'], k['key']['catch_site']['caught']) == (c['file'], c['func'], c['ty']))
            ctx.known_hit(k, '%s [static: %s:%d catch(%s) in %s swallows the interrupt exception on the path of %d entry points]'
                          % (k['what'], c['file'], c['line'], c['ty'], c['func'], len(c['entries'])))
    # entry-point table vs the harness's notion of "error value"
    etab = {e['name']: e for e in inv['entries']}
    for op, (ent, err) in OP_ENTRY.items():
        if ent not in etab:
            ctx.broken.append(dict(kind='inventory', name='entry point ' + ent, detail='C API function %s (harness op %s) not found in capi/geos_ts_c.cpp' % (ent, op)))
        elif etab[ent]['errval'] != err:
            ctx.broken.append(dict(kind='inventory', name='error value of ' + ent, detail='execute() is given %r, the harness treats %r as the error value' % (etab[ent]['errval'], err)))
    if not relb or not asanb:
        return
    hexe = os.path.join(BUILD, 'bin', 'c14_asan')
    if not ctx.cxx(os.path.join(ROOT, 'harness/c14.cpp'), hexe, 'asan', extra='-ldl'):
        return
    env = dict(os.environ, ASAN_OPTIONS='detect_leaks=1:leak_check_at_exit=0:abort_on_error=0:exitcode=99', UBSAN_OPTIONS='print_stacktrace=1:halt_on_error=1')
    # ---------------- cases
    if ctx.replay:
        rp = json.load(open(ctx.replay)); cases = [rp['case']]
        cases[0]['A'] = tuple_geom(cases[0]['A']); cases[0]['B'] = tuple_geom(cases[0]['B']) if cases[0]['B'] is not None else None
    else:
        cases = []
        corpus = os.path.join(ROOT, 'gen/corpus/C14.jsonl')
        if os.path.exists(corpus):
            for l in open(corpus):
                if l.strip() and not l.startswith('#'):
                    c = json.loads(l); c['A'] = tuple_geom(c['A']); c['B'] = tuple_geom(c['B']) if c['B'] is not None else None; c['tag'] = 'corpus:' + c.get('tag', ''); cases.append(c)
        cases += gen_cases(ctx.rng, ctx.quick)
        if not ctx.quick:
            import random
            for s in (1, 2):
                cases += gen_cases(random.Random(ctx.seed * 1000 + s), True)
        cases += big_cases(ctx.rng, ctx.quick)
    cap = 300 if ctx.quick else 2000
    # ---------------- phase 1: count polls
    lines1 = [case_line(c, 'count') for c in cases]
    nchunk = max(1, (len(lines1) + NPROC - 1) // NPROC)
    chunks = [list(range(i, min(len(lines1), i + nchunk))) for i in range(0, len(lines1), nchunk)]
    out1 = [None] * len(lines1)
    with ThreadPoolExecutor(max_workers=NPROC) as ex:
        for idxs, res in zip(chunks, ex.map(lambda idxs: ctx.run_lines([hexe], [lines1[i] for i in idxs], timeout=900, env=env), chunks)):
            for i, r in zip(idxs, res): out1[i] = r
    ctx.log('phase 1 (poll counts of %d cases): %.0fs' % (len(cases), time.time() - t0))
    plan = []
    dist = {'ops': {}, 'N': {}, 'skipped': {}}
    for i, (c, o) in enumerate(zip(cases, out1)):
        d = parse_out(o or '')
        if d is None:
            ctx.count(('count', lines1[i]), False)
            if o and (o.startswith('CRASH') or o == 'TIMEOUT'):
                ctx.violation('baseline_%d' % i, dict(case=jcase(c), output=o, replay='echo "%s" | %s' % (lines1[i][:200] + '...', hexe)),
                              msg='uninterrupted %s (%s) with a counting callback: %s' % (c['op'], c['tag'], o[:200]))
            else:
                dist['skipped']['bad-output'] = dist['skipped'].get('bad-output', 0) + 1
            continue
        c['N'] = d['N']; c['d1'] = d
        b = '0' if d['N'] == 0 else '1-9' if d['N'] < 10 else '10-99' if d['N'] < 100 else '100-999' if d['N'] < 1000 else '>=1000'
        dist['N'][b] = dist['N'].get(b, 0) + 1
        if d.get('nocb') == 'E':
            dist['skipped']['baseline-error'] = dist['skipped'].get('baseline-error', 0) + 1; ctx.count(('count', lines1[i]), False); continue
        if d.get('nd') == '1':       # results vary between identical never-interrupted calls: the harness compares against the SET of such results
            dist.setdefault('self-varying', {})[c['op']] = dist.setdefault('self-varying', {}).get(c['op'], 0) + 1
        # time budget per case: an interrupted run plus a full re-run plus a leak check per k
        ms = int(d.get('ms', '0') or 0)
        kmax = max(24, int((45000 if ctx.quick else 150000) / (2.2 * ms + 12)))
        # big inputs have few polls: enumerate them all
        ks = choose_ks(d['N'], min(cap, kmax), ctx.rng) if not c.get('big') else choose_ks(d['N'], 24, ctx.rng)
        if len(ks) < min(d['N'], cap): dist.setdefault('sub-sampled', {})[c['op']] = dist.setdefault('sub-sampled', {}).get(c['op'], 0) + 1
        plan.append((i, c, ks))
    # ---------------- phase 2: fault enumeration, one child process per case
    def work(item):
        i, c, ks = item
        line = case_line(c, rle(ks) if ks else '-')
        rc, so, se = run_proc([hexe], line, env, 1800 if ctx.quick else 7200)
        return i, rc, so, se
    plan.sort(key=lambda it: -(it[1]['N'] * max(1, len(it[2])) * max(1, nverts(it[1]['A']))))
    results = {}
    with ThreadPoolExecutor(max_workers=NPROC) as ex:
        for i, rc, so, se in ex.map(work, plan): results[i] = (rc, so, se)
    ctx.log('phase 2 (fault enumeration of %d cases): %.0fs' % (len(plan), time.time() - t0))
    # ---------------- model predictions
    swallow_entries = set()
    for c in offending: swallow_entries |= set(c['entries'])
    mlines = []
    for i, c, ks in plan:
        mlines.append('%d 0 0 %s' % (c['N'], ','.join(map(str, ks)) if ks else '-'))
    model = ctx.run_lines([drv], mlines, timeout=1200) if drv else None
    # ---------------- compare
    sym = Symbolizer(os.path.join(asanb, 'lib'))
    all_sites = set(); site_by_op = {}
    f13 = [k for k in ctx.known if k.get('status') == 'known' and k.get('key', {}).get('leak_root')]
    agg = {}            # finding id -> dict(ops=set(), n=int)
    viol = []
    steps = 0
    for j, (i, c, ks) in enumerate(plan):
        rc, so, se = results[i]
        ent = OP_ENTRY[c['op']][0]
        dist['ops'][c['op']] = dist['ops'].get(c['op'], 0) + 1
        d = parse_out(so.split('\n')[0] if so else '')
        key = (c['op'], c['p1'], c['p2'], hashlib.md5((hexwkb(c['A']) + '|' + (hexwkb(c['B']) if c['B'] is not None else '')).encode()).hexdigest())
        if d is None or 'Kc' not in d or rc != 0:
            ctx.count(key + ('crash',), c['N'] >= 1)
            tail = (se or '')[-1500:]
            viol.append(dict(case=c, k=None, what='process died during the fault enumeration (rc=%s): %s' % (rc, re.sub(r'\s+', ' ', tail)[-600:]), kind='crash', ks=ks))
            continue
        N = d['N']
        if N != c['N']:
            viol.append(dict(case=c, k=None, what='number of polls of the uninterrupted run changed between two processes: %d then %d' % (c['N'], N), kind='nondeterministic-polls', ks=ks)); continue
        for sx in d['site_list']:
            all_sites.add(int(sx, 16)); site_by_op.setdefault(ent, set()).add(int(sx, 16))
        leaks = parse_lsan(se)
        mcodes = parse_out('N=%d ' % N + (model[j] if model and j < len(model) else '')) if model else None
        may_swallow = ent in swallow_entries
        stacks_res = None
        def stack_funcs(sid):
            fr = d['stack_map'].get(sid, [])
            r = sym.resolve([(x[0], int(x[1:], 16)) for x in fr])
            return [fn for x in fr for (fn, _, _) in r[(x[0], int(x[1:], 16))]]
        if d.get('cbsame') != '1':
            viol.append(dict(case=c, k=None, what='a registered callback that never requests changed the result / state (cbsame=0)', kind='callback-changes-result', ks=ks))
        if d.get('det') != '1':
            viol.append(dict(case=c, k=None, what='two uninterrupted runs with the counting callback differ (polls or result)', kind='nondeterministic', ks=ks))
        prev_total = leaks.get(0, {}).get('total', 0); prev_blocks = leaks.get(0, {}).get('blocks', {})
        k1_known_swallow = False
        for k in ks:
            steps += 1
            ctx.count(key + (k,), N >= 1)
            oc = parse_code(d['Kc'].get(k, ''))
            if oc is None:
                viol.append(dict(case=c, k=k, what='no observation for k=%d (%r)' % (k, d['Kc'].get(k)), kind='harness', ks=ks)); continue
            # --- leak at this k
            lk = leaks.get(k); new_leak = None
            if lk is not None:
                if lk['total'] > prev_total:
                    new_leak = [b for sig, b in lk['blocks'].items() if b[1] > prev_blocks.get(sig, (0, 0, 0, 0))[1]]
                prev_total = max(prev_total, lk['total']); prev_blocks = lk['blocks'] if lk['blocks'] else prev_blocks
            # --- property, clause by clause
            bad = []
            if oc['out'] != 'A': bad.append('completed-normally-after-interrupt')
            if oc['out'] == 'A' and oc['m']: bad.append('error message lacks "interrupt"')
            if oc['f']: bad.append('request not cleared')
            if oc['w'] or oc['W']: bad.append('input geometry changed')
            if oc['r']: bad.append('re-run differs from the never-interrupted result')
            if oc['n'] != N: bad.append('re-run polled %s times instead of %d' % (oc['n'], N))
            if oc['F']: bad.append('request pending after the re-run')
            if new_leak: bad.append('leak-after-interrupt')
            # --- model tie
            if mcodes and k in mcodes.get('Kc', {}):
                mc = parse_code(mcodes['Kc'][k])
                same = (mc['out'], mc['f'], mc['p'], mc['r'], mc['n'], mc['F']) == (oc['out'], oc['f'], oc['p'], oc['r'], oc['n'], oc['F'])
                swallowed_shape = oc['out'] == 'C' and not oc['f'] and oc['p'] >= k and not oc['r'] and oc['n'] == N and not oc['F']   # C14_predict_at_swallowed with n2 = p - k
                if not same and not (may_swallow and swallowed_shape):
                    ctx.broken.append(dict(kind='correspondence', name='interrupt at poll k (%s)' % c['op'],
                                           detail='op %s (%s) N=%d k=%d: model %s, implementation %s; static inventory says entry %s %s see a swallowing clause'
                                           % (c['op'], c['tag'], N, k, mcodes['Kc'][k], d['Kc'][k], ent, 'may' if may_swallow else 'cannot')))
            if not bad:
                continue
            # --- known findings, by specific key
            rest = list(bad)
            if 'completed-normally-after-interrupt' in rest:
                fns = stack_funcs(oc['s']) if oc['s'] is not None else []
                for kf in f12:
                    site = kf['key']['catch_site']['function']
                    if ent in kf['key'].get('operations', []) and any(site + '(' in fn or fn.endswith(site) for fn in fns):
                        a = agg.setdefault(kf['id'], dict(k=kf, ops=set(), n=0)); a['ops'].add(ent); a['n'] += 1
                        rest.remove('completed-normally-after-interrupt')
                        if k == 1: k1_known_swallow = True
                        break
            if 'leak-after-interrupt' in rest:
                direct = [b for b in new_leak if b[0] == 'Direct'] or new_leak
                for kf in f13:
                    root = kf['key']['leak_root']
                    if ent in kf['key'].get('operations', []) and all(any(root in fn for fn in b[3]) for b in direct):
                        a = agg.setdefault(kf['id'], dict(k=kf, ops=set(), n=0)); a['ops'].add(ent); a['n'] += 1
                        rest.remove('leak-after-interrupt'); break
            if rest:
                extra = ''
                if 'completed-normally-after-interrupt' in rest:
                    extra = ' [stack at the poll: %s]' % ' < '.join(fn.split('(')[0] for fn in (stack_funcs(oc['s']) if oc['s'] is not None else [])[:8])
                if 'leak-after-interrupt' in rest:
                    extra += ' [leaked: %s]' % '; '.join('%s %d bytes from %s' % (b[0], b[1], ' < '.join(f.split('(')[0] for f in b[3][1:4])) for b in new_leak[:3])
                viol.append(dict(case=c, k=k, what='; '.join(rest) + extra, kind=rest[0], ks=ks, observed=d['Kc'][k]))
        # --- the four fixed scenarios
        for name, exp in (('pre', None), ('rc', 'C'), ('cbrc', 'C'), ('prenocb', None)):
            steps += 1
            oc = parse_code(d.get(name, ''))
            ctx.count(key + (name,), N >= 1)
            if oc is None:
                viol.append(dict(case=c, k=name, what='no observation for scenario %s' % name, kind='harness', ks=ks)); continue
            bad = []
            if name in ('pre', 'prenocb'):
                if N >= 1:
                    if oc['out'] != 'A': bad.append('completed-normally-after-interrupt')
                    if oc['out'] == 'A' and oc['m']: bad.append('error message lacks "interrupt"')
                    if oc['f']: bad.append('request not cleared')
                    if oc['out'] == 'A' and name == 'pre' and oc['p'] != 1: bad.append('aborted after %d polls instead of at the first' % oc['p'])
                    if name == 'pre' and (oc['r'] or oc['n'] != N or oc['F']): bad.append('re-run differs from the never-interrupted result')
            else:
                if oc['out'] != 'C' or oc['d']: bad.append('cancelled request still interrupted or changed the result')
                if oc['f']: bad.append('flag set after a cancelled request')
                if oc['p'] != N: bad.append('%d polls instead of %d' % (oc['p'], N))
            if oc['w']: bad.append('input geometry changed')
            if mcodes and name in mcodes:
                mc = parse_code(mcodes[name])
                same = (mc['out'], mc['f'], mc['p'], mc['r'], mc['n'], mc['F']) == (oc['out'], oc['f'], oc['p'], oc['r'], oc['n'], oc['F'])
                if not same and not (may_swallow and oc['out'] == 'C' and not oc['f']):
                    ctx.broken.append(dict(kind='correspondence', name='scenario %s (%s)' % (name, c['op']),
                                           detail='op %s (%s) N=%d: model %s, implementation %s' % (c['op'], c['tag'], N, mcodes[name], d.get(name))))
            if bad == ['completed-normally-after-interrupt'] and k1_known_swallow:
                for kf in f12:
                    if ent in kf['key'].get('operations', []):
                        a = agg.setdefault(kf['id'], dict(k=kf, ops=set(), n=0)); a['ops'].add(ent); a['n'] += 1; bad = []; break
            if bad:
                viol.append(dict(case=c, k=name, what='scenario %s: %s' % (name, '; '.join(bad)), kind=bad[0], ks=ks, observed=d.get(name)))
    ctx.cov['traces_validated_against_impl'] = steps
    # ---------------- checkpoint sites reached, and the static call graph against what was observed
    res = sym.resolve([('g', o) for o in all_sites])
    static_sites = {(os.path.basename(s['file']), s['line']): s for s in inv['sites']}
    reached = {}; site_of_off = {}
    for o in all_sites:
        fr = res[('g', o)]
        hit = None
        for fn, f, l in fr:
            for dl in (0, -1, 1, -2, 2):
                if (os.path.basename(f), l + dl) in static_sites: hit = static_sites[(os.path.basename(f), l + dl)]; break
            if hit: break
        if hit is None:
            ctx.broken.append(dict(kind='inventory', name='unknown checkpoint site', detail='a poll was observed from %s which is not in the generated site list' % (fr[:2],)))
        else:
            site_of_off[o] = (hit['file'], hit['line']); reached.setdefault((hit['file'], hit['line']), 0)
    for i, c, ks in plan:
        d1 = parse_out((results[i][1] or '').split('\n')[0])
        for sx in set(site_of_off.get(int(x, 16)) for x in (d1['site_list'] if d1 else [])) - {None}:
            reached[sx] += 1
    # an observed (entry point, site) pair must be statically reachable
    fid_of_site = {}
    for f in inv['funcs']:
        for l in f['polls']: fid_of_site[(f['file'], l)] = f['id']
    byname = {e['name']: e['fid'] for e in inv['entries']}
    for ent, offs in site_by_op.items():
        if ent not in byname: continue
        fw = inv['closure']([byname[ent]], inv['edges'])
        extra_roots = [byname[x] for x in ('GEOSPrepare_r',) if x in byname] if ent.startswith('GEOSPrepared') else []
        if extra_roots: fw |= inv['closure'](extra_roots, inv['edges'])
        for o in offs:
            for fn, f, l in res[('g', o)]:
                for dl in (0, -1, 1, -2, 2):
                    s = static_sites.get((os.path.basename(f), l + dl))
                    if s and fid_of_site.get((s['file'], s['line'])) not in fw:
                        ctx.broken.append(dict(kind='inventory', name='call graph misses %s -> %s' % (ent, s['func']),
                                               detail='checkpoint %s:%d was polled under %s at run time but is not statically reachable from it: the catch inventory may be incomplete' % (s['file'], s['line'], ent)))
                    if s: break
    # ---------------- checkpoints that poll only every n-th iteration: which STAGES (users of the polling class) reached them
    rare = {}
    for f in inv['funcs']:
        for l in f['polls']:
            T = f['T']; a, b = f['body']
            idx = next((j for j in range(a, b) if T[j][0] == 'GEOS_CHECK_FOR_INTERRUPTS' and T[j][1] == l), None)
            if idx is not None and f['cls'] and any(T[j][0] == '%' for j in range(max(a, idx - 14), idx)):
                rare[(f['file'], l)] = f['cls']
    api_reach = inv['closure']([e['fid'] for e in inv['entries']], inv['edges'])
    stage_note = {}
    for (sf, sl), cls in rare.items():
        users = sorted(set(g['cls'] for g in inv['funcs'] if g['cls'] and g['cls'] != cls and cls in g['idents'] and g['id'] in api_reach))
        hit = set()
        for i, c, ks in plan:
            d1 = parse_out((results[i][1] or '').split('\n')[0])
            for fr in (d1['ctx_list'] if d1 else []):
                if not fr or not fr[0].startswith('g') or site_of_off.get(int(fr[0][1:], 16)) != (sf, sl): continue
                rr = sym.resolve([(x[0], int(x[1:], 16)) for x in fr if x[0] in 'gc'])
                names = [fn for x in fr if x[0] in 'gc' for (fn, _, _) in rr[(x[0], int(x[1:], 16))]]
                for u in users:
                    if any(('::' + u + '::') in nm or nm.startswith(u + '::') for nm in names): hit.add(u)
        stage_note['%s:%d (%s)' % (sf, sl, cls)] = dict(stages_from_source=users, reached=sorted(hit), not_reached=sorted(set(users) - hit))
        if not ctx.replay:
            need = {'MCIndexNoder': (['EdgeNodingBuilder', 'FastNodingValidator', 'IteratedNoder'] if ctx.quick else
                                     ['EdgeNodingBuilder', 'FastNodingValidator', 'IteratedNoder', 'PolygonTopologyAnalyzer', 'IsSimpleOp', 'SnapRoundingNoder', 'BufferBuilder']),
                    'EdgeSetIntersector': ['RelateNG']}.get(cls, [])
            for u in need:
                if u in users and u not in hit:
                    ctx.broken.append(dict(kind='generator', name='checkpoint coverage', detail='the every-n-th-iteration checkpoint %s:%d was never polled from stage %s (inputs too small for that noding pass)' % (sf, sl, u)))
    ctx.notes['rare_checkpoints_by_stage'] = stage_note
    ctx.notes['checkpoint_sites_reached'] = sorted('%s:%d (%d cases)' % (f, l, n) for (f, l), n in reached.items())
    redges = {}
    for a, bs in inv['edges'].items():
        for b in bs: redges.setdefault(b, set()).add(a)
    ent_ids = {e['fid'] for e in inv['entries']}
    unreachable = set()
    for f in inv['funcs']:
        if f['polls'] and not (inv['closure']([f['id']], redges) & ent_ids):
            for l in f['polls']: unreachable.add((f['file'], l))
    ctx.notes['checkpoint_sites_not_reachable_from_the_C_API (static call graph)'] = sorted('%s:%d' % x for x in unreachable)
    missed = [s for s in inv['sites'] if (s['file'], s['line']) not in reached and (s['file'], s['line']) not in unreachable]
    ctx.notes['checkpoint_sites_not_reached'] = sorted('%s:%d %s' % (s['file'], s['line'], s['func']) for s in missed)
    if missed and not ctx.replay:
        ctx.broken.append(dict(kind='generator', name='checkpoint coverage', detail='checkpoint sites reachable from the C API but never polled by the generated cases: %s'
                               % ', '.join('%s:%d' % (s['file'], s['line']) for s in missed)))
    ctx.notes['distribution'] = dist
    ctx.log('sites reached %d/%d (%d not reachable from the C API); steps %d' % (len(reached), len(inv['sites']), len(unreachable), steps))
    # ---------------- self-check of the generators: every operation family named by the property was enumerated with N >= 1
    if not ctx.replay:
        fb = [c for _, c, _ in plan if 'fallback rungs' in c.get('tag', '') and c['N'] > 5]
        ctx.notes['overlay_cases_running_the_fallback_rungs'] = len(fb)
        if len(fb) < 3:
            ctx.broken.append(dict(kind='generator', name='distribution', detail='fewer than 3 overlay cases whose floating-noding pass fails (gen/corpus/C14.jsonl): the polls of the OverlayNGRobust fallback rungs are not enumerated'))
        for grp, ops in REQUIRED_GROUPS.items():
            if not any(c['op'] in ops and c['N'] >= 1 for _, c, _ in plan):
                ctx.broken.append(dict(kind='generator', name='distribution', detail='no enumerated case with >= 1 poll for operation family %r' % grp))
    # ---------------- verdicts
    for fid, a in sorted(agg.items()):
        ctx.known_hit(a['k'], '%s [observed: %d interrupted calls through %s]' % (a['k']['what'], a['n'], ','.join(sorted(a['ops']))))
    seen_kinds = {}
    shrink_deadline = time.time() + (60 if ctx.quick else 300)
    for v in viol:
        kk = (v['case']['op'], v['kind'])
        seen_kinds[kk] = seen_kinds.get(kk, 0) + 1
        if seen_kinds[kk] > 3 or len(ctx.violations) >= 10:      # up to three replays per (operation, kind of failure)
            continue
        c = v['case']
        shr = None
        if isinstance(v['k'], int) and not ctx.replay and not c.get('big') and time.time() < shrink_deadline:
            def still(cand, kind=v['kind'], k0=v['k']):
                rc2, so2, se2 = run_proc([hexe], case_line(cand, '1-40'), env, 300)
                d2 = parse_out(so2.split('\n')[0] if so2 else '')
                if rc2 != 0 or d2 is None: return kind == 'crash'
                for kk2, cc in d2.get('Kc', {}).items():
                    o2 = parse_code(cc)
                    if o2 is None or kk2 > d2['N']: continue
                    if kind == 'completed-normally-after-interrupt' and o2['out'] == 'C': return True
                    if kind == 'request not cleared' and (o2['f'] or o2['F']): return True
                    if kind == 're-run differs from the never-interrupted result' and o2['r']: return True
                    if kind == 'input geometry changed' and (o2['w'] or o2['W']): return True
                    if kind == 'error message lacks "interrupt"' and o2['m']: return True
                if kind == 'leak-after-interrupt':
                    ls = parse_lsan(se2); tots = [ls[x]['total'] for x in sorted(ls)]
                    return any(b > a for a, b in zip(tots, tots[1:]))
                return False
            shr = shrink_case(c, still, deadline=min(shrink_deadline, time.time() + 25))
        line = case_line(shr or c, rle([v['k']]) if isinstance(v['k'], int) and not shr else '1-40')
        rp = os.path.join(ctx.work, 'replay_%s_%s.txt' % (c['op'], re.sub(r'\W+', '_', str(v['k']))))
        open(rp, 'w').write(line + '\n')
        ctx.violation('%s_%s' % (c['op'], re.sub(r'\W+', '_', str(v['k']))),
                      dict(case=jcase(c), shrunk=jcase(shr) if shr else None, operation=c['op'], entry_point=OP_ENTRY[c['op']][0], input_A=wkt(c['A'])[:2000],
                           input_B=wkt(c['B'])[:2000] if c['B'] is not None else None, polls_N=c.get('N'), interrupted_at_poll=v['k'], implementation=v.get('observed'),
                           expected='A p<k> n<N>: error value, "Interrupted" message, request cleared, inputs unchanged, nothing leaked, re-run equal to the never-interrupted result',
                           why=v['what'], same_kind_in_this_run=sum(1 for x in viol if (x['case']['op'], x['kind']) == kk),
                           replay='ASAN_OPTIONS=detect_leaks=1:leak_check_at_exit=0 %s < %s' % (hexe, rp)),
                      msg='%s (%s) k=%s: %s' % (c['op'], c['tag'], v['k'], v['what'][:300]))
    if any(not noin for _, noin, _ in ctx.violations):
        for b in ctx.broken:          # the search for a failing input succeeded: the concrete violations above are the report
            if b['kind'] in ('proof', 'translator', 'correspondence', 'inventory'): b['resolved'] = True
    for c in cases[:3]:
        ctx.sample('%s p1=%r p2=%d A=%s' % (c['op'], c['p1'], c['p2'], wkt(c['A'])[:200]))
    ctx.notes['violating_steps'] = len(viol)
    byent = {}
    for v in viol:
        byent.setdefault(v['kind'], {}).setdefault(OP_ENTRY[v['case']['op']][0], 0)
        byent[v['kind']][OP_ENTRY[v['case']['op']][0]] += 1
    ctx.notes['violating_steps_by_kind_and_entry'] = byent
    ctx.notes['known_finding_steps'] = {fid: dict(steps=a['n'], entries=sorted(a['ops'])) for fid, a in agg.items()}


def jcase(c):
    return dict(op=c['op'], p1=c['p1'], p2=c['p2'], A=c['A'], B=c['B'], tag=c.get('tag', '')) if c else None


def tuple_geom(g):
    t, v = g
    if t == 'Point': return (t, tuple(v) if v is not None else None)
    if t == 'LineString': return (t, [tuple(p) for p in v])
    if t == 'Polygon': return (t, [[tuple(p) for p in r] for r in v])
    return (t, [tuple_geom(x) for x in v])
