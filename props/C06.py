"""C06 — buffer holds everything within distance d, nothing farther, and is valid.

proof:  coq/theories/C06/{PreludeR,FilletDefs,FilletProofs,ETable,ETableProofs,EProofs,CheckDefs,CheckProofs}.v, Properties_C06.v
        M  = the fillet generator of OffsetSegmentGenerator over the reals (segment count floor(total/quantum + 1/2), angle
             increment, chord sagitta): inward error <= d (1 - cos(3/4 quantum)); against the property's tolerance
             e(q) = 0.015 + 1 - cos(pi/(4q)) this is within bounds for q in [6, 32] and REFUTED for q = 1..5 (finding F1);
        R  = executable checker of the distance clauses over exact integers (certified rational enclosure e_up of e(q),
             squared rational distances, exact even-odd location): verdict OK => clauses hold at every witness,
             verdict FAIL => the clause of the property text is violated at that witness.
tie:    G  translator units C06_fillet (addDirectedFillet) and C06_distErr (bufferDistanceError), proved equal to M;
        G  C06_inCentre, C06_triEroded, C06_ringEroded, C06_envWidth, C06_envHeight (+ C08_ptSeg and helpers): the ring-dropping
           decisions of BufferCurveSetBuilder, theorems proved directly about the generated text (C06/ErodeTri.v, ErodeEnv.v);
        M  the extracted count nsegs_q beside the real (private) addDirectedFillet and beside GEOSBufferWithParams_r on
           two-segment lines with turn angles round every (n + 1/2) quantum, q = 1..32;
        R  the extracted checker on the outputs of GEOSBuffer_r / GEOSBufferWithStyle_r / GEOSBufferWithParams_r /
           GEOSOffsetCurve_r / GEOSSingleSidedBuffer_r for generated valid inputs.
"""
import json, math, os, random, time
from concurrent.futures import ThreadPoolExecutor
from fractions import Fraction
from vlib.core import ROOT, BUILD, NPROC
from gen import geoms as G

CAP_ROUND, CAP_FLAT, CAP_SQUARE = 1, 2, 3
JOIN_ROUND, JOIN_MITRE, JOIN_BEVEL = 1, 2, 3
IN_MARGIN = 1e-8          # witnesses are placed this (relative) amount inside (1-e)d / outside (1+1e-6)d
HEX = float.hex


def e_float(q):
    return 0.015 + 1 - math.cos(math.pi / (4 * q))


# ------------------------------------------------------------------------------------------------ geometry plumbing
def flatten(g):
    """-> (points, lines, polygons) of a gen/geoms geometry; empties dropped"""
    pts, lines, polys = [], [], []
    for a in G.atoms(g):
        if a[0] == 'Point' and a[1] is not None:
            pts.append((float(a[1][0]), float(a[1][1])))
        elif a[0] == 'LineString' and a[1]:
            lines.append([(float(x), float(y)) for x, y in a[1]])
        elif a[0] == 'Polygon' and a[1] and a[1][0]:
            polys.append([[(float(x), float(y)) for x, y in r] for r in a[1] if r])
    return pts, lines, polys


def parse_out(s):
    """harness output line -> dict"""
    if not s.startswith('OK '):
        return dict(ok=False, msg=s[:300])
    w = s.split()
    r = dict(ok=True, t=int(w[1][2:]), valid=int(w[2][2:]), empty=int(w[3][2:]), ms=float(w[4][3:]), polys=[], lines=[], pts=[])
    i = 6
    n = int(w[i]); i += 1
    fh = float.fromhex

    def seq():
        nonlocal i
        k = int(w[i]); i += 1
        out = [(fh(w[i + 2 * j]), fh(w[i + 2 * j + 1])) for j in range(k)]
        i += 2 * k
        return out
    for _ in range(n):
        tag = w[i]; i += 1
        if tag == 'A':
            nr = int(w[i]); i += 1
            r['polys'].append([seq() for _ in range(nr)])
        elif tag == 'L':
            r['lines'].append(seq())
        elif tag == 'T':
            r['pts'].append((fh(w[i]), fh(w[i + 1]))); i += 2
    return r


class Grid:
    """one common power-of-two grid for all the doubles of a case (doubles are dyadic rationals): value * 2^k is an integer"""

    def __init__(self, values, extra_bits=0):
        k = 0
        for v in values:
            if v != 0.0:
                m, e = math.frexp(v)           # v = m 2^e, 0.5 <= |m| < 1, m has <= 53 bits
                mi = int(m * (1 << 53))
                tz = (mi & -mi).bit_length() - 1
                k = max(k, 53 - tz - e)
        self.k = k + extra_bits

    def z(self, v):
        f = Fraction(v) * (1 << self.k) if self.k >= 0 else Fraction(v) / (1 << -self.k)
        assert f.denominator == 1, (v, self.k)
        return f.numerator


def seq_txt(grid, pts):
    return '%d %s' % (len(pts), ' '.join('%d %d' % (grid.z(x), grid.z(y)) for x, y in pts)) if pts else '0'


def lines_txt(grid, lines):
    return ' '.join(['%d' % len(lines)] + [seq_txt(grid, l) for l in lines])


def mpoly_txt(grid, polys):
    return ' '.join(['%d' % len(polys)] + ['%d %s' % (len(p), ' '.join(seq_txt(grid, r) for r in p)) for p in polys])


def all_coords(flat):
    pts, lines, polys = flat
    out = list(pts)
    for l in lines: out += l
    for p in polys:
        for r in p: out += r
    return out


# ------------------------------------------------------------------------------------------------ float geometry (prefilter / classification only)
def seg_proj(w, a, b):
    """(squared distance, clamped?, parameter) of w to segment ab, floats"""
    dx, dy = b[0] - a[0], b[1] - a[1]
    l2 = dx * dx + dy * dy
    if l2 == 0.0:
        return (w[0] - a[0]) ** 2 + (w[1] - a[1]) ** 2, True, 0.0
    t = ((w[0] - a[0]) * dx + (w[1] - a[1]) * dy) / l2
    if t <= 0.0:
        return (w[0] - a[0]) ** 2 + (w[1] - a[1]) ** 2, True, 0.0
    if t >= 1.0:
        return (w[0] - b[0]) ** 2 + (w[1] - b[1]) ** 2, True, 1.0
    cx = dx * (w[1] - a[1]) - dy * (w[0] - a[0])
    return cx * cx / l2, False, t


def segs_of(flat, only_polys=False):
    pts, lines, polys = flat
    ss = []
    if not only_polys:
        ss += [(p, p) for p in pts]
        for l in lines:
            ss += list(zip(l, l[1:]))
    for p in polys:
        for r in p:
            ss += list(zip(r, r[1:]))
    return ss


def fdist(w, ss):
    """float distance to the linework + (nearest segment index, nearest point is a vertex?, that vertex)"""
    best = (float('inf'), -1, False, None)
    for i, (a, b) in enumerate(ss):
        d2, cl, t = seg_proj(w, a, b)
        if d2 < best[0]:
            best = (d2, i, cl, (a if t == 0.0 else b) if cl else None)
    return math.sqrt(best[0]) if best[0] != float('inf') else float('inf'), best[1], best[2], best[3]


def in_ring_f(w, r):
    c = False
    for a, b in zip(r, r[1:]):
        if (a[1] <= w[1] < b[1]) or (b[1] <= w[1] < a[1]):
            if ((b[0] - a[0]) * (w[1] - a[1]) - (b[1] - a[1]) * (w[0] - a[0]) > 0) == (b[1] > a[1]):
                c = not c
    return c


def in_polys_f(w, polys):
    for p in polys:
        if in_ring_f(w, p[0]) and not any(in_ring_f(w, hh) for hh in p[1:]):
            return True
    return False


# ------------------------------------------------------------------------------------------------ witness locations
def unit(dx, dy):
    l = math.hypot(dx, dy)
    return (dx / l, dy / l) if l > 0 else (0.0, 0.0)


def witnesses(rng, flat, d, q, res_polys, budget, fan=6, ladder=2, only_polys=False):
    """candidate witness locations (floats) with a tag; every verdict on them is taken by the exact checker"""
    ad = abs(d)
    e = e_float(q)
    rin = (1 - e) * ad * (1 - IN_MARGIN)
    rout = (1 + 1e-6) * ad * (1 + IN_MARGIN)
    pts, lines, polys = flat
    ws = []
    verts = []
    if not only_polys:
        verts += pts
        for l in lines: verts += l
    for p in polys:
        for r in p: verts += r[:-1]
    segs = [s for s in segs_of(flat, only_polys) if s[0] != s[1]]
    # polar fan round input vertices
    vs = verts if len(verts) <= 24 else rng.sample(verts, 24)
    for v in vs:
        a0 = rng.random() * 2 * math.pi
        for k in range(fan):
            a = a0 + 2 * math.pi * k / fan
            c, s = math.cos(a), math.sin(a)
            ws.append((v[0] + rin * c, v[1] + rin * s, 'fan-in'))
            ws.append((v[0] + rout * c, v[1] + rout * s, 'fan-out'))
            if k == 0:
                ws.append((v[0] + 0.5 * rin * c, v[1] + 0.5 * rin * s, 'fan-half'))
    # ladder along input segments
    sg = segs if len(segs) <= 24 else rng.sample(segs, 24)
    for a, b in sg:
        ux, uy = unit(b[0] - a[0], b[1] - a[1])
        for _ in range(ladder):
            t = rng.choice([0.5, rng.random(), 0.02, 0.98])
            mx, my = a[0] + t * (b[0] - a[0]), a[1] + t * (b[1] - a[1])
            for sg_ in (1, -1):
                ws.append((mx - sg_ * uy * rin, my + sg_ * ux * rin, 'lad-in'))
                ws.append((mx - sg_ * uy * rout, my + sg_ * ux * rout, 'lad-out'))
    # vertices and edge midpoints of the result, nudged to both sides
    nud = 1e-7 * ad if ad > 0 else 0.0
    redges = []
    for p in res_polys:
        for r in p:
            redges += list(zip(r, r[1:]))
    maxc = max([abs(c) for p in res_polys for r in p for xy in r for c in xy] + [abs(c) for v in verts for c in v] + [0.0])
    nud = max(nud, 16 * maxc * 2.0 ** -52)
    if len(redges) > budget:
        redges = rng.sample(redges, budget)
    for a, b in redges:
        ux, uy = unit(b[0] - a[0], b[1] - a[1])
        mx, my = (a[0] + b[0]) / 2, (a[1] + b[1]) / 2
        for sg_ in (1, -1):
            ws.append((mx - sg_ * uy * nud, my + sg_ * ux * nud, 'res-mid'))
            ws.append((a[0] - sg_ * uy * nud, a[1] + sg_ * ux * nud, 'res-vtx'))
    return ws, rin, rout


def prefilter(ws, flat, d, q, kfac, only_polys=False):
    """drop candidates for which no clause can have a true hypothesis (float estimate with a wide safety band):
       keeps w iff it may be within the inside bound or beyond the outside bound.  Returns (kept, stats)."""
    ad = abs(d)
    e = e_float(q)
    bin_ = (1 - e) * ad
    bout = (1 + 1e-6) * ad * math.sqrt(kfac)
    ss = segs_of(flat, only_polys)
    polys = flat[2]
    kept = []
    st = {'in': 0, 'out': 0}
    for w in ws:
        fd = fdist(w, ss)[0]
        ina = in_polys_f(w, polys) if polys else False
        eff_in = fd <= bin_ * (1 + 1e-6) or (ina and d > 0) or (d < 0 and not ina)
        eff_out = fd >= bout * (1 - 1e-6) and ((d > 0 and not ina) or (d < 0 and ina))
        if d == 0:
            eff_in = True
        if eff_in or eff_out:
            kept.append(w)
            st['in' if eff_in else 'out'] += 1
    return kept, st


# ------------------------------------------------------------------------------------------------ running
def par_lines(ctx, argv, lines, timeout=600, nproc=None):
    """run a line-in/line-out program over `lines` on several cores, order preserved"""
    nproc = min(nproc or NPROC, max(1, len(lines)))
    chunks = [list(range(i, len(lines), nproc)) for i in range(nproc)]
    res = [None] * len(lines)

    def work(idx):
        out = ctx.run_lines(argv, [lines[i] for i in idx], timeout=timeout)
        for i, o in zip(idx, out):
            res[i] = o
    with ThreadPoolExecutor(max_workers=nproc) as ex:
        list(ex.map(work, chunks))
    return [r if r is not None else 'MISSING' for r in res]


def harness_line(c):
    wkt = G.to_wkt(c['g'])
    d = HEX(float(c['d']))
    if c['api'] == 'B':
        return 'B|%s|%d|%s' % (d, c['q'], wkt)
    if c['api'] == 'S':
        return 'S|%s|%d|%d|%d|%s|%s' % (d, c['q'], c['cap'], c['join'], HEX(float(c['mitre'])), wkt)
    if c['api'] == 'P':
        return 'P|%s|%d|%d|%d|%s|%d|%s' % (d, c['q'], c['cap'], c['join'], HEX(float(c['mitre'])), c.get('single', 0), wkt)
    if c['api'] == 'O':
        return 'O|%s|%d|%d|%s|%s' % (d, c['q'], c['join'], HEX(float(c['mitre'])), wkt)
    if c['api'] == 'D':
        return 'D|%s|%d|%d|%s|%d|%s' % (d, c['q'], c['join'], HEX(float(c['mitre'])), c['left'], wkt)
    raise ValueError(c['api'])


def style_of(c, flat):
    """(round joins and caps?, enlargement k of the squared outside bound as a Fraction) for the styles of the case"""
    pts, lines, polys = flat
    cap, join, m = c.get('cap', CAP_ROUND), c.get('join', JOIN_ROUND), float(c.get('mitre', 5.0))
    has_ends = (bool(lines) or bool(pts)) and c['d'] > 0
    k = Fraction(1)
    rnd = True
    if join == JOIN_MITRE:
        k = max(k, 1 + Fraction(m) ** 2)      # mitre tip <= limit * d from the corner; a limited mitre's bevel ends <= sqrt(1 + limit^2) d
        rnd = False
    if join == JOIN_BEVEL:
        rnd = False
    if has_ends and cap == CAP_SQUARE:
        k = max(k, Fraction(2))               # corner of a square cap: sqrt(2) d from the line end
        rnd = False
    if has_ends and cap == CAP_FLAT:
        rnd = False
    return rnd, k


def buf_case_line(c, flat, res, ws):
    """driver line for the extracted checker"""
    rnd, k = style_of(c, flat)
    d = float(c['d'])
    vals = [abs(d)] + [v for xy in all_coords(flat) for v in xy] + [v for p in res['polys'] for r in p for xy in r for v in xy] + [v for w in ws for v in w[:2]]
    grid = Grid(vals)
    pts, lines, polys = flat
    if d < 0:
        gin = '0 0 ' + mpoly_txt(grid, polys)          # only the polygons count for a negative distance
    else:
        gin = '%s %s %s' % (seq_txt(grid, pts), lines_txt(grid, lines), mpoly_txt(grid, polys))
    sgn = 1 if d > 0 else -1 if d < 0 else 0
    return 'BUF %d %d %d %d %d %d %s %s %s' % (sgn, 1 if rnd else 0, grid.z(abs(d)), c['q'], k.numerator, k.denominator, gin,
                                                mpoly_txt(grid, res['polys']), seq_txt(grid, [w[:2] for w in ws]))


def parse_verdict(s):
    """'I i j O k' -> ([i, j], [k]) or None on error"""
    w = s.split()
    if not w or w[0] != 'I' or 'O' not in w:
        return None
    o = w.index('O')
    return [int(x) for x in w[1:o]], [int(x) for x in w[o + 1:]]


# ------------------------------------------------------------------------------------------------ generators
def gen_magnitude(rng, g):
    """full-precision coordinates at several magnitudes: x -> x s + o (correctly rounded by float arithmetic)"""
    mode = rng.random()
    if mode < 0.25:
        return g, 'grid'
    s = rng.choice([1e-3, 0.1, 1.0, 1.0, 7.3, 1e3, 1e6]) * (1 + rng.random() * rng.choice([0, 1e-9, 0.3]))
    if mode < 0.75:
        f = lambda p: (p[0] * s, p[1] * s)
        return G.map_coords(g, f), 'scaled'
    ox = rng.choice([0.0, 1e3, 1e6, -5e5]) * s * (1 + rng.random() * 1e-3)
    oy = rng.choice([0.0, 1e3, 1e6, -5e5]) * s * (1 + rng.random() * 1e-3)
    f = lambda p: (p[0] * s + ox, p[1] * s + oy)
    return G.map_coords(g, f), 'offset'


def input_size(flat):
    cs = all_coords(flat)
    if not cs:
        return 1.0
    xs = [c[0] for c in cs]; ys = [c[1] for c in cs]
    ext = math.hypot(max(xs) - min(xs), max(ys) - min(ys))
    mag = max(max(abs(v) for v in xs), max(abs(v) for v in ys))
    return max(ext, mag) or 1.0


def gen_input(rng, kind=None):
    kind = kind or rng.choice(['point', 'line', 'line', 'retrace', 'poly', 'poly', 'polyh', 'mpoint', 'mline', 'mpoly', 'coll'])
    R = rng.choice([6, 12, 20, 40])
    if kind == 'point':
        g = G.gen_point(rng, R)
    elif kind == 'retrace':
        # a line that doubles back EXACTLY along itself (three consecutive collinear vertices, the third behind the second) in one of
        # the eight lattice directions, vertical and horizontal included; alone, or as a dead-end spur on a longer line
        dx, dy = rng.choice([(1, 0), (0, 1), (-1, 0), (0, -1), (1, 1), (-1, 1), (1, -1), (2, 1)])
        a = rng.randint(2, R); b = rng.randint(1, a + 3)          # out a steps, back b steps (b > a: past the start)
        o = (rng.randint(-R, R), rng.randint(-R, R))
        tip = (o[0] + a * dx, o[1] + a * dy); back = (tip[0] - b * dx, tip[1] - b * dy)
        k = rng.random()
        if k < 0.4:
            pts = [o, tip, back]
        elif k < 0.7:      # spur: approach across, out and back exactly to the branching vertex, continue
            pts = [(o[0] - 3 * dy - dx, o[1] + 3 * dx - dy), o, tip, o, (o[0] + 4 * dy, o[1] - 4 * dx)]
        else:
            pts = [(o[0] - 2 * dy, o[1] + 2 * dx), o, tip, back, (back[0] + 3 * dy + dx, back[1] - 3 * dx + dy)]
        if rng.random() < 0.5: pts = pts[::-1]
        g = ('LineString', pts); kind = 'line'
    elif kind == 'line':
        g = G.gen_line(rng, R, n=rng.randint(2, 7))
    elif kind == 'poly':
        g = G.gen_polygon(rng, R, holes=False)
    elif kind == 'polyh':
        w, hgt = rng.randint(6, R + 6), rng.randint(6, R + 6)
        shell = G.rect_ring(0, 0, w, hgt) if rng.random() < 0.5 else G.convex_ring(rng, rng.randint(4, 8), R)
        xs = [p[0] for p in shell]; ys = [p[1] for p in shell]
        cx, cy = (min(xs) + max(xs)) // 2, (min(ys) + max(ys)) // 2
        hs = max(1, min(max(xs) - min(xs), max(ys) - min(ys)) // 6)
        holes = [G.rect_ring(cx - hs, cy - hs, cx + hs, cy + hs)[::-1]]
        g = ('Polygon', [shell] + holes)
    elif kind == 'mpoint':
        g = ('MultiPoint', [G.gen_point(rng, R) for _ in range(rng.randint(1, 4))])
    elif kind == 'mline':
        g = ('MultiLineString', [G.gen_line(rng, R, n=rng.randint(2, 4)) for _ in range(rng.randint(1, 3))])
    elif kind == 'mpoly':
        g = ('MultiPolygon', [G.gen_polygon(rng, R // 2 + 1, cx=i * (3 * R), cy=0) for i in range(rng.randint(1, 3))])
    else:
        g = ('GeometryCollection', [G.gen_atom(rng, R // 2 + 1, cx=i * (3 * R), cy=rng.randint(-R, R)) for i in range(rng.randint(1, 3))])
    g, mag = gen_magnitude(rng, g)
    return g, kind, mag


def gen_distance(rng, flat, sign=None):
    size = input_size(flat)
    lo, hi = -6.0, 3.0
    u = rng.random()
    cs = all_coords(flat)
    ext = math.hypot(max(c[0] for c in cs) - min(c[0] for c in cs), max(c[1] for c in cs) - min(c[1] for c in cs)) if cs else 0.0
    if u < 0.1 and ext > 0 and ext * 200 <= size * 1e3:
        f = ext * 10 ** rng.uniform(0.3, 2.2) / size   # d much larger than the extent: closing segments, input simplification
    elif u < 0.6:
        f = 10 ** rng.uniform(-2.5, 0.5)           # the range where joins, caps and holes interact
    else:
        f = 10 ** rng.uniform(lo, hi)
    d = f * size
    if rng.random() < 0.3:
        d = float('%.3g' % d)
    return d, f


def gen_style(rng):
    u = rng.random()
    if u < 0.5:
        return dict(cap=CAP_ROUND, join=JOIN_ROUND, mitre=5.0)
    return dict(cap=rng.choice([CAP_ROUND, CAP_FLAT, CAP_SQUARE]), join=rng.choice([JOIN_ROUND, JOIN_MITRE, JOIN_BEVEL]),
                mitre=rng.choice([5.0, 1.0, 2.0, 10.0, 0.5, 1.5 + rng.random()]))


def gen_q(rng):
    return rng.choice([1, 2, 3, 4, 5, 6, 7, 8, 8, 8, 12, 16, 32, rng.randint(1, 32)])


# ------------------------------------------------------------------------------------------------ single-sided buffers, offset curves
def line_segs(lines):
    """segments in the order of the checker's `flat_map adj_pairs lines`"""
    ss = []
    for l in lines:
        ss += list(zip(l, l[1:]))
    return ss


def ss_witnesses(rng, lines, d, q):
    """(x, y, k): locations beside segment k on both sides at several offsets"""
    ad = abs(d); e = e_float(q)
    rin = (1 - e) * ad * (1 - IN_MARGIN); rout = (1 + 1e-6) * ad * (1 + IN_MARGIN)
    ws = []
    ss = line_segs(lines)
    idx = [k for k, (a, b) in enumerate(ss) if a != b]
    if len(idx) > 16:
        idx = rng.sample(idx, 16)
    for k in idx:
        a, b = ss[k]
        ux, uy = unit(b[0] - a[0], b[1] - a[1])
        for t in (0.5, rng.uniform(0.1, 0.9)):
            mx, my = a[0] + t * (b[0] - a[0]), a[1] + t * (b[1] - a[1])
            for sg_ in (1, -1):
                for h in (rin, 0.5 * rin, 0.01 * rin, rout, 3 * rout):
                    ws.append((mx - sg_ * uy * h, my + sg_ * ux * h, k))
    return ws


def ss_case_line(c, lines, res, ws):
    d = float(c['d'])
    _, k = style_of(dict(c, cap=CAP_ROUND), ([], lines, []))
    k = max(k, Fraction(1))
    vals = [abs(d)] + [v for l in lines for xy in l for v in xy] + [v for p in res['polys'] for r in p for xy in r for v in xy] + [v for w in ws for v in w[:2]]
    grid = Grid(vals)
    side = 1 if d > 0 else -1
    return 'SS %d %d %d %d %d %s %s %d %s' % (side, grid.z(abs(d)), c['q'], k.numerator, k.denominator, lines_txt(grid, lines),
                                              mpoly_txt(grid, res['polys']), len(ws), ' '.join('%d %d %d' % (grid.z(w[0]), grid.z(w[1]), w[2]) for w in ws))


def oc_witnesses(res_lines, in_lines, cap=400, rng=None):
    """vertices and edge midpoints of the result curve, exact (Fractions), each with the index of the nearest input segment (float estimate)"""
    ws = []
    for l in res_lines:
        for a, b in zip(l, l[1:]):
            ws.append((Fraction(a[0]), Fraction(a[1])))
            ws.append(((Fraction(a[0]) + Fraction(b[0])) / 2, (Fraction(a[1]) + Fraction(b[1])) / 2))
        if l:
            ws.append((Fraction(l[-1][0]), Fraction(l[-1][1])))
    if rng is not None and len(ws) > cap:
        ws = rng.sample(ws, cap)
    ss = line_segs(in_lines)
    return [(w[0], w[1], max(0, fdist((float(w[0]), float(w[1])), ss)[1])) for w in ws]


def oc_case_line(c, lines, side, res_lines, ws):
    d = float(c['d'])
    rnd, k = style_of(dict(c, cap=CAP_ROUND), ([], lines, []))
    vals = [abs(d)] + [v for l in lines for xy in l for v in xy] + [v for l in res_lines for xy in l for v in xy]
    grid = Grid(vals, extra_bits=1)
    return 'OC %d %d %d %d %d %d %s %s %d %s' % (side, 1 if rnd else 0, grid.z(abs(d)), c['q'], k.numerator, k.denominator, lines_txt(grid, lines),
                                                  lines_txt(grid, res_lines), len(ws), ' '.join('%d %d %d' % (grid.z(w[0]), grid.z(w[1]), w[2]) for w in ws))


def parse_verdict3(s):
    w = s.split()
    if not w or w[0] != 'N' or 'F' not in w or 'C' not in w:
        return None
    f, c = w.index('F'), w.index('C')
    return [int(x) for x in w[1:f]], [int(x) for x in w[f + 1:c]], [int(x) for x in w[c + 1:]]


# ------------------------------------------------------------------------------------------------ simple lines (exact test)
def _orient(a, b, c):
    v = (b[0] - a[0]) * (c[1] - a[1]) - (b[1] - a[1]) * (c[0] - a[0])
    return (v > 0) - (v < 0)


def _onseg(p, a, b):
    return _orient(a, b, p) == 0 and min(a[0], b[0]) <= p[0] <= max(a[0], b[0]) and min(a[1], b[1]) <= p[1] <= max(a[1], b[1])


def segs_meet(a, b, c, d):
    o1, o2, o3, o4 = _orient(a, b, c), _orient(a, b, d), _orient(c, d, a), _orient(c, d, b)
    if o1 * o2 < 0 and o3 * o4 < 0:
        return True
    return _onseg(c, a, b) or _onseg(d, a, b) or _onseg(a, c, d) or _onseg(b, c, d)


def is_simple_line(pts):
    """exact (Fractions): no repeated vertex except consecutive duplicates, consecutive segments meet only in their common
       vertex (no fold-back), non-consecutive segments are disjoint (closed lines are treated as non-simple here)"""
    P = []
    for p in pts:
        q = (Fraction(p[0]), Fraction(p[1]))
        if not P or q != P[-1]:
            P.append(q)
    if len(P) < 2 or len(set(P)) != len(P):
        return False
    S = list(zip(P, P[1:]))
    for i in range(len(S)):
        for j in range(i + 1, len(S)):
            if j == i + 1:
                if _onseg(S[j][1], S[i][0], S[i][1]) or _onseg(S[i][0], S[j][0], S[j][1]):
                    return False
            elif segs_meet(S[i][0], S[i][1], S[j][0], S[j][1]):
                return False
    return True


def gen_simple_line(rng, R=20):
    """simple by construction (x-monotone zigzag, then rotated by a lattice rotation / reflected) or by filtering a random walk"""
    for _ in range(50):
        u = rng.random()
        if u < 0.6:
            n = rng.randint(2, 8)
            xs = sorted(rng.sample(range(-R, R + 1), n))
            pts = [(x, rng.randint(-R, R)) for x in xs]
            a, b = rng.choice([(1, 0), (0, 1), (1, 1), (2, 1), (-1, 2), (3, -1), (-1, 0)])
            pts = [(a * x - b * y, b * x + a * y) for x, y in pts]
            if rng.random() < 0.5:
                pts = pts[::-1]
        else:
            pts = G.gen_line(rng, R, n=rng.randint(2, 6))[1]
        if is_simple_line(pts):
            return ('LineString', pts)
    return ('LineString', [(0, 0), (R, 1)])


# ------------------------------------------------------------------------------------------------ findings: keys
def find_known(ctx, fid):
    return ctx.known_match(lambda k: k.get('id') == fid)


def min_vertex_gap(flat):
    """smallest distance between consecutive distinct vertices of the input linework"""
    best = float('inf')
    for a, b in segs_of(flat):
        if a != b:
            best = min(best, math.hypot(a[0] - b[0], a[1] - b[1]))
    return best


def classify_inside(c, flat, w, only_polys=False):
    """a failing 'contains' witness of a ROUND buffer.  F1 key: q <= 5, the witness lies in the sector of a join / cap
       (its nearest point of the input is a vertex) at distance from that vertex in [d cos(3/4 quantum), (1-e) d]."""
    q, ad = c['q'], abs(float(c['d']))
    fd, si, clamped, v = fdist(w, segs_of(flat, only_polys))
    quantum = math.pi / 2 / q
    info = dict(rel_dist=fd / ad if ad else None, nearest_is_vertex=bool(clamped), q=q, key_low=math.cos(0.75 * quantum), key_high=1 - e_float(q))
    is_f1 = q <= 5 and clamped and fd >= ad * math.cos(0.75 * quantum) * (1 - 1e-9) and not (flat[2] and in_polys_f(w, flat[2]) and float(c['d']) > 0)
    return ('F1' if is_f1 else None), info


def artifact_hole(res, flat, w, d):
    """K6 key: the witness lies in a hole of the result whose diameter is <= 0.05 d while d exceeds the shortest input segment
       (inside turns whose offset segments do not meet get 'closing segments'; a sliver between them survives as a hole)"""
    gap = min_vertex_gap(flat)
    if not (gap < d):
        return None
    for p in res.get('r', {}).get('polys', []):
        for h in p[1:]:
            if in_ring_f(w, h):
                xs = [v[0] for v in h]; ys = [v[1] for v in h]
                diam = math.hypot(max(xs) - min(xs), max(ys) - min(ys))
                if diam <= 0.05 * d:
                    return dict(vertices=len(h) - 1, diameter_over_d=diam / d, hole=[[HEX(x), HEX(y)] for x, y in h][:12])
    return None


SIMPLIFY_REL = 0.0101       # K2: deleting a vertex closer than d/100 to its predecessor moves the offset curve by less than d/100


def classify_outside(c, flat, w, kfac, only_polys=False):
    """a failing 'excludes' witness.  K2 key: consecutive input vertices closer than |d|/100 (BufferInputLineSimplifier may drop one)
       and the witness is less than 1e-4 |d| beyond the bound."""
    ad = abs(float(c['d']))
    fd = fdist(w, segs_of(flat, only_polys))[0]
    bound = ad * math.sqrt(kfac)
    gap = min_vertex_gap(flat)
    info = dict(rel_dist=fd / ad if ad else None, bound_rel=math.sqrt(kfac), min_vertex_gap_over_d=gap / ad if ad else None)
    is_k2 = gap < ad / 100 * (1 + 1e-9) and fd <= bound * (1 + SIMPLIFY_REL)
    return ('C06-K2' if is_k2 else None), info


# ------------------------------------------------------------------------------------------------ evaluating buffer cases
def eval_buffer_cases(ctx, hexe, drv, cases, rng, budget=120, tag='buf'):
    """harness + witnesses + extracted checker for a list of buffer cases (api B/S/P, not single-sided).
       returns a list of result dicts aligned with cases"""
    outs = par_lines(ctx, [hexe], [harness_line(c) for c in cases], timeout=300)
    lines, idx, results = [], [], [None] * len(cases)
    for i, (c, o) in enumerate(zip(cases, outs)):
        flat = flatten(c['g'])
        r = parse_out(o)
        res = dict(case=c, flat=flat, out=o[:200], problems=[], fi=[], fo=[], ws=[], st={'in': 0, 'out': 0})
        results[i] = res
        if not r['ok']:
            res['problems'].append('the buffer did not succeed: %s' % o[:200]); continue
        res['r'] = r
        if not r['valid']:
            res['problems'].append('result is not valid (GEOSisValid_r = 0)')
        if r['t'] not in (3, 6) or r['lines'] or r['pts']:
            res['problems'].append('result is not polygonal (type id %d)' % r['t'])
        if res['problems']:
            continue
        d = float(c['d'])
        only_polys = d < 0
        if d <= 0 and not flat[2]:
            if not r['empty']:
                res['problems'].append('non-positive distance on a geometry without area must give an empty result')
            continue
        rnd, k = style_of(c, flat)
        ws, rin, rout = witnesses(rng, flat, d, c['q'], r['polys'], budget, only_polys=only_polys)
        ws, st = prefilter(ws, flat, d, c['q'], float(k), only_polys=only_polys)
        ws += c.get('extra_ws', [])
        res['ws'], res['st'], res['k'], res['rnd'] = ws, st, k, rnd
        lines.append(buf_case_line(c, flat, r, ws)); idx.append(i)
    ver = par_lines(ctx, [drv], lines, timeout=1800) if lines else []
    for i, v in zip(idx, ver):
        pv = parse_verdict(v)
        if pv is None:
            results[i]['problems'].append('checker did not answer: %s' % v[:200]); results[i]['checker_error'] = True
            continue
        results[i]['fi'], results[i]['fo'] = pv
    return results


def judge_buffer(ctx, res, stream):
    """turn the checker's failure lists into known findings / violations. returns list of (kind, message, replay)"""
    c, flat = res['case'], res['flat']
    d = float(c['d'])
    verdicts = []
    base = dict(stream=stream, call=harness_line(c), input_wkt=G.to_wkt(c['g']), distance=d, distance_hex=HEX(d), quadsegs=c['q'], cap=c.get('cap', 1), join=c.get('join', 1),
                mitre=c.get('mitre', 5.0), implementation=res['out'],
                case=dict(g=c['g'], d=d, q=c['q'], cap=c.get('cap', 1), join=c.get('join', 1), mitre=c.get('mitre', 5.0), api=c['api'], kind=c.get('kind'), mag=c.get('mag'), f=c.get('f')),
                rerun="echo '%s' | %s" % (harness_line(c), os.path.join(BUILD, 'bin', 'c06')))
    for p in res['problems']:
        if res.get('checker_error'):
            ctx.broken.append(dict(kind='correspondence', name='C06 checker run', detail=p + ' / ' + harness_line(c)[:500]))
        else:
            verdicts.append(('violation', p, dict(base, expected='a valid polygonal result', why=p)))
    only_polys = d < 0
    # 'contains' failures: d > 0 -> fi ; 'excludes'-near-boundary for d < 0 -> fo
    if d > 0:
        inside_like, outside_like = res['fi'], res['fo']
    elif d < 0:
        inside_like, outside_like = res['fo'], res['fi']
    else:
        inside_like, outside_like = res['fi'], []
    for i in inside_like:
        w = res['ws'][i]
        if d == 0:
            verdicts.append(('violation', 'zero-distance buffer: location (%r, %r) is in exactly one of input / result' % (w[0], w[1]),
                             dict(base, witness=[HEX(w[0]), HEX(w[1])], expected='same point set', why='membership differs')))
            continue
        if d < 0 and flat[2] and not in_polys_f(w, flat[2]):
            verdicts.append(('violation', 'negative buffer contains location (%r, %r) outside the polygon' % (w[0], w[1]),
                             dict(base, witness=[HEX(w[0]), HEX(w[1])], expected='result inside the polygon', why='location outside the input polygon is in the result')))
            continue
        fid, info = classify_inside(c, flat, w, only_polys)
        if fid is None and d > 0:
            hole = artifact_hole(res, flat, w, d)
            if hole is not None:
                fid = 'C06-K6'; info = dict(info, artifact_hole=hole)
        msg = ('location (%r, %r) at distance %.9f |d| <= (1-e)|d| (e = %.6f) from the input%s is %s the result'
               % (w[0], w[1], info['rel_dist'], e_float(c['q']), ' boundary' if d < 0 else '', 'outside' if d > 0 else 'inside'))
        rp = dict(base, witness=[HEX(w[0]), HEX(w[1])], witness_tag=w[2] if len(w) > 2 else '', classification=info,
                  expected='inside the result' if d > 0 else 'outside the result', why=msg)
        verdicts.append((fid or 'violation', msg, rp))
    for i in outside_like:
        w = res['ws'][i]
        fid, info = classify_outside(c, flat, w, float(res.get('k', 1)), only_polys)
        msg = ('location (%r, %r) at distance %.9f |d| >= (1+1e-6) %.6f |d| from the input%s is %s the result'
               % (w[0], w[1], info['rel_dist'], info['bound_rel'], ' boundary' if d < 0 else '', 'inside' if d > 0 else 'outside'))
        rp = dict(base, witness=[HEX(w[0]), HEX(w[1])], witness_tag=w[2] if len(w) > 2 else '', classification=info,
                  expected='outside the result' if d > 0 else 'inside the result', why=msg)
        verdicts.append((fid or 'violation', msg, rp))
    return verdicts


def report(ctx, verdicts, name, counters, shrink=None):
    """known findings are printed once per id; violations get a replay file (at most a few per run)"""
    for kind, msg, rp in verdicts:
        if kind == 'violation':
            counters['violations'] = counters.get('violations', 0) + 1
            bs = counters.setdefault('violations_by_stream', {})
            bs[name] = bs.get(name, 0) + 1          # all of them are counted; only the first six get a replay file
            if len(ctx.violations) < 6:
                if shrink:
                    try:
                        rp['shrunk'] = shrink(rp)
                    except Exception as ex:
                        rp['shrunk'] = 'shrinking failed: %r' % ex
                ctx.violation('%s_%d' % (name, counters['violations']), rp, msg=msg)
        else:
            k = find_known(ctx, kind)
            if k is None:
                counters['violations'] = counters.get('violations', 0) + 1
                if len(ctx.violations) < 6:
                    rp['note'] = 'matches the key of finding %s, which is not recorded as known in known_findings.json' % kind
                    ctx.violation('%s_%s_%d' % (name, kind, counters['violations']), rp, msg=msg)
            else:
                counters[kind] = counters.get(kind, 0) + 1
                ctx.known_hit(k)
                ctx.notes.setdefault('known_examples', {}).setdefault(kind, rp if len(json.dumps(rp, default=str)) < 4000 else dict(call=rp.get('call', '')[:1500], why=rp.get('why')))


# ------------------------------------------------------------------------------------------------ shrinking
def shrink_buffer(ctx, hexe, drv, case, want_inside, rng_seed=7, budget=60):
    """delete components / vertices of the input while a failure of the same clause persists"""
    def fails(g):
        c = dict(case, g=g)
        flat = flatten(g)
        if not all_coords(flat):
            return False
        v = ctx.run_lines([hexe], ['V|' + G.to_wkt(g)], timeout=30)[0]
        if ' v=1 ' not in v:
            return False
        res = eval_buffer_cases(ctx, hexe, drv, [c], random.Random(rng_seed), budget=200)[0]
        if res['problems']:
            return not want_inside is None and False
        d = float(case['d'])
        ins = res['fi'] if d >= 0 else res['fo']
        outs = res['fo'] if d >= 0 else res['fi']
        return bool(ins) if want_inside else bool(outs)

    def variants(g):
        t, b = g
        if t in ('MultiPoint', 'MultiLineString', 'MultiPolygon', 'GeometryCollection'):
            for i in range(len(b)):
                yield (t, b[:i] + b[i + 1:])
            for i in range(len(b)):
                for v in variants(b[i]):
                    yield (t, b[:i] + [v] + b[i + 1:])
        elif t == 'LineString' and len(b) > 2:
            for i in range(len(b)):
                yield (t, b[:i] + b[i + 1:])
        elif t == 'Polygon' and b:
            for i in range(1, len(b)):
                yield (t, b[:i] + b[i + 1:])
            for ri, r in enumerate(b):
                if len(r) > 4:
                    for i in range(1, len(r) - 1):
                        yield (t, b[:ri] + [r[:i] + r[i + 1:]] + b[ri + 1:])
    g = case['g']
    n = 0
    progress = True
    while progress and n < budget:
        progress = False
        for v in variants(g):
            n += 1
            if n > budget:
                break
            try:
                if fails(v):
                    g = v; progress = True
                    break
            except Exception:
                pass
    return dict(input_wkt=G.to_wkt(g), call=harness_line(dict(case, g=g)))


# ------------------------------------------------------------------------------------------------ fillet ties
def fillet_unit_tie(ctx, hexe, drv, rng, quick):
    """the real (private) addDirectedFillet beside the extracted count nsegs_q and the model's points, q = 1..32, total angles on a
       grid round every (n + 1/2) quantum"""
    lines, meta = [], []
    for q in range(1, 33):
        quantum = (math.pi / 2) / q
        ns = sorted(set([0, 1, 2, 3, q, 2 * q - 1, 2 * q, 4 * q - 1] + [rng.randint(0, 4 * q - 1) for _ in range(2 if quick else 8)]))
        for n in ns:
            for delta in (-0.25, -1e-3, -1e-9, 1e-9, 1e-3, 0.25):
                x = n + 0.5 + delta
                total = x * quantum
                if x <= 0 or total >= 2 * math.pi:
                    continue
                dirn = rng.choice([1, -1])
                start = rng.uniform(-3.0, 3.0)
                end = start + dirn * total
                radius = rng.choice([1.0, 2.5, 1e3, 1e-3])
                lines.append('F|%d|%s|%s|%d|%s' % (q, HEX(start), HEX(end), dirn, HEX(radius)))
                meta.append((q, quantum, start, end, dirn, radius, n, delta))
    out = ctx.run_lines([hexe], lines, timeout=300)
    nlines = []
    for (q, quantum, start, end, dirn, radius, n, delta) in meta:
        t, qu = Fraction(abs(start - end)), Fraction(quantum)
        nlines.append('NSEG %d %d %d %d' % (t.numerator, t.denominator, qu.numerator, qu.denominator))
    model = ctx.run_lines([drv], nlines, timeout=300) if drv else None
    bad = 0
    dist = {}
    for k, (m, o) in enumerate(zip(meta, out)):
        q, quantum, start, end, dirn, radius, n, delta = m
        ctx.count(('F', lines[k]), True)
        w = o.split()
        why = None
        if not o.startswith('OK '):
            why = 'harness: %s' % o[:200]
        else:
            cnt = int(w[1])
            pts = [(float.fromhex(w[2 + 2 * i]), float.fromhex(w[3 + 2 * i])) for i in range(cnt)]
            rq = float.fromhex(w[-1].split('=')[1])
            nm = int(model[k]) if model is not None and model[k].lstrip('-').isdigit() else None
            dist[min(nm if nm is not None else -1, 9)] = dist.get(min(nm if nm is not None else -1, 9), 0) + 1
            if rq != quantum:
                why = 'filletAngleQuantum is %r, model (pi/2)/q = %r' % (rq, quantum)
            elif nm is None:
                why = 'model count missing (%s)' % (model[k] if model else 'no driver')
            elif cnt != max(nm, 0):
                why = 'the code appended %d points, the model floor(total/quantum + 1/2) = %d' % (cnt, nm)
            elif nm >= 1:
                total = abs(start - end); inc = total / nm
                for i, p in enumerate(pts):
                    a = start + dirn * i * inc
                    if abs(p[0] - radius * math.cos(a)) > 1e-12 * radius or abs(p[1] - radius * math.sin(a)) > 1e-12 * radius:
                        why = 'point %d is %r, model %r' % (i, p, (radius * math.cos(a), radius * math.sin(a))); break
                if why is None and inc > 1.5 * quantum * (1 + 1e-12):
                    why = 'angle increment %r exceeds 1.5 quantum' % inc
        if why:
            bad += 1
            if bad <= 3:
                ctx.broken.append(dict(kind='correspondence', name='fillet unit tie q=%d' % q,
                                       detail='%s\ncase: %s\nimpl: %s\nrerun: echo "%s" | %s' % (why, lines[k], o[:300], lines[k], hexe)))
    ctx.notes['fillet_unit_tie'] = dict(cases=len(lines), disagreements=bad, model_count_histogram=dist)
    return bad


def offset_pt_like_geos(B, C, d):
    """OffsetSegmentGenerator::computeOffsetSegment(seg B->C, LEFT, d).p0 with the same double operations"""
    dx, dy = C[0] - B[0], C[1] - B[1]
    ln = math.sqrt(dx * dx + dy * dy)
    ux = 1 * d * dx / ln
    uy = 1 * d * dy / ln
    return (B[0] - uy, B[1] + ux)


def fillet_api_cases(rng, quick):
    """two-segment lines A B C turning clockwise by tau at B = (0,0): the left side gets a fillet of total angle tau"""
    cases = []
    for q in range(1, 33):
        quantum = (math.pi / 2) / q
        nmax = int((math.pi - 0.05) / quantum - 0.5)
        ns = sorted(set([0, 1, 2] + [rng.randint(0, max(0, nmax)) for _ in range(1 if quick else 4)] + ([nmax] if nmax > 2 else [])))
        for n in ns:
            for delta in ((-1e-4, 0.005, 0.3) if n == 1 else (-0.005, 0.005) if quick else (-0.3, -0.005, -1e-6, 1e-6, 0.005, 0.3)):
                x = n + 0.5 + delta
                tau = x * quantum
                if not (0.01 < tau < math.pi - 0.05):
                    continue
                s = rng.choice([1.0, 1.0, 3.7, 1e3, 1e-3])
                d = s
                L = 8 * d
                B = (0.0, 0.0); A = (-L, 0.0); C = (L * math.cos(tau), -L * math.sin(tau))
                p1 = offset_pt_like_geos(B, C, d)
                end_angle = math.atan2(p1[1], p1[0])
                total = abs(math.atan2(d, 0.0) - end_angle)
                e = e_float(q)
                rin = (1 - e) * d * (1 - IN_MARGIN)
                rdeep = d * math.cos(0.75 * quantum) * (1 - 1e-7)
                rout = (1 + 1e-6) * d * (1 + IN_MARGIN)
                ws = []
                for j in range(9):
                    th = math.pi / 2 - tau * j / 8.0
                    cs, sn = math.cos(th), math.sin(th)
                    ws.append((min(rin, rdeep) * cs, min(rin, rdeep) * sn, 'sector-deep'))
                    ws.append((rout * cs, rout * sn, 'sector-out'))
                    if j == 4:
                        ws.append((rin * cs, rin * sn, 'sector-bisector-in'))
                cases.append(dict(g=('LineString', [A, B, C]), kind='fillet', mag='fillet', f=d / L, q=q, api='P', d=d, cap=CAP_ROUND, join=JOIN_ROUND,
                                  mitre=5.0, extra_ws=ws, tau=tau, total=total, quantum=quantum, n_grid=n, delta=delta))
    return cases


def fillet_api_tie(ctx, hexe, drv, cases, results):
    """vertex count and maximal inward deviation of the fillet in the library's output against the model"""
    nlines = []
    for c in cases:
        t, qu = Fraction(c['total']), Fraction(c['quantum'])
        nlines.append('NSEG %d %d %d %d' % (t.numerator, t.denominator, qu.numerator, qu.denominator))
    model = ctx.run_lines([drv], nlines, timeout=300) if drv else None
    bad = 0
    for k, (c, res) in enumerate(zip(cases, results)):
        if model is None or 'r' not in res or not res['r']['polys']:
            continue
        nm = int(model[k])
        d, tau = float(c['d']), c['tau']
        vs = []
        for p in res['r']['polys']:
            for v in p[0][:-1]:
                rr = math.hypot(v[0], v[1])
                th = math.atan2(v[1], v[0])
                if abs(rr - d) <= 1e-9 * d and math.pi / 2 - tau - 1e-9 <= th <= math.pi / 2 + 1e-9:
                    vs.append((th, v))
        vs.sort(reverse=True)
        exp_cnt = (nm + 1) if nm >= 1 else 2
        inc = c['total'] / nm if nm >= 1 else c['total']
        exp_dev = d * math.cos(inc / 2)
        dev = min([math.sqrt(seg_proj((0.0, 0.0), a[1], b[1])[0]) for a, b in zip(vs, vs[1:])] or [float('nan')])
        why = None
        if len(vs) != exp_cnt:
            why = 'fillet has %d vertices, model %d (n = %d)' % (len(vs), exp_cnt, nm)
        elif not abs(dev - exp_dev) <= 1e-9 * d:
            why = 'deepest chord of the fillet is at %.12g d from the corner, model cos(inc/2) = %.12g' % (dev / d, exp_dev / d)
        if why:
            bad += 1
            if bad <= 3:
                ctx.broken.append(dict(kind='correspondence', name='fillet API tie q=%d' % c['q'],
                                       detail='%s\ncall: %s\nturn = %.9f quanta\nrerun: echo "%s" | %s' % (why, harness_line(c), tau / c['quantum'], harness_line(c), hexe)))
    ctx.notes['fillet_api_tie'] = dict(cases=len(cases), disagreements=bad)
    return bad


# ------------------------------------------------------------------------------------------------ single-sided / offset curve evaluation
def eval_line_cases(ctx, hexe, drv, cases, rng):
    outs = par_lines(ctx, [hexe], [harness_line(c) for c in cases], timeout=300)
    lines, idx, results = [], [], []
    for i, (c, o) in enumerate(zip(cases, outs)):
        flat = flatten(c['g'])
        r = parse_out(o)
        res = dict(case=c, flat=flat, out=o[:200], problems=[], f1=[], f2=[], f3=[], ws=[])
        results.append(res)
        if not r['ok']:
            res['problems'].append('the operation did not succeed: %s' % o[:200]); continue
        res['r'] = r
        if c['api'] == 'P':
            if not r['valid']:
                res['problems'].append('result is not valid (GEOSisValid_r = 0)')
            if r['t'] not in (3, 6) or r['lines'] or r['pts']:
                res['problems'].append('result is not polygonal (type id %d)' % r['t'])
            if res['problems']:
                continue
            ws = ss_witnesses(rng, flat[1], c['d'], c['q'])
            res['ws'] = ws
            lines.append(ss_case_line(c, flat[1], r, ws)); idx.append(i)
        else:
            if r['polys'] or r['pts'] or r['t'] not in (1, 5):
                res['problems'].append('result is not linear (type id %d)' % r['t']); continue
            ws = oc_witnesses(r['lines'], flat[1], 300, rng)
            res['ws'] = ws
            lines.append(oc_case_line(c, flat[1], c['side'], r['lines'], ws)); idx.append(i)
    ver = par_lines(ctx, [drv], lines, timeout=1800) if lines else []
    for i, v in zip(idx, ver):
        res = results[i]
        if res['case']['api'] == 'P':
            pv = parse_verdict(v)
            if pv is None:
                res['problems'].append('checker did not answer: %s' % v[:200]); res['checker_error'] = True; continue
            res['f1'], res['f2'] = pv
        else:
            pv = parse_verdict3(v)
            if pv is None:
                res['problems'].append('checker did not answer: %s' % v[:200]); res['checker_error'] = True; continue
            res['f1'], res['f2'], res['f3'] = pv
    return results


def judge_line(ctx, res, stream):
    c, flat = res['case'], res['flat']
    d = float(c['d'])
    ad = abs(d)
    line = flat[1][0] if flat[1] else []
    simple = all(is_simple_line(l) for l in flat[1])
    ss = line_segs(flat[1])
    _, k = style_of(dict(c, cap=CAP_ROUND), ([], flat[1], []))
    base = dict(stream=stream, call=harness_line(c), input_wkt=G.to_wkt(c['g']), distance=d, quadsegs=c['q'], join=c.get('join', 1), mitre=c.get('mitre', 5.0),
                side='left' if c['side'] > 0 else 'right', input_is_simple=simple, implementation=res['out'],
                rerun="echo '%s' | %s" % (harness_line(c), os.path.join(BUILD, 'bin', 'c06')))
    verdicts = []
    for p in res['problems']:
        if res.get('checker_error'):
            ctx.broken.append(dict(kind='correspondence', name='C06 checker run', detail=p + ' / ' + harness_line(c)[:500]))
        else:
            # a non-simple line that makes the single-sided / offset-curve machinery throw belongs to the input class of K3
            verdicts.append(('C06-K3' if (not simple and 'did not succeed' in p) else 'violation', p, dict(base, why=p)))

    def rel(w):
        return fdist((float(w[0]), float(w[1])), ss)[0] / ad if ad else 0.0
    gap = min_vertex_gap(flat)
    if c['api'] == 'P':
        for i in res['f1']:            # requested side, close to its segment, not in the result
            w = res['ws'][i]
            msg = 'single-sided buffer: location (%r, %r) on the requested side at %.6f |d| of segment %d is not in the result' % (w[0], w[1], rel(w), w[2])
            fid = None
            if not simple:
                fid = 'C06-K3'
            elif len([s for s in ss if s[0] != s[1]]) == 1 and gap < 1e-4 * ad * (1 + 1e-9):
                fid = 'C06-K5'
            verdicts.append((fid or 'violation', msg, dict(base, witness=[HEX(w[0]), HEX(w[1]), w[2]], why=msg, expected='in the result')))
        for i in res['f2']:            # wrong side / too far, in the result
            w = res['ws'][i]
            r_ = rel(w)
            msg = 'single-sided buffer: location (%r, %r) at %.9f |d|, on the wrong side of segment %d or beyond the distance, is in the result' % (w[0], w[1], r_, w[2])
            fid = None
            if not simple:
                fid = 'C06-K3'
            elif gap < ad / 100 * (1 + 1e-9) and r_ <= math.sqrt(float(k)) * (1 + SIMPLIFY_REL) and r_ >= math.sqrt(float(k)):
                fid = 'C06-K2'
            verdicts.append((fid or 'violation', msg, dict(base, witness=[HEX(w[0]), HEX(w[1]), w[2]], why=msg, expected='not in the result')))
    else:
        name = 'GEOSOffsetCurve_r' if c['api'] == 'O' else 'GEOSSingleSidedBuffer_r'
        for i in res['f1']:            # closer than (1-e)|d|
            w = res['ws'][i]
            msg = '%s: location (%r, %r) of the result is at %.9f |d| < (1-e)|d| from the input' % (name, float(w[0]), float(w[1]), rel(w))
            fid = None
            if not simple:
                fid = 'C06-K3'
            elif c['api'] == 'D':
                fid = 'C06-K4'
            elif gap < ad:
                # K6 seen through the offset curve: OffsetCurve extracts the raw-curve sections that lie on the buffer boundary,
                # the boundary of an artifact hole included - a fragment of diameter <= 0.05 |d|
                wf = (float(w[0]), float(w[1]))
                for l in res.get('r', {}).get('lines', []):
                    if l and min(seg_proj(wf, a, b)[0] for a, b in (list(zip(l, l[1:])) or [(l[0], l[0])])) <= (1e-9 * ad) ** 2:
                        xs = [v[0] for v in l]; ys = [v[1] for v in l]
                        if math.hypot(max(xs) - min(xs), max(ys) - min(ys)) <= 0.05 * ad:
                            fid = 'C06-K6'
                        break
            verdicts.append((fid or 'violation', msg, dict(base, witness=[str(w[0]), str(w[1])], why=msg, expected='at the requested distance')))
        for i in res['f2']:            # too far or wrong side
            w = res['ws'][i]
            r_ = rel(w)
            msg = '%s: location (%r, %r) of the result is at %.9f |d| from the input: farther than the bound or on the wrong side' % (name, float(w[0]), float(w[1]), r_)
            fid = None
            if not simple:
                fid = 'C06-K3'
            elif gap < ad / 100 * (1 + 1e-9) and math.sqrt(float(k)) <= r_ <= math.sqrt(float(k)) * (1 + SIMPLIFY_REL):
                fid = 'C06-K2'
            verdicts.append((fid or 'violation', msg, dict(base, witness=[str(w[0]), str(w[1])], why=msg, expected='within the distance bound, on the requested side')))
        for i in res['f3']:
            w = res['ws'][i]
            ctx.broken.append(dict(kind='correspondence', name='C06 offset-curve witness', detail='witness %s is not on the result curve: %s' % (w, harness_line(c)[:300])))
    return verdicts


def near_duplicate_case(rng, c):
    """a line with an extra vertex closer than d/100 to its predecessor (what BufferInputLineSimplifier deletes), d about the segment length"""
    n = rng.randint(5, 7)
    R = 20
    xs = sorted(rng.sample(range(-R, R + 1), n))
    pts = [(float(x), float(rng.randint(-R, R))) for x in xs]
    seglen = min(math.hypot(b[0] - a[0], b[1] - a[1]) for a, b in zip(pts, pts[1:]))
    d = seglen * rng.uniform(0.3, 1.5)
    i = rng.randint(1, n - 3)
    a = pts[i]
    u = rng.uniform(0.3, 0.98) * d / 100
    th = rng.uniform(0, 2 * math.pi)
    b = (a[0] + u * math.cos(th), a[1] + u * math.sin(th))
    pts = pts[:i + 1] + [b] + pts[i + 1:]
    g = ('LineString', pts)
    return dict(c, g=g, kind='neardup', mag='scaled', d=d, f=d / input_size(flatten(g)), cap=CAP_ROUND, join=JOIN_ROUND)


def tri_inradius(t):
    a, b, c = t[0], t[1], t[2]
    ar = abs((b[0] - a[0]) * (c[1] - a[1]) - (b[1] - a[1]) * (c[0] - a[0])) / 2
    per = math.hypot(b[0] - a[0], b[1] - a[1]) + math.hypot(c[0] - b[0], c[1] - b[1]) + math.hypot(a[0] - c[0], a[1] - c[1])
    return 2 * ar / per if per else 0.0


def gen_erosion_case(rng):
    """aimed at the case split of BufferCurveSetBuilder::isRingFullyEroded / isTriangleErodedCompletely (and of addPolygon's use of
       them): triangular and 4-vertex holes and shells whose in-radius (triangle) / half envelope width (other rings) is just below or
       just above |d|, both signs of d; the ring that is NOT under test is kept well away from its own threshold"""
    def tri(cx, cy, s):
        a0 = rng.uniform(0, 2 * math.pi)
        angs = sorted([a0, a0 + rng.uniform(1.6, 2.6), a0 + rng.uniform(3.4, 4.6)])
        pts = [(round(cx + s * math.cos(a), 3), round(cy + s * math.sin(a), 3)) for a in angs]
        return pts + [pts[0]]

    def quad(cx, cy, w, h):
        if rng.random() < 0.5:
            return G.rect_ring(cx - w / 2, cy - h / 2, cx + w / 2, cy + h / 2)
        pts = [(cx - w / 2, cy - h / 2 + rng.uniform(0, h / 5)), (cx + w / 2, cy - h / 2), (cx + w / 2 - rng.uniform(0, w / 5), cy + h / 2), (cx - w / 2, cy + h / 2)]
        pts = [(round(x, 3), round(y, 3)) for x, y in pts]
        return pts + [pts[0]]

    def thresh(ring):
        if len(ring) == 4:
            return tri_inradius(ring)
        xs = [p[0] for p in ring]; ys = [p[1] for p in ring]
        return min(max(xs) - min(xs), max(ys) - min(ys)) / 2
    target = rng.choice(['hole', 'hole', 'hole', 'shell'])
    scale = rng.choice([1.0, 1.0, 7.3, 1e3, 1e-2])
    if target == 'hole':
        S = 40.0
        shell = quad(0, 0, S, S) if rng.random() < 0.7 else tri(0, 0, S)
        hs = rng.uniform(1.0, 3.0)
        hole = tri(rng.uniform(-1, 1), rng.uniform(-1, 1), hs) if rng.random() < 0.6 else quad(rng.uniform(-1, 1), rng.uniform(-1, 1), 2 * hs, 2 * hs * rng.uniform(0.5, 1.5))
        rings = [shell, hole[::-1]]
        t = thresh(hole)
    else:
        shell = tri(0, 0, rng.uniform(5, 20)) if rng.random() < 0.6 else quad(0, 0, rng.uniform(5, 20), rng.uniform(5, 20))
        rings = [shell]
        t = thresh(shell)
    ad = t * rng.choice([0.5, 0.9, 0.99, 1.01, 1.1, 2.0])
    sign = rng.choice([-1, -1, 1]) if target == 'hole' else -1
    g = ('Polygon', [[(x * scale, y * scale) for x, y in r] for r in rings])
    d = sign * ad * scale
    return dict(g=g, kind='erode-' + target, mag='scaled', d=d, f=abs(d) / input_size(flatten(g)), q=gen_q(rng), cap=CAP_ROUND, join=JOIN_ROUND,
                mitre=5.0, api=rng.choice(['B', 'S', 'P']), stream='erode')


def gen_nested_case(rng):
    """inputs whose buffer has NESTED shells (PolygonBuilder::findEdgeRingContaining must give every free hole to the innermost
       containing shell): concentric closed lines at 2..4 radii, island-with-a-lake inside a lake at 2..3 nesting levels, closed lines or
       small holed polygons inside the holes of larger polygons.  d > 0 small enough that every gap and the innermost hole survive."""
    def ngon(cx, cy, R, n, rot):
        pts = [(round(cx + R * math.cos(rot + 2 * math.pi * k / n), 3), round(cy + R * math.sin(rot + 2 * math.pi * k / n), 3)) for k in range(n)]
        return pts + [pts[0]]
    levels = rng.choice([2, 2, 3, 4])
    r0 = rng.uniform(4.0, 12.0)
    gap = r0 * rng.uniform(0.5, 2.0)
    cx, cy = rng.uniform(-3, 3), rng.uniform(-3, 3)
    rings = []
    Rk = r0
    n0 = rng.choice([4, 5, 6, 8])
    inr0 = r0 * math.cos(math.pi / n0)
    for k in range(levels):
        n = n0 if k == 0 else rng.choice([4, 5, 6, 8])
        if k > 0:
            Rk = (Rk + gap) / math.cos(math.pi / n) + 0.01
        rings.append(ngon(cx + rng.uniform(-0.05, 0.05) * gap, cy + rng.uniform(-0.05, 0.05) * gap, Rk, n, rng.uniform(0, 2 * math.pi)))
    d = min(gap * rng.uniform(0.05, 0.42), 0.6 * inr0)
    shape = rng.choice(['lines', 'lines', 'mpoly', 'coll'])
    if shape == 'lines' or levels < 2:
        g = ('MultiLineString', [('LineString', r) for r in rings])
        kind = 'nested-lines'
    elif shape == 'mpoly':
        # rings[-1] shell with lake rings[-2]; inside the lake an island rings[-3] (or rings[0]) with its own lake when there is one more ring
        if levels == 2:
            inner = ngon(cx, cy, inr0 * 0.45, n0, 0.3)
            d = min(d, 0.25 * inr0 * math.cos(math.pi / n0) * 0.45 / 0.45, 0.2 * inr0)
            polys = [('Polygon', [rings[1], rings[0][::-1]]), ('Polygon', [inner])]
            # an island without a lake does not exercise the free-hole assignment; give it one when there is room
            lake = ngon(cx, cy, inr0 * 0.2, n0, 0.3)
            polys[1] = ('Polygon', [inner, lake[::-1]])
            d = min(d, 0.08 * inr0)
        elif levels == 3:
            polys = [('Polygon', [rings[2], rings[1][::-1]]), ('Polygon', [rings[0], ngon(cx, cy, inr0 * 0.5, n0, 0.1)[::-1]])]
            d = min(d, 0.3 * inr0 * 0.5 * math.cos(math.pi / n0))
        else:
            polys = [('Polygon', [rings[3], rings[2][::-1]]), ('Polygon', [rings[1], rings[0][::-1]])]
        g = ('MultiPolygon', polys)
        kind = 'nested-mpoly'
    else:
        # a polygon with a lake, and inside the lake closed lines (and their own insides)
        g = ('GeometryCollection', [('Polygon', [rings[-1], rings[-2][::-1]])] + [('LineString', r) for r in rings[:-2]] +
             ([('LineString', ngon(cx, cy, inr0 * 0.5, n0, 0.2))] if levels == 2 else []))
        if levels == 2:
            d = min(d, 0.12 * inr0)
        kind = 'nested-coll'
    scale = rng.choice([1.0, 1.0, 7.3, 1e3, 1e-2])
    g = G.map_coords(g, lambda p: (p[0] * scale, p[1] * scale))
    d *= scale
    c = dict(g=g, kind=kind, mag='scaled', d=d, f=d / input_size(flatten(g)), q=gen_q(rng), cap=CAP_ROUND, join=JOIN_ROUND, mitre=5.0,
             api=rng.choice(['B', 'S', 'P']), stream='nested')
    if rng.random() < 0.25:
        c.update(gen_style(rng)); c['api'] = rng.choice(['S', 'P'])
    return c


# ------------------------------------------------------------------------------------------------ corpus
def geom_from_json(x):
    return (x[0], None if x[1] is None else (tuple(x[1]) if x[0] == 'Point' else [geom_from_json(y) for y in x[1]] if x[0].startswith('Multi') or x[0] == 'GeometryCollection'
                                              else [tuple(p) for p in x[1]] if x[0] == 'LineString' else [[tuple(p) for p in r] for r in x[1]]))


def load_corpus():
    p = os.path.join(ROOT, 'gen/corpus/C06.jsonl')
    out = []
    if os.path.exists(p) and not os.environ.get('C06_NO_CORPUS'):      # C06_NO_CORPUS=1: generator families only (detection-power experiments)
        for l in open(p):
            l = l.strip()
            if l and not l.startswith('#'):
                c = json.loads(l)
                c['g'] = geom_from_json(c['g'])
                c.setdefault('api', 'P'); c.setdefault('cap', 1); c.setdefault('join', 1); c.setdefault('mitre', 5.0)
                c.setdefault('kind', 'corpus'); c.setdefault('mag', 'corpus'); c.setdefault('f', 0.0)
                out.append(c)
    return out


# ------------------------------------------------------------------------------------------------ the check
def fix_assumptions(ctx, ok_coq):
    """vlib/core.py reads the header line `Axioms:` of Coq's Print Assumptions output as an axiom called `Axioms` (every property
       before this one was closed under the global context, so the header never appeared).  Re-read the file here: every name that
       starts a line must be whitelisted - also names whose type is printed on the following line, which core's pattern skips."""
    import re
    from vlib.core import AXIOM_WHITELIST, AXIOM_PREFIX_WHITELIST, COQ
    hdr = [b for b in ctx.broken if b.get('name') == 'Print Assumptions' and b.get('detail') == "non-whitelisted axioms: ['Axioms']"]
    p = os.path.join(COQ, 'theories', 'Properties_C06.assumptions')
    if not os.path.exists(p):
        return ok_coq
    names = set()
    for l in open(p):
        m = re.match(r"^([A-Za-z_][\w.']*)\s*(:|$)", l.rstrip('\n'))
        if m and m.group(1) not in ('Axioms', 'Closed'):
            names.add(m.group(1))
    bad = sorted(a for a in names if not (a in AXIOM_WHITELIST or a.startswith(AXIOM_PREFIX_WHITELIST)))
    ctx.cov['trusted_base'] = sorted((set(ctx.cov['trusted_base']) - {'Axioms'}) | names)
    if bad:
        ctx.broken.append(dict(kind='proof', name='Print Assumptions (C06)', detail='non-whitelisted axioms: %s' % bad))
        return False
    for b in hdr:
        ctx.broken.remove(b)
    if hdr:
        g = ctx.hygiene()
        if g:
            ctx.broken.append(dict(kind='proof', name='hygiene gate', detail=g))
            return False
        ctx.log('coq ok (header line `Axioms:` of the Print Assumptions output is not an axiom); %d assumption names, all whitelisted (stdlib reals + Uint63/PrimInt63)' % len(names))
        return True
    return ok_coq


def run(ctx):
    ctx.cov['rule'] = ('a case = (valid input, distance, quadrant segments, cap / join style, mitre limit, API entry point); inputs: points, lines, polygons with and '
                       'without holes, multi-geometries, collections, grid / scaled / offset full-precision coordinates; |d| = 1e-6 .. 1e3 x input size '
                       '(size = max(envelope diagonal, largest |ordinate|)), both signs and 0; q = 1..32; distinct by the call text; non-trivial = the exact checker '
                       'was given at least one witness that can satisfy the hypothesis of the contains-clause and one for the excludes-clause (fillet ties: every case)')
    ctx.assumptions += [
        'fillet model over the reals: binary64 rounding, libm sin/cos/atan2 and the snapping of |sin|,|cos| < 5e-16 are not modelled (compared on the grid of the ties)',
        'OffsetSegmentList::addPt is modelled as append (its dropping of a vertex closer than 1e-4 d to the previous one is not modelled)',
        'input simplification, closing segments, inverted-ring / small-hole heuristics, noding, depth labelling and the precision-reduction retries are not modelled: judged through the checker only',
        'the checker samples the plane: clauses are decided at the witness locations only (buffer_check_sound_partial)',
        'validity of inputs and results is GEOSisValid_r (C05 decides whether that is right)',
        'input size is read as max(envelope diagonal, largest |ordinate|); magnitudes 1e-3 .. 1e12, no subnormal / near-overflow ordinates',
        'non-round styles: only success, validity and the enlarged outside bound are claimed by the property (outside bound squared x 2 for square caps, x (1 + limit^2) for mitre joins)',
        'single-sided buffers and offset curves: clauses on locations that project strictly inside one segment with every other segment farther than the bound; linear inputs only']
    quick = ctx.quick
    ok_build = ctx.build_repo('rel')
    # the ring-dropping decisions (isRingFullyEroded / isTriangleErodedCompletely / Triangle::inCentre / Envelope::getWidth, getHeight)
    # use C08's translated Distance::pointToSegment and its helpers: regenerated here too, so that this check never rests on stale text
    ctx.translate(['C06_fillet', 'C06_distErr', 'C08_equals2D', 'C08_coordEq', 'C08_coordDist', 'C08_ptSeg',
                   'C06_envWidth', 'C06_envHeight', 'C06_inCentre', 'C06_triEroded', 'C06_ringEroded'])
    ok_coq, ax = ctx.coq_build('Properties_C06')
    ok_coq = fix_assumptions(ctx, ok_coq)
    drv = ctx.ocaml_driver('C06')
    hexe = os.path.join(BUILD, 'bin', 'c06')
    if not ok_build or not ctx.cxx(os.path.join(ROOT, 'harness/c06.cpp'), hexe, 'rel'):
        return
    if not drv:
        return
    rng = ctx.rng
    counters = {}
    dist = {'stream': {}, 'kind': {}, 'mag': {}, 'q': {}, 'style': {}, 'api': {}, 'log10_d_over_size': {}, 'effective_witnesses': {'in': 0, 'out': 0}, 'result_ms_max': 0.0}

    def tally(stream, c, res=None):
        for key, val in (('stream', stream), ('kind', c.get('kind')), ('mag', c.get('mag')), ('q', '<=5' if c['q'] <= 5 else '6..32'),
                         ('style', '%d/%d' % (c.get('cap', 1), c.get('join', 1))), ('api', c['api']),
                         ('log10_d_over_size', str(int(math.floor(math.log10(c['f'])))) if c.get('f') else 'n/a')):
            dist[key][val] = dist[key].get(val, 0) + 1
        if res is not None and 'r' in res:
            dist['result_ms_max'] = max(dist['result_ms_max'], res['r']['ms'])

    # ---- replay of a stored case
    if ctx.replay:
        rp = json.load(open(ctx.replay))
        call = rp.get('call') or rp.get('shrunk', {}).get('call')
        ctx.log('replaying', call)
        out = ctx.run_lines([hexe], [call], timeout=300)[0]
        ctx.log('implementation now returns', out[:300])
        if rp.get('case') and rp.get('witness'):
            rc = dict(rp['case']); rc['g'] = geom_from_json(rc['g'])
            rc['extra_ws'] = [(float.fromhex(rp['witness'][0]), float.fromhex(rp['witness'][1]), 'replay')]
            rres = eval_buffer_cases(ctx, hexe, drv, [rc], random.Random(1), budget=0)[0]
            rres['ws'] = rres['ws'][-1:] if not (rres['fi'] or rres['fo']) else rres['ws']
            vs = judge_buffer(ctx, rres, 'replay')
            ctx.log('replayed case: %s' % ([(v[0], v[1]) for v in vs] or 'no clause fails'))
            report(ctx, vs, 'replay', {})
        ctx.cov['evaluations'] += 1
        ctx.cov['obligations'] = max(ctx.cov['obligations'], 1)
        return

    # ---- 1. fillet arithmetic: code beside model
    t0 = time.time()
    fillet_unit_tie(ctx, hexe, drv, rng, quick)
    fcases = fillet_api_cases(rng, quick)
    fres = eval_buffer_cases(ctx, hexe, drv, fcases, rng, budget=0)
    fillet_api_tie(ctx, hexe, drv, fcases, fres)
    f1_seen = 0
    for c, res in zip(fcases, fres):
        tally('fillet', c, res)
        ctx.count(harness_line(c), True)
        vs = judge_buffer(ctx, res, 'fillet')
        f1_seen += sum(1 for v in vs if v[0] == 'F1')
        report(ctx, vs, 'fillet', counters, shrink=None)
    ctx.notes['fillet_cases'] = dict(n=len(fcases), f1_failures=f1_seen, wall_s=round(time.time() - t0, 1))
    ctx.log('fillet ties: %d unit cases, %d API cases, F1 reproduced %d times' % (ctx.notes['fillet_unit_tie']['cases'], len(fcases), f1_seen))

    # ---- 2. generated buffer cases
    scale = 1 if quick else 10
    plan = [('round', 170 * scale), ('neg', 70 * scale), ('zero', 30 * scale), ('style', 90 * scale)]
    cases = []
    for c in load_corpus():
        c['stream'] = 'corpus'; cases.append(c)
    for stream, n in plan:
        made = 0
        tries = 0
        while made < n and tries < 20 * n:
            tries += 1
            kind = None
            if stream in ('neg', 'zero'):
                kind = rng.choice(['poly', 'poly', 'polyh', 'polyh', 'mpoly', 'coll'])
            g, kind, mag = gen_input(rng, kind)
            flat = flatten(g)
            if not all_coords(flat) or (stream in ('neg', 'zero') and not flat[2]):
                continue
            d, f = gen_distance(rng, flat)
            c = dict(g=g, kind=kind, mag=mag, f=f, q=gen_q(rng), d=d, cap=CAP_ROUND, join=JOIN_ROUND, mitre=5.0, api=rng.choice(['B', 'S', 'P']), stream=stream)
            if stream == 'neg':
                # erosion: distances up to about the inradius matter; larger ones give the empty result
                c['d'] = -d * rng.choice([0.02, 0.05, 0.1, 0.3, 1.0])
                c['f'] = abs(c['d']) / input_size(flat)
            elif stream == 'zero':
                c['d'] = 0.0; c['f'] = 0.0
            elif stream == 'style':
                c.update(gen_style(rng)); c['api'] = rng.choice(['S', 'P'])
                if c['cap'] == CAP_ROUND and c['join'] == JOIN_ROUND:
                    c['join'] = rng.choice([JOIN_MITRE, JOIN_BEVEL])
                if flat[2] and rng.random() < 0.3:
                    c['d'] = -d * rng.choice([0.02, 0.1, 0.3]); c['f'] = abs(c['d']) / input_size(flat)
            if stream == 'round' and rng.random() < 0.12:
                nd = near_duplicate_case(rng, c)
                if nd is not None:
                    c = nd
            cases.append(c); made += 1
    for _ in range(70 * scale):
        cases.append(gen_erosion_case(rng))
    for _ in range(45 * scale):
        cases.append(gen_nested_case(rng))
    # validity of the generated inputs is decided first
    vin = par_lines(ctx, [hexe], ['V|' + G.to_wkt(c['g']) for c in cases], timeout=300)
    nvalid = len(cases)
    cases = [c for c, v in zip(cases, vin) if ' v=1 ' in v]
    ctx.notes['inputs'] = dict(generated=nvalid, valid=len(cases))
    t0 = time.time()
    results = eval_buffer_cases(ctx, hexe, drv, cases, rng, budget=120 if quick else 200)
    for c, res in zip(cases, results):
        tally(c['stream'], c, res)
        st = res['st']
        dist['effective_witnesses']['in'] += st['in']; dist['effective_witnesses']['out'] += st['out']
        nontrivial = (st['in'] > 0 and st['out'] > 0) or float(c['d']) == 0.0
        ctx.count(harness_line(c), nontrivial)
        vs = judge_buffer(ctx, res, c['stream'])
        want_inside = any(v[0] == 'violation' and 'expected' in v[2] and ('inside' in v[2].get('expected', '') if float(c['d']) >= 0 else 'outside' in v[2].get('expected', '')) for v in vs)
        report(ctx, vs, c['stream'], counters,
               shrink=(lambda rp, c=c, wi=want_inside: shrink_buffer(ctx, hexe, drv, {k: v for k, v in c.items() if k != 'extra_ws'}, wi)) if any(v[0] == 'violation' for v in vs) else None)
    ctx.log('buffer streams: %d cases in %.0fs' % (len(cases), time.time() - t0))

    # ---- 3. single-sided buffers and offset curves of lines
    lcases = []
    for stream, api, n in (('single-sided', 'P', 70 * scale), ('offset-curve', 'O', 60 * scale), ('single-sided-curve', 'D', 40 * scale)):
        for _ in range(n):
            if rng.random() < 0.85:
                g = gen_simple_line(rng, rng.choice([6, 12, 20, 40])); kind = 'simple-line'
            else:
                g = G.gen_line(rng, rng.choice([6, 12, 20]), n=rng.randint(3, 6)); kind = 'random-line'
            g, mag = gen_magnitude(rng, g)
            flat = flatten(g)
            if not flat[1] or len(set(flat[1][0])) < 2:
                continue
            d, f = gen_distance(rng, flat)
            side = rng.choice([1, -1])
            c = dict(g=g, kind=kind, mag=mag, f=f, q=gen_q(rng), cap=CAP_ROUND, join=JOIN_ROUND, mitre=5.0, api=api, side=side, stream=stream)
            if rng.random() < 0.35:
                c.update(join=rng.choice([JOIN_MITRE, JOIN_BEVEL]), mitre=rng.choice([5.0, 1.0, 2.0, 0.5]))
            if api == 'P':
                c.update(single=1, d=d * side)
            elif api == 'O':
                c.update(d=d * side)
            else:
                c.update(d=d, left=1 if side > 0 else 0)
            lcases.append(c)
    t0 = time.time()
    lres = eval_line_cases(ctx, hexe, drv, lcases, rng)
    for c, res in zip(lcases, lres):
        tally(c['stream'], c, res)
        ctx.count(harness_line(c), bool(res['ws']))
        report(ctx, judge_line(ctx, res, c['stream']), c['stream'].replace('-', '_'), counters)
    ctx.log('line streams: %d cases in %.0fs' % (len(lcases), time.time() - t0))

    ctx.cov['traces_validated_against_impl'] = ctx.cov['evaluations']
    ctx.notes['distribution'] = dist
    ctx.notes['verdict_counters'] = counters
    if counters.get('violations_by_stream'):
        ctx.log('violating witnesses by stream: %s' % counters['violations_by_stream'])
    for c in cases[:3] + lcases[:2]:
        ctx.sample(harness_line(c)[:400])
    # ---- self-check of the generators: every class the proofs and clauses split on must have been drawn
    need = [('stream', s) for s in ('fillet', 'round', 'neg', 'zero', 'style', 'erode', 'nested', 'single-sided', 'offset-curve', 'single-sided-curve')] + \
           [('q', '<=5'), ('q', '6..32')] + [('kind', k) for k in ('point', 'line', 'poly', 'polyh', 'mpoint', 'mline', 'mpoly', 'coll', 'erode-hole', 'erode-shell', 'nested-lines', 'nested-mpoly', 'nested-coll')] + \
           [('mag', m) for m in ('grid', 'scaled', 'offset')]
    for key, val in need:
        if dist[key].get(val, 0) == 0:
            ctx.broken.append(dict(kind='generator', name='distribution', detail='no case with %s = %s was generated' % (key, val)))
    if dist['effective_witnesses']['in'] == 0 or dist['effective_witnesses']['out'] == 0:
        ctx.broken.append(dict(kind='generator', name='witnesses', detail='no effective witness for one of the clauses'))
    if f1_seen == 0 and find_known(ctx, 'F1') is not None:
        ctx.notes['F1'] = 'finding F1 did not reproduce on this run (the known-finding line is not printed)'
